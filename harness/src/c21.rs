//! C21: reading any lock file never crashes.
//!
//! Inputs (all a pure function of seed/shard/index):
//!  * `source` strings: short strings, known prefixes followed by garbage, token soups over the
//!    separators of the lock format, valid source strings with character edits / truncation,
//!    multi-byte characters placed at the byte offsets the parsers slice at;
//!  * dependency-line strings of the same flavours;
//!  * whole lock files: generated ones (C20 generator) and the Forc.lock files of /repo, mutated at
//!    byte, character, token, line and string-literal level.
//! Every input is driven through the real `Lock::from_path(..)` + `.to_graph()` (source and
//! dependency-line strings are embedded, TOML-escaped, in a small lock file) and source strings
//! additionally through `source::Pinned::from_str`, under `common::catch`.
//! Oracle: the call returns (Ok or Err). A panic is a violation whose signature is the call site:
//! crate-relative file + the text of the source line that panicked + the class of the message
//! (no line numbers, offsets or input fragments, so it is stable across seeds and edits elsewhere).
use crate::c20;
use crate::common::*;
use crate::{Plan, Prop};
use forc_pkg::{source, Lock};
use rand::rngs::StdRng;
use rand::Rng;
use serde_json::{json, Value};
use std::collections::{BTreeSet, HashMap};
use std::path::{Path, PathBuf};
use std::str::FromStr;

pub static META: PropertyMeta = PropertyMeta {
    id: "C21",
    level: "exploration",
    rule: "random/mutated source strings, dependency lines and lock files (generated and /repo corpus); each is read with Lock::from_path + to_graph (and source strings with source::Pinned::from_str); non-trivial = the input got past TOML parsing so that the source / dependency-line parsers ran on it (or was handed to from_str directly); distinct = hash of the input bytes",
    assumptions: &["a panic is observed through std::panic::catch_unwind (the harness is built with panic=unwind); aborts and stack overflows end the shard and are reported as inconclusive with the input in flight"],
    floor_evaluations: 5000,
    floor_nontrivial: 2000,
    required_counters: &["inputs_source_string", "inputs_dep_line", "inputs_lock_generated", "inputs_lock_corpus", "inputs_non_ascii", "result_ok_graph", "result_err_toml", "result_err_source", "result_err_dep_line", "from_str_ok", "from_str_err"],
};

pub static PROP: Prop = Prop {
    meta: &META,
    plan: |t| Plan { nshards: t.pick(8, 16), budget_s: t.pick(15.0, 200.0), mem_gib: 4 },
    shard,
    replay,
    extra: crate::no_extra,
    subcommand: crate::no_subcommand,
};

// ------------------------------------------------------------------------------------------
// Call-site signatures

fn message_class(msg: &str) -> String {
    let m = msg;
    if m.contains("is not a char boundary") {
        "str-slice-not-char-boundary".into()
    } else if m.contains("out of bounds of") || m.contains("out of range for") {
        "slice-out-of-bounds".into()
    } else if m.contains("begin <= end") || m.contains("slice index starts at") {
        "slice-begin-after-end".into()
    } else if m.starts_with("attempt to ") && m.contains("overflow") {
        "arithmetic-overflow".into()
    } else if m.contains("Option::unwrap()") {
        "unwrap-on-none".into()
    } else if m.contains("Result::unwrap()") || m.contains("called `Result::") {
        "unwrap-on-err".into()
    } else if m.contains("index out of bounds") {
        "index-out-of-bounds".into()
    } else {
        // generic: cut at the first quote/backtick/colon (input fragments follow those), no digits
        let cut: String = m.chars().take_while(|c| !matches!(c, '`' | '"' | '\'' | ':')).take(60).filter(|c| !c.is_ascii_digit()).collect();
        format!("other({})", cut.trim())
    }
}

fn rel_file(file: &str) -> String {
    let f = file.strip_prefix(&format!("{REPO}/")).unwrap_or(file);
    if let Some(p) = f.find("/registry/src/") {
        // <cargo home>/registry/src/<index>/<crate-version>/...
        let rest = &f[p + "/registry/src/".len()..];
        return rest.split_once('/').map(|x| x.1.to_string()).unwrap_or_else(|| rest.to_string());
    }
    // scratch worktrees used for the deliberate-break experiments
    for marker in ["/forc-pkg/", "/forc-util/"] {
        if let Some(p) = f.find(marker) {
            if f.starts_with('/') {
                return f[p + 1..].to_string();
            }
        }
    }
    f.to_string()
}

fn source_line(file: &str, line: usize) -> String {
    thread_local! { static CACHE: std::cell::RefCell<HashMap<String, Option<Vec<String>>>> = std::cell::RefCell::new(HashMap::new()); }
    CACHE.with(|c| {
        let mut c = c.borrow_mut();
        let lines = c.entry(file.to_string()).or_insert_with(|| std::fs::read_to_string(file).ok().map(|s| s.lines().map(|l| l.split_whitespace().collect::<Vec<_>>().join(" ")).collect()));
        match lines {
            Some(v) if line >= 1 && line <= v.len() => v[line - 1].clone(),
            _ => "<source line unavailable>".to_string(),
        }
    })
}

/// `panic@<file> [<source line>]: <message class>`
pub fn site_signature(loc: &str, msg: &str) -> String {
    let (file, line) = match loc.rsplit_once(':') {
        Some((f, l)) => (f, l.parse::<usize>().unwrap_or(0)),
        None => (loc, 0),
    };
    format!("panic@{} [{}]: {}", rel_file(file), source_line(file, line), message_class(msg))
}

// ------------------------------------------------------------------------------------------
// Fuzz strings

const MULTI_BYTE: &[&str] = &["é", "ß", "ñ", "€", "日", "本", "𝔘", "🦀", "e\u{301}", "\u{200b}", "\u{feff}", "\u{a0}", "\u{2028}"];
const SRC_PREFIXES: &[&str] = &["git+", "path+", "ipfs+", "registry+", "member", "root", "git", "path", "ipfs", "registry", " git+", "path+from-root-", "git+https://", "registry+std?", "GIT+", "regist", "registry", "registr+"];
const SRC_TOKENS: &[&str] = &[
    "git+", "path+", "ipfs+", "registry+", "member", "root", "?", "#", "!", "=", "+", "branch=", "tag=", "rev", "default-branch", "from-root-", " ", "(", ")", "/", ":", "https://github.com/FuelLabs/sway", "std", "1.0.0", "0.1.0-rc.1+b", "v", "??", "##", "!!",
    "\t", "\n", "0x", "-", ".", "@",
];

fn pick<'a>(rng: &mut StdRng, xs: &[&'a str]) -> &'a str {
    xs[rng.gen_range(0..xs.len())]
}

fn rand_char(rng: &mut StdRng) -> String {
    match rng.gen_range(0..10) {
        0..=3 => (*choose(rng, b"abcxyzABZ019") as char).to_string(),
        4..=6 => (*choose(rng, b"?#!+=()[]\"'\\ /:.,-_@%&*~^`{}|<>$;") as char).to_string(),
        7 => (*choose(rng, b"\t\n\r\0\x7f\x1b") as char).to_string(),
        _ => choose(rng, MULTI_BYTE).to_string(),
    }
}

fn rand_string(rng: &mut StdRng, max: usize) -> String {
    let n = rng.gen_range(0..=max);
    (0..n).map(|_| rand_char(rng)).collect()
}

fn valid_source_string(rng: &mut StdRng) -> String {
    let kind = rng.gen_range(0..5);
    let m = c20::gen_source(rng, kind);
    match c20::build_source("std", &m) {
        Ok(p) => p.to_string(),
        Err(_) => "member".to_string(),
    }
}

fn dyn_token(rng: &mut StdRng) -> String {
    match rng.gen_range(0..9) {
        0 => c20::gen_commit(rng),
        1 => c20::gen_cid(rng, false).0,
        2 => c20::gen_cid(rng, true).0,
        3 => format!("{:016X}", rng.gen::<u64>()),
        4 => rand_string(rng, 5),
        5 => choose(rng, MULTI_BYTE).to_string(),
        6 => valid_source_string(rng),
        _ => choose(rng, SRC_TOKENS).to_string(),
    }
}

fn token_soup(rng: &mut StdRng, static_tokens: &[&str], max: usize) -> String {
    let n = rng.gen_range(1..=max);
    let mut s = String::new();
    for _ in 0..n {
        if rng.gen_bool(0.65) {
            s.push_str(pick(rng, static_tokens));
        } else {
            s.push_str(&dyn_token(rng));
        }
    }
    s
}

/// Character-level edits of a string.
fn edit_chars(rng: &mut StdRng, s: &str, delims: &[char]) -> String {
    let mut cs: Vec<String> = s.chars().map(|c| c.to_string()).collect();
    let k = rng.gen_range(1..=3);
    for _ in 0..k {
        let len = cs.len();
        match rng.gen_range(0..9) {
            0 if len > 0 => {
                cs.remove(rng.gen_range(0..len));
            }
            1 => cs.insert(rng.gen_range(0..=len), rand_char(rng)),
            2 if len > 0 => {
                let i = rng.gen_range(0..len);
                cs[i] = rand_char(rng);
            }
            3 => cs.truncate(rng.gen_range(0..=len)),
            4 if len > 0 => {
                // remove every occurrence of one delimiter
                let d = choose(rng, delims).to_string();
                cs.retain(|c| *c != d);
            }
            5 if len > 0 => {
                // duplicate or replace a delimiter
                let d = choose(rng, delims).to_string();
                if let Some(i) = cs.iter().position(|c| *c == d) {
                    if rng.gen_bool(0.5) {
                        cs.insert(i, d);
                    } else {
                        cs[i] = choose(rng, delims).to_string();
                    }
                }
            }
            6 => cs.insert(rng.gen_range(0..=len), choose(rng, MULTI_BYTE).to_string()),
            7 if len > 1 => {
                let i = rng.gen_range(0..len - 1);
                cs.swap(i, i + 1);
            }
            8 if len > 0 => {
                // drop a tail starting at a delimiter
                let d = choose(rng, delims).to_string();
                if let Some(i) = cs.iter().rposition(|c| *c == d) {
                    cs.truncate(i + rng.gen_range(0..=1));
                }
            }
            _ => {}
        }
    }
    cs.concat()
}

pub fn gen_source_string(rng: &mut StdRng) -> String {
    match rng.gen_range(0..10) {
        0 => rand_string(rng, 12),
        1 => {
            let p = choose(rng, SRC_PREFIXES).to_string();
            let tail = if rng.gen_bool(0.5) { rand_string(rng, 10) } else { token_soup(rng, SRC_TOKENS, 5) };
            format!("{p}{tail}")
        }
        2 => token_soup(rng, SRC_TOKENS, 8),
        3 | 4 => {
            let v = valid_source_string(rng);
            edit_chars(rng, &v, &['?', '#', '!', '+', '=', '-'])
        }
        5 => {
            // multi-byte character straddling one of the byte offsets the parsers slice at
            let k = rng.gen_range(0..=12);
            let pad: String = (0..k).map(|_| *choose(rng, b"abgitprh+?#") as char).collect();
            let tail = if rng.gen_bool(0.5) { token_soup(rng, SRC_TOKENS, 4) } else { String::new() };
            format!("{pad}{}{tail}", choose(rng, MULTI_BYTE))
        }
        6 => {
            let v = valid_source_string(rng);
            let cut = rng.gen_range(0..=v.len());
            let mut cut = cut;
            while !v.is_char_boundary(cut) {
                cut -= 1;
            }
            v[..cut].to_string()
        }
        7 => {
            // valid, possibly padded with white space
            let v = valid_source_string(rng);
            match rng.gen_range(0..4) {
                0 => format!(" {v}"),
                1 => format!("{v}\n"),
                2 => format!("\t{v}  "),
                _ => v,
            }
        }
        8 => {
            // well-formed skeletons with empty or garbage fields
            let f = |rng: &mut StdRng| match rng.gen_range(0..4) {
                0 => String::new(),
                1 => rand_string(rng, 4),
                _ => dyn_token(rng),
            };
            match rng.gen_range(0..4) {
                0 => format!("registry+{}?{}#{}!{}", f(rng), f(rng), f(rng), f(rng)),
                1 => format!("git+{}?{}#{}", f(rng), f(rng), f(rng)),
                2 => format!("path+from-root-{}", f(rng)),
                _ => format!("ipfs+{}", f(rng)),
            }
        }
        _ => {
            // two valid strings glued / nested
            let a = valid_source_string(rng);
            let b = valid_source_string(rng);
            format!("{a}{}{b}", choose(rng, &["", " ", "?", "#", "!", "+"]))
        }
    }
}

const DEP_TOKENS: &[&str] = &["(", ")", " ", "  ", "()", "dep_pkg", "other_pkg", "std", "alias", "(alias)", "(alias) ", " (", ") ", "0x", "\t", "\n", "path+from-root-0000000000000001", "member"];

fn salt_token(rng: &mut StdRng) -> String {
    let mut b = [0u8; 32];
    rng.fill(&mut b);
    match rng.gen_range(0..5) {
        0 => "0".repeat(64),
        1 => format!("0x{}", hex::encode(b)),
        2 => hex::encode(&b[..rng.gen_range(0..32)]),
        3 => hex::encode(b).to_uppercase(),
        _ => hex::encode(b),
    }
}

fn valid_dep_line(rng: &mut StdRng) -> String {
    let mut s = String::new();
    if rng.gen_bool(0.4) {
        s.push_str(&format!("({}) ", choose(rng, &["alias", "a", "std2", "x-y"])));
    }
    s.push_str(pick(rng, &["dep_pkg", "dep_pkg", "other_pkg", "twin", "nope"]));
    if rng.gen_bool(0.4) {
        s.push(' ');
        s.push_str(&if rng.gen_bool(0.5) { "path+from-root-0000000000000001".to_string() } else { valid_source_string(rng) });
    }
    if rng.gen_bool(0.4) {
        s.push_str(&format!(" ({})", salt_token(rng)));
    }
    s
}

pub fn gen_dep_line(rng: &mut StdRng) -> String {
    match rng.gen_range(0..8) {
        0 => {
            let n = rng.gen_range(0..=4);
            (0..n).map(|_| choose(rng, &["(", ")", " ", "a", "b", "é", "日", "0", "𝔘"]).to_string()).collect()
        }
        1 | 2 => {
            let n = rng.gen_range(1..=7);
            let mut s = String::new();
            for _ in 0..n {
                match rng.gen_range(0..10) {
                    0..=5 => s.push_str(pick(rng, DEP_TOKENS)),
                    6 => s.push_str(&salt_token(rng)),
                    7 => s.push_str(&gen_source_string(rng)),
                    8 => s.push_str(pick(rng, MULTI_BYTE)),
                    _ => s.push_str(&rand_string(rng, 4)),
                }
            }
            s
        }
        3 | 4 | 5 => {
            let v = valid_dep_line(rng);
            edit_chars(rng, &v, &['(', ')', ' '])
        }
        6 => valid_dep_line(rng),
        _ => rand_string(rng, 10),
    }
}

fn toml_str(s: &str) -> String {
    toml::Value::String(s.to_string()).to_string()
}

fn lock_with_source(src: &str) -> String {
    format!("[[package]]\nname = \"pkg\"\nsource = {}\n", toml_str(src))
}

fn lock_with_dep_line(line: &str, contract: bool, rng: &mut StdRng) -> String {
    let key = if contract { "contract-dependencies" } else { "dependencies" };
    let twin = if rng.gen_bool(0.5) {
        // two packages named `twin`: the disambiguated key path
        "[[package]]\nname = \"twin\"\nsource = \"path+from-root-0000000000000001\"\n\n[[package]]\nname = \"twin\"\nsource = \"path+from-root-0000000000000002\"\n\n"
    } else {
        ""
    };
    format!(
        "[[package]]\nname = \"dep_pkg\"\nsource = \"path+from-root-0000000000000001\"\n\n[[package]]\nname = \"other_pkg\"\nsource = \"member\"\n\n{twin}[[package]]\nname = \"root_pkg\"\nsource = \"member\"\n{key} = [{}]\n",
        toml_str(line)
    )
}

// ------------------------------------------------------------------------------------------
// Lock file mutation

fn load_corpus() -> Vec<Vec<u8>> {
    let mut paths: Vec<PathBuf> = walkdir::WalkDir::new(REPO)
        .into_iter()
        .filter_entry(|e| {
            let n = e.file_name().to_string_lossy();
            !(n == "target" || n == ".git" || n == "node_modules")
        })
        .filter_map(|e| e.ok())
        .filter(|e| e.file_type().is_file() && e.file_name() == "Forc.lock")
        .map(|e| e.into_path())
        .collect();
    paths.sort();
    let mut seen = BTreeSet::new();
    let mut out = vec![];
    for p in paths {
        if let Ok(b) = std::fs::read(&p) {
            if b.len() <= 64 * 1024 && seen.insert(hash64(&b)) {
                out.push(b);
            }
        }
    }
    out
}

fn generated_lock(rng: &mut StdRng) -> Vec<u8> {
    for _ in 0..5 {
        let g = c20::gen_graph(rng);
        if let Ok((graph, _)) = c20::build_graph(&g) {
            if let Ok(t) = c20::lock_text(&graph) {
                return t.into_bytes();
            }
        }
    }
    b"[[package]]\nname = \"a\"\nsource = \"member\"\n".to_vec()
}

/// spans (start, end) of the inside of double-quoted strings, by a simple scanner
fn string_spans(b: &[u8]) -> Vec<(usize, usize)> {
    let mut v = vec![];
    let mut i = 0;
    while i < b.len() {
        if b[i] == b'"' {
            let start = i + 1;
            let mut j = start;
            while j < b.len() && b[j] != b'"' && b[j] != b'\n' {
                if b[j] == b'\\' {
                    j += 1;
                }
                j += 1;
            }
            if j < b.len() && b[j] == b'"' {
                v.push((start, j));
            }
            i = j + 1;
        } else {
            i += 1;
        }
    }
    v
}

fn line_spans(b: &[u8]) -> Vec<(usize, usize)> {
    let mut v = vec![];
    let mut s = 0;
    for (i, &c) in b.iter().enumerate() {
        if c == b'\n' {
            v.push((s, i + 1));
            s = i + 1;
        }
    }
    if s < b.len() {
        v.push((s, b.len()));
    }
    v
}

fn token_spans(b: &[u8]) -> Vec<(usize, usize)> {
    // maximal runs of [A-Za-z0-9_+.-] and single punctuation bytes; white space separates
    let mut v = vec![];
    let mut i = 0;
    let word = |c: u8| c.is_ascii_alphanumeric() || matches!(c, b'_' | b'+' | b'.' | b'-') || c >= 0x80;
    while i < b.len() {
        if b[i].is_ascii_whitespace() {
            i += 1;
        } else if word(b[i]) {
            let s = i;
            while i < b.len() && word(b[i]) {
                i += 1;
            }
            v.push((s, i));
        } else {
            v.push((i, i + 1));
            i += 1;
        }
    }
    v
}

fn splice(b: &mut Vec<u8>, span: (usize, usize), with: &[u8]) {
    b.splice(span.0..span.1, with.iter().copied());
}

fn mutate_lock(rng: &mut StdRng, base: &[u8], other: &[u8]) -> (Vec<u8>, &'static str) {
    let mut b = base.to_vec();
    let k = match rng.gen_range(0..10) {
        0..=5 => 1,
        6..=8 => 2,
        _ => rng.gen_range(3..=6),
    };
    let mut first = "none";
    for step in 0..k {
        let len = b.len();
        let op = rng.gen_range(0..16);
        let name: &'static str = match op {
            0 | 1 | 2 | 3 => {
                // replace the inside of a string literal by a fuzz string (keeps the TOML valid)
                let spans = string_spans(&b);
                if !spans.is_empty() {
                    let sp = *choose(rng, &spans);
                    let line_start = b[..sp.0].iter().rposition(|&c| c == b'\n').map(|p| p + 1).unwrap_or(0);
                    let is_source = b[line_start..sp.0].starts_with(b"source");
                    let is_name = b[line_start..sp.0].starts_with(b"name");
                    let f = if is_source {
                        gen_source_string(rng)
                    } else if is_name {
                        if rng.gen_bool(0.5) { rand_string(rng, 8) } else { "dep_pkg".to_string() }
                    } else if rng.gen_bool(0.8) {
                        gen_dep_line(rng)
                    } else {
                        gen_source_string(rng)
                    };
                    let lit = toml_str(&f);
                    // replace including the quotes (toml_str may choose '...' or """ quoting)
                    splice(&mut b, (sp.0 - 1, sp.1 + 1), lit.as_bytes());
                }
                "string-literal"
            }
            4 => {
                // character edits inside a string literal, unescaped
                let spans = string_spans(&b);
                if !spans.is_empty() {
                    let sp = *choose(rng, &spans);
                    if let Ok(inner) = std::str::from_utf8(&b[sp.0..sp.1]) {
                        let e = edit_chars(rng, inner, &['?', '#', '!', '+', '=', '(', ')', ' ']);
                        splice(&mut b, sp, e.as_bytes());
                    }
                }
                "string-chars"
            }
            5 if len > 0 => {
                let i = rng.gen_range(0..len);
                b[i] = rng.gen();
                "byte-replace"
            }
            6 => {
                let i = rng.gen_range(0..=len);
                b.insert(i, rng.gen());
                "byte-insert"
            }
            7 if len > 0 => {
                let i = rng.gen_range(0..len);
                let n = rng.gen_range(1..=8.min(len - i));
                b.drain(i..i + n);
                "byte-delete"
            }
            8 => {
                let i = rng.gen_range(0..=len);
                let s = rand_char(rng);
                b.splice(i..i, s.bytes());
                "char-insert"
            }
            9 => {
                let ls = line_spans(&b);
                if ls.len() >= 2 {
                    let a = *choose(rng, &ls);
                    match rng.gen_range(0..3) {
                        0 => {
                            b.drain(a.0..a.1);
                        }
                        1 => {
                            let l = b[a.0..a.1].to_vec();
                            b.splice(a.0..a.0, l);
                        }
                        _ => {
                            let c = *choose(rng, &ls);
                            let la = b[a.0..a.1].to_vec();
                            let lc = b[c.0..c.1].to_vec();
                            if a.0 < c.0 {
                                splice(&mut b, c, &la);
                                splice(&mut b, a, &lc);
                            } else if c.0 < a.0 {
                                splice(&mut b, a, &lc);
                                splice(&mut b, c, &la);
                            }
                        }
                    }
                }
                "line"
            }
            10 => {
                let ts = token_spans(&b);
                if ts.len() >= 2 {
                    let a = *choose(rng, &ts);
                    match rng.gen_range(0..4) {
                        0 => {
                            b.drain(a.0..a.1);
                        }
                        1 => {
                            let t = b[a.0..a.1].to_vec();
                            b.splice(a.0..a.0, t);
                        }
                        2 => {
                            let c = *choose(rng, &ts);
                            let t = b[c.0..c.1].to_vec();
                            splice(&mut b, a, &t);
                        }
                        _ => {
                            let t = choose(rng, &["[", "]", "[[", "]]", "\"", "'", "=", ",", "{", "}", "#", "\"\"\"", "package", "source", "dependencies", "contract-dependencies", "version", "name", "true", "1", "1.0.0", "\\"]).as_bytes().to_vec();
                            splice(&mut b, a, &t);
                        }
                    }
                }
                "token"
            }
            11 => {
                // cross-file splice at line boundaries
                let la = line_spans(&b);
                let lo = line_spans(other);
                if !la.is_empty() && !lo.is_empty() {
                    let cut_a = choose(rng, &la).0;
                    let cut_o = choose(rng, &lo).0;
                    b.truncate(cut_a);
                    b.extend_from_slice(&other[cut_o..]);
                }
                "cross-splice"
            }
            12 => {
                b.truncate(rng.gen_range(0..=len));
                "truncate"
            }
            13 if len > 0 => {
                let i = rng.gen_range(0..len);
                let n = rng.gen_range(1..=64.min(len - i));
                let d = b[i..i + n].to_vec();
                b.splice(i..i, d);
                "range-duplicate"
            }
            14 => {
                // add / change a version field or an unknown field
                let ls = line_spans(&b);
                if !ls.is_empty() {
                    let at = choose(rng, &ls).0;
                    let l = match rng.gen_range(0..5) {
                        0 => format!("version = {}\n", toml_str(&rand_string(rng, 8))),
                        1 => "version = \"1.2.3-rc.1+b\"\n".to_string(),
                        2 => format!("source = {}\n", toml_str(&gen_source_string(rng))),
                        3 => format!("dependencies = [{}, {}]\n", toml_str(&gen_dep_line(rng)), toml_str(&gen_dep_line(rng))),
                        _ => format!("contract-dependencies = [{}]\n", toml_str(&gen_dep_line(rng))),
                    };
                    b.splice(at..at, l.bytes());
                }
                "field"
            }
            _ => {
                // deep nesting / long runs (bounded)
                let i = rng.gen_range(0..=len);
                let unit = *choose(rng, &["[", "{", "(", "\"", "a = [", "é"]);
                let n = rng.gen_range(2..=64);
                b.splice(i..i, unit.repeat(n).bytes());
                "run"
            }
        };
        if step == 0 {
            first = name;
        }
    }
    (b, first)
}

// ------------------------------------------------------------------------------------------
// Driver

struct Run {
    scratch: c20::Scratch,
    seen_sigs: BTreeSet<String>,
}

fn classify_err(e: &str) -> &'static str {
    if e.starts_with("failed to read") {
        "result_err_read"
    } else if e.starts_with("failed to parse lock file") {
        "result_err_toml"
    } else if e.starts_with("invalid 'source' entry") {
        "result_err_source"
    } else if e.starts_with("failed to parse dependency") {
        if e.contains("invalid salt") {
            "result_err_dep_line_salt"
        } else {
            "result_err_dep_line_other"
        }
    } else if e.starts_with("found dep") {
        "result_err_dep_without_node"
    } else {
        "result_err_unclassified"
    }
}

fn report_panic(run: &mut Run, res: &mut ShardResult, what: &str, loc: &str, msg: &str, case: Value) {
    res.count("panics_observed");
    let sig = site_signature(loc, msg);
    if run.seen_sigs.insert(sig.clone()) {
        let m: String = msg.chars().take(200).collect();
        res.violation(sig, format!("{what} panicked at {loc}: {m}"), case);
    }
}

/// Read a lock file's bytes through the real loader. Returns true when the TOML layer was passed.
fn drive_lock(run: &mut Run, res: &mut ShardResult, bytes: &[u8], case: Value) -> (bool, &'static str) {
    if let Err(e) = run.scratch.put(bytes) {
        res.inconclusive(e);
        return (false, "harness-io");
    }
    let path = run.scratch.path.clone();
    let p: &Path = &path;
    let out = catch(std::panic::AssertUnwindSafe(|| match Lock::from_path(p) {
        Err(e) => (false, Err(e.to_string())),
        Ok(l) => (true, l.to_graph().map(|g| (g.node_count(), g.edge_count())).map_err(|e| e.to_string())),
    }));
    match out {
        Err((loc, msg)) => {
            report_panic(run, res, "Lock::from_path + to_graph", &loc, &msg, case);
            (true, "panic")
        }
        Ok((past_toml, Ok((n, m)))) => {
            res.count("result_ok_graph");
            res.max("max_ok_nodes", n as u64);
            res.max("max_ok_edges", m as u64);
            (past_toml, "result_ok_graph")
        }
        Ok((past_toml, Err(e))) => {
            let k = classify_err(&e);
            res.count(k);
            if k.starts_with("result_err_dep_line") {
                res.count("result_err_dep_line");
            }
            if k == "result_err_unclassified" {
                res.sample(json!({"unclassified_error": e}));
            }
            (past_toml, k)
        }
    }
}

fn drive_from_str(run: &mut Run, res: &mut ShardResult, s: &str, case: Value) {
    let kind = |p: &source::Pinned| match p {
        source::Pinned::Member(_) => "from_str_ok_member",
        source::Pinned::Path(_) => "from_str_ok_path",
        source::Pinned::Git(_) => "from_str_ok_git",
        source::Pinned::Ipfs(_) => "from_str_ok_ipfs",
        source::Pinned::Registry(_) => "from_str_ok_registry",
    };
    match catch(std::panic::AssertUnwindSafe(|| source::Pinned::from_str(s).map(|p| (kind(&p), p.to_string())))) {
        Err((loc, msg)) => report_panic(run, res, "source::Pinned::from_str", &loc, &msg, case),
        Ok(Ok((k, _printed))) => {
            res.count("from_str_ok");
            res.count(k);
        }
        Ok(Err(_)) => res.count("from_str_err"),
    }
}

fn non_ascii(b: &[u8]) -> bool {
    b.iter().any(|&c| c >= 0x80)
}

fn run_source(run: &mut Run, res: &mut ShardResult, s: &str) {
    res.evaluations += 1;
    res.count("inputs_source_string");
    if non_ascii(s.as_bytes()) {
        res.count("inputs_non_ascii");
    }
    res.note_nontrivial(hash64(s.as_bytes()));
    let case = json!({"kind": "source", "text": s});
    drive_from_str(run, res, s, case.clone());
    let lock = lock_with_source(s);
    let (_, class) = drive_lock(run, res, lock.as_bytes(), case);
    if res.evaluations % 4096 == 1 {
        res.sample(json!({"source_string": s, "result": class}));
    }
}

fn run_dep_line(run: &mut Run, res: &mut ShardResult, line: &str, lock: &str) {
    res.evaluations += 1;
    res.count("inputs_dep_line");
    if non_ascii(line.as_bytes()) {
        res.count("inputs_non_ascii");
    }
    res.note_nontrivial(hash64(lock.as_bytes()));
    let (_, class) = drive_lock(run, res, lock.as_bytes(), json!({"kind": "lock", "hex": hex::encode(lock.as_bytes()), "dep_line": line}));
    if res.evaluations % 4096 == 2 {
        res.sample(json!({"dependency_line": line, "result": class}));
    }
}

fn run_lock(run: &mut Run, res: &mut ShardResult, bytes: &[u8]) {
    res.evaluations += 1;
    if non_ascii(bytes) {
        res.count("inputs_non_ascii");
    }
    let (past_toml, class) = drive_lock(run, res, bytes, json!({"kind": "lock", "hex": hex::encode(bytes)}));
    if past_toml {
        res.note_nontrivial(hash64(bytes));
        if res.evaluations % 4096 == 3 {
            res.sample(json!({"lock_file": String::from_utf8_lossy(bytes).chars().take(600).collect::<String>(), "result": class}));
        }
    }
}

fn shard(ctx: &ShardCtx) -> ShardResult {
    let mut res = ShardResult::default();
    let scratch = match c20::Scratch::new(&ctx.work()) {
        Ok(s) => s,
        Err(e) => {
            res.harness_fault = Some(e);
            return res;
        }
    };
    let mut run = Run { scratch, seen_sigs: BTreeSet::new() };
    let corpus = load_corpus();
    res.max("max_corpus_distinct_lock_files", corpus.len() as u64);
    if corpus.is_empty() {
        res.harness_fault = Some("no Forc.lock files found under /repo".into());
        return res;
    }
    // the pristine corpus files themselves (shard 0): they must load
    if ctx.shard == 0 {
        for b in &corpus {
            res.count("inputs_lock_corpus_pristine");
            run_lock(&mut run, &mut res, b);
        }
    }
    let mut i = 0u64;
    let mut last_partial = std::time::Instant::now();
    while ctx.time_left() {
        let mut rng = ctx.rng(i);
        if i % 64 == 0 {
            journal_current(ctx, &format!("C21 seed={} shard={} index={} (and the following 63)", ctx.seed, ctx.shard, i));
        }
        match rng.gen_range(0..10) {
            0..=2 => {
                let s = gen_source_string(&mut rng);
                run_source(&mut run, &mut res, &s);
            }
            3..=4 => {
                let l = gen_dep_line(&mut rng);
                let contract = rng.gen_bool(0.5);
                let lock = lock_with_dep_line(&l, contract, &mut rng);
                run_dep_line(&mut run, &mut res, &l, &lock);
            }
            5..=6 => {
                let base = generated_lock(&mut rng);
                let other = choose(&mut rng, &corpus).clone();
                let (m, op) = mutate_lock(&mut rng, &base, &other);
                res.count("inputs_lock_generated");
                res.count(&format!("mut_{op}"));
                run_lock(&mut run, &mut res, &m);
            }
            _ => {
                let base = choose(&mut rng, &corpus).clone();
                let other = if rng.gen_bool(0.5) { choose(&mut rng, &corpus).clone() } else { generated_lock(&mut rng) };
                let (m, op) = mutate_lock(&mut rng, &base, &other);
                res.count("inputs_lock_corpus");
                res.count(&format!("mut_{op}"));
                run_lock(&mut run, &mut res, &m);
            }
        }
        i += 1;
        if last_partial.elapsed().as_secs() >= 5 {
            write_partial(ctx, &res);
            last_partial = std::time::Instant::now();
        }
    }
    res
}

fn replay(case: &Value) -> ShardResult {
    let mut res = ShardResult::default();
    let scratch = match c20::Scratch::new(&work_dir("C21").join("replay")) {
        Ok(s) => s,
        Err(e) => {
            res.harness_fault = Some(e);
            return res;
        }
    };
    let mut run = Run { scratch, seen_sigs: BTreeSet::new() };
    match case["kind"].as_str() {
        Some("source") => {
            let s = case["text"].as_str().unwrap_or("").to_string();
            run_source(&mut run, &mut res, &s);
        }
        Some("lock") => match hex::decode(case["hex"].as_str().unwrap_or("")) {
            Ok(b) => run_lock(&mut run, &mut res, &b),
            Err(e) => res.harness_fault = Some(format!("cannot decode replay case: {e}")),
        },
        _ => res.harness_fault = Some("unknown replay case kind".into()),
    }
    res
}
