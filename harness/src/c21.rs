//! C21: not implemented yet.
use crate::common::*;
use crate::{Plan, Prop};

pub static META: PropertyMeta = PropertyMeta {
    id: "C21",
    level: "exploration",
    rule: "not implemented",
    assumptions: &[],
    floor_evaluations: 1,
    floor_nontrivial: 2,
    required_counters: &[],
};

pub static PROP: Prop = Prop {
    meta: &META,
    plan: |_t| Plan { nshards: 1, budget_s: 1.0, mem_gib: 0 },
    shard: |_ctx| {
        let mut r = ShardResult::default();
        r.harness_fault = Some("not implemented".into());
        r
    },
    replay: crate::no_replay,
    extra: crate::no_extra,
    subcommand: crate::no_subcommand,
};
