//! SwGen: typed AST of a Sway fragment, printer, canonical ABI encoder and a big-step
//! reference interpreter (the oracle of C01 and the input source of the differential
//! properties). The semantics implemented here are the documented ones (DESIGN.md 3.1).

use num_bigint::BigUint;
use std::collections::HashMap;
use std::fmt::Write;

#[derive(Clone, Debug, PartialEq, Eq, Hash)]
pub enum Ty {
    U8,
    U16,
    U32,
    U64,
    U256,
    Bool,
    B256,
    Tuple(Vec<Ty>),
    Array(Box<Ty>, usize),
    Struct(usize),
    Enum(usize),
}

impl Ty {
    pub fn is_int(&self) -> bool {
        matches!(self, Ty::U8 | Ty::U16 | Ty::U32 | Ty::U64 | Ty::U256)
    }
    pub fn is_small_int(&self) -> bool {
        matches!(self, Ty::U8 | Ty::U16 | Ty::U32)
    }
    pub fn bits(&self) -> u32 {
        match self {
            Ty::U8 => 8,
            Ty::U16 => 16,
            Ty::U32 => 32,
            Ty::U64 => 64,
            Ty::U256 | Ty::B256 => 256,
            _ => 0,
        }
    }
    pub fn is_scalar(&self) -> bool {
        matches!(self, Ty::U8 | Ty::U16 | Ty::U32 | Ty::U64 | Ty::U256 | Ty::Bool | Ty::B256)
    }
}

#[derive(Clone, Debug, Default)]
pub struct Types {
    /// struct i has fields f0..fn of these types
    pub structs: Vec<Vec<Ty>>,
    /// enum i has variants V0..Vn with optional payload
    pub enums: Vec<Vec<Option<Ty>>>,
}

impl Types {
    pub fn name(&self, t: &Ty) -> String {
        match t {
            Ty::U8 => "u8".into(),
            Ty::U16 => "u16".into(),
            Ty::U32 => "u32".into(),
            Ty::U64 => "u64".into(),
            Ty::U256 => "u256".into(),
            Ty::Bool => "bool".into(),
            Ty::B256 => "b256".into(),
            Ty::Tuple(ts) => {
                if ts.len() == 1 {
                    format!("({},)", self.name(&ts[0]))
                } else {
                    format!("({})", ts.iter().map(|t| self.name(t)).collect::<Vec<_>>().join(", "))
                }
            }
            Ty::Array(t, n) => format!("[{}; {}]", self.name(t), n),
            Ty::Struct(i) => format!("S{i}"),
            Ty::Enum(i) => format!("E{i}"),
        }
    }
    pub fn decls(&self) -> String {
        let mut s = String::new();
        for (i, fs) in self.structs.iter().enumerate() {
            let _ = writeln!(s, "struct S{i} {{");
            for (j, f) in fs.iter().enumerate() {
                let _ = writeln!(s, "    f{j}: {},", self.name(f));
            }
            let _ = writeln!(s, "}}");
        }
        for (i, vs) in self.enums.iter().enumerate() {
            let _ = writeln!(s, "enum E{i} {{");
            for (j, v) in vs.iter().enumerate() {
                match v {
                    None => {
                        let _ = writeln!(s, "    V{j}: (),");
                    }
                    Some(t) => {
                        let _ = writeln!(s, "    V{j}: {},", self.name(t));
                    }
                }
            }
            let _ = writeln!(s, "}}");
        }
        s
    }
}

#[derive(Clone, Debug, PartialEq, Eq)]
pub enum Val {
    Int(BigUint),
    Bool(bool),
    Tuple(Vec<Val>),
    Array(Vec<Val>),
    Struct(Vec<Val>),
    Enum(usize, Option<Box<Val>>),
}

pub fn big(v: u64) -> BigUint {
    BigUint::from(v)
}
pub fn pow2(bits: u32) -> BigUint {
    BigUint::from(1u8) << bits
}
pub fn is_zero(v: &BigUint) -> bool {
    v.bits() == 0
}
pub fn max_of(t: &Ty) -> BigUint {
    pow2(t.bits()) - BigUint::from(1u8)
}

impl Val {
    pub fn int(&self) -> &BigUint {
        match self {
            Val::Int(v) => v,
            _ => panic!("swgen: expected int value, got {self:?}"),
        }
    }
    pub fn boolean(&self) -> bool {
        match self {
            Val::Bool(b) => *b,
            _ => panic!("swgen: expected bool value"),
        }
    }
    pub fn u64(&self) -> u64 {
        let d = self.int().to_u64_digits();
        d.first().copied().unwrap_or(0)
    }
}

/// Canonical Fuel ABI (encoding v1) of a value of type `t`.
pub fn encode(t: &Ty, v: &Val, types: &Types, out: &mut Vec<u8>) {
    match (t, v) {
        (Ty::Bool, Val::Bool(b)) => out.push(*b as u8),
        (Ty::U8 | Ty::U16 | Ty::U32 | Ty::U64 | Ty::U256 | Ty::B256, Val::Int(i)) => {
            let n = (t.bits() / 8) as usize;
            let b = i.to_bytes_be();
            assert!(b.len() <= n, "swgen: value wider than its type");
            out.extend(std::iter::repeat(0u8).take(n - b.len()));
            out.extend(b);
        }
        (Ty::Tuple(ts), Val::Tuple(vs)) => {
            for (t, v) in ts.iter().zip(vs) {
                encode(t, v, types, out);
            }
        }
        (Ty::Array(t, _), Val::Array(vs)) => {
            for v in vs {
                encode(t, v, types, out);
            }
        }
        (Ty::Struct(i), Val::Struct(vs)) => {
            for (t, v) in types.structs[*i].iter().zip(vs) {
                encode(t, v, types, out);
            }
        }
        (Ty::Enum(i), Val::Enum(k, p)) => {
            out.extend((*k as u64).to_be_bytes());
            if let (Some(pt), Some(pv)) = (&types.enums[*i][*k], p) {
                encode(pt, pv, types, out);
            }
        }
        _ => panic!("swgen: encode type/value mismatch {t:?} {v:?}"),
    }
}

pub fn encoded(t: &Ty, v: &Val, types: &Types) -> Vec<u8> {
    let mut o = vec![];
    encode(t, v, types, &mut o);
    o
}

// ------------------------------------------------------------------------------------------
// AST

#[derive(Clone, Copy, Debug, PartialEq, Eq, Hash)]
pub enum BinOp {
    Add,
    Sub,
    Mul,
    Div,
    Mod,
    And,
    Or,
    Xor,
    Shl,
    Shr,
    Eq,
    Ne,
    Lt,
    Le,
    Gt,
    Ge,
    LAnd,
    LOr,
}

impl BinOp {
    pub fn sym(self) -> &'static str {
        match self {
            BinOp::Add => "+",
            BinOp::Sub => "-",
            BinOp::Mul => "*",
            BinOp::Div => "/",
            BinOp::Mod => "%",
            BinOp::And => "&",
            BinOp::Or => "|",
            BinOp::Xor => "^",
            BinOp::Shl => "<<",
            BinOp::Shr => ">>",
            BinOp::Eq => "==",
            BinOp::Ne => "!=",
            BinOp::Lt => "<",
            BinOp::Le => "<=",
            BinOp::Gt => ">",
            BinOp::Ge => ">=",
            BinOp::LAnd => "&&",
            BinOp::LOr => "||",
        }
    }
    pub fn name(self) -> &'static str {
        match self {
            BinOp::Add => "add",
            BinOp::Sub => "sub",
            BinOp::Mul => "mul",
            BinOp::Div => "div",
            BinOp::Mod => "mod",
            BinOp::And => "and",
            BinOp::Or => "or",
            BinOp::Xor => "xor",
            BinOp::Shl => "shl",
            BinOp::Shr => "shr",
            BinOp::Eq => "eq",
            BinOp::Ne => "ne",
            BinOp::Lt => "lt",
            BinOp::Le => "le",
            BinOp::Gt => "gt",
            BinOp::Ge => "ge",
            BinOp::LAnd => "land",
            BinOp::LOr => "lor",
        }
    }
}

#[derive(Clone, Debug)]
pub struct Expr {
    pub ty: Ty,
    pub k: Box<EK>,
}

#[derive(Clone, Debug)]
pub enum EK {
    Lit(Val),
    Var(String),
    Const(usize),
    Bin(BinOp, Expr, Expr),
    Not(Expr),
    If(Expr, Block, Block),
    Tuple(Vec<Expr>),
    TupleGet(Expr, usize),
    Array(Vec<Expr>),
    ArrayRepeat(Expr, usize),
    Index(Expr, Expr),
    Struct(usize, Vec<Expr>),
    Field(Expr, usize),
    EnumNew(usize, usize, Option<Expr>),
    Match(Expr, Vec<(Pat, Block)>),
    Call(usize, Vec<Expr>),
    /// widening cast: x.as_u64() etc; also u256<->b256
    Cast(Expr),
    /// match e.try_as_uN() { Some(v) => v, None => default }
    TryCast(Expr, Expr),
    BlockE(Block),
    /// g_pick::<T>(c, a, b)
    Pick(Expr, Expr, Expr),
    /// GP { a: x, b: y }.swap().first()  == y   (generic struct + methods)
    GpSwapFirst(Expr, Expr),
    /// x.tw() via trait Tw (doubles ints with overflow check, negates bool)
    Tw(Expr),
}

#[derive(Clone, Debug, Default)]
pub struct Block {
    pub stmts: Vec<Stmt>,
    pub tail: Option<Expr>,
}

#[derive(Clone, Debug)]
pub enum Pat {
    Wild,
    Int(BigUint),
    Bool(bool),
    Const(usize),
    Bind(String),
    Or(Vec<Pat>),
    Tuple(Vec<Pat>),
    /// None = field omitted (pattern ends with ..)
    Struct(usize, Vec<Option<Pat>>),
    Enum(usize, usize, Option<Box<Pat>>),
}

#[derive(Clone, Debug)]
pub enum Access {
    Field(usize),
    TupleIdx(usize),
    Index(Expr),
}

#[derive(Clone, Debug)]
pub struct LValue {
    pub var: String,
    pub path: Vec<Access>,
}

#[derive(Clone, Debug)]
pub enum Stmt {
    Let { name: String, mutable: bool, ty: Ty, e: Expr },
    Assign(LValue, Expr),
    OpAssign(BinOp, LValue, Ty, Expr),
    /// `style`: 0 = `while i < limit { i += 1; .. }`, 1 = `while true { if i == limit { break; } i += 1; .. }`
    /// (same iterations; different control-flow shape in the IR)
    While { counter: String, limit: u64, body: Vec<Stmt>, style: u8 },
    If(Expr, Vec<Stmt>, Vec<Stmt>),
    Break,
    Continue,
    Return(Expr),
    Log(Expr),
    Require(Expr, u64),
    Assert(Expr),
    RevertIf(Expr, u64),
    Expr(Expr),
}

#[derive(Clone, Debug)]
pub struct Func {
    pub name: String,
    /// (name, type, ref mut)
    pub params: Vec<(String, Ty, bool)>,
    pub ret: Ty,
    pub body: Block,
    pub inline_never: bool,
}

#[derive(Clone, Debug)]
pub struct Program {
    pub types: Types,
    pub consts: Vec<(Ty, Val)>,
    pub funcs: Vec<Func>,
    /// parameters of main after `sel`
    pub main_params: Vec<Ty>,
    pub ret: Ty,
    /// indices of entry functions (all take main's params, return `ret`)
    pub entries: Vec<usize>,
    pub uses_generics: bool,
}

// ------------------------------------------------------------------------------------------
// Printer

pub fn lit(t: &Ty, v: &Val, types: &Types) -> String {
    match (t, v) {
        (Ty::Bool, Val::Bool(b)) => b.to_string(),
        (Ty::U8, Val::Int(i)) => format!("{i}u8"),
        (Ty::U16, Val::Int(i)) => format!("{i}u16"),
        (Ty::U32, Val::Int(i)) => format!("{i}u32"),
        (Ty::U64, Val::Int(i)) => format!("{i}u64"),
        (Ty::U256, Val::Int(i)) => format!("0x{}u256", i.to_str_radix(16)),
        (Ty::B256, Val::Int(i)) => format!("0x{:0>64}", i.to_str_radix(16)),
        (Ty::Tuple(ts), Val::Tuple(vs)) => {
            let inner: Vec<String> = ts.iter().zip(vs).map(|(t, v)| lit(t, v, types)).collect();
            if inner.len() == 1 {
                format!("({},)", inner[0])
            } else {
                format!("({})", inner.join(", "))
            }
        }
        (Ty::Array(t, _), Val::Array(vs)) => format!("[{}]", vs.iter().map(|v| lit(t, v, types)).collect::<Vec<_>>().join(", ")),
        (Ty::Struct(i), Val::Struct(vs)) => {
            let fs: Vec<String> = types.structs[*i].iter().zip(vs).enumerate().map(|(j, (t, v))| format!("f{j}: {}", lit(t, v, types))).collect();
            format!("S{i} {{ {} }}", fs.join(", "))
        }
        (Ty::Enum(i), Val::Enum(k, p)) => match (&types.enums[*i][*k], p) {
            (Some(pt), Some(pv)) => format!("E{i}::V{k}({})", lit(pt, pv, types)),
            _ => format!("E{i}::V{k}"),
        },
        _ => panic!("swgen: lit mismatch {t:?} {v:?}"),
    }
}

pub struct Printer<'a> {
    pub p: &'a Program,
    pub out: String,
    ind: usize,
    /// names of the `ref mut` parameters of the function being printed
    refmut: Vec<String>,
}

impl<'a> Printer<'a> {
    pub fn new(p: &'a Program) -> Self {
        Printer { p, out: String::new(), ind: 0, refmut: vec![] }
    }
    fn line(&mut self, s: &str) {
        for _ in 0..self.ind {
            self.out.push_str("    ");
        }
        self.out.push_str(s);
        self.out.push('\n');
    }
    fn tn(&self, t: &Ty) -> String {
        self.p.types.name(t)
    }

    pub fn expr(&mut self, e: &Expr) -> String {
        let types = &self.p.types;
        match &*e.k {
            EK::Lit(v) => lit(&e.ty, v, types),
            EK::Var(n) => n.clone(),
            EK::Const(i) => format!("C{i}"),
            EK::Bin(op, a, b) => format!("({} {} {})", self.expr(a), op.sym(), self.expr(b)),
            EK::Not(a) => format!("(!{})", self.expr(a)),
            EK::If(c, t, f) => {
                let c = self.expr(c);
                let t = self.block_inline(t);
                let f = self.block_inline(f);
                format!("(if {c} {t} else {f})")
            }
            EK::Tuple(es) => {
                let inner: Vec<String> = es.iter().map(|e| self.expr(e)).collect();
                if inner.len() == 1 {
                    format!("({},)", inner[0])
                } else {
                    format!("({})", inner.join(", "))
                }
            }
            EK::TupleGet(a, i) => format!("{}.{}", self.expr_postfix(a), i),
            EK::Array(es) => format!("[{}]", es.iter().map(|e| self.expr(e)).collect::<Vec<_>>().join(", ")),
            EK::ArrayRepeat(a, n) => format!("[{}; {}]", self.expr(a), n),
            EK::Index(a, i) => format!("{}[{}]", self.expr_postfix(a), self.expr(i)),
            EK::Struct(i, es) => {
                let fs: Vec<String> = es.iter().enumerate().map(|(j, e)| format!("f{j}: {}", self.expr(e))).collect();
                format!("S{i} {{ {} }}", fs.join(", "))
            }
            EK::Field(a, j) => format!("{}.f{}", self.expr_postfix(a), j),
            EK::EnumNew(i, k, p) => match p {
                Some(p) => format!("E{i}::V{k}({})", self.expr(p)),
                None => format!("E{i}::V{k}"),
            },
            EK::Match(s, arms) => {
                let ss = self.expr(s);
                let ss = if ss.starts_with('(') { ss } else { format!("({ss})") };
                let mut o = format!("(match {ss} {{ ");
                for (p, b) in arms {
                    let ps = self.pat(p);
                    let bs = self.block_inline(b);
                    let _ = write!(o, "{ps} => {bs}, ");
                }
                o.push_str("})");
                o
            }
            EK::Call(f, args) => {
                let name = self.p.funcs[*f].name.clone();
                format!("{}({})", name, args.iter().map(|a| self.expr(a)).collect::<Vec<_>>().join(", "))
            }
            EK::Cast(a) => {
                let m = match (&a.ty, &e.ty) {
                    (Ty::U256, Ty::B256) => "as_b256".to_string(),
                    (Ty::B256, Ty::U256) => "as_u256".to_string(),
                    (_, t) => format!("as_{}", self.tn(t)),
                };
                format!("{}.{}()", self.expr_postfix(a), m)
            }
            EK::TryCast(a, d) => {
                let m = format!("try_as_{}", self.tn(&e.ty));
                format!("(match {}.{}() {{ Some(tc_v) => tc_v, None => {}, }})", self.expr_postfix(a), m, self.expr(d))
            }
            EK::BlockE(b) => self.block_inline(b),
            EK::Pick(c, a, b) => format!("g_pick({}, {}, {})", self.expr(c), self.expr(a), self.expr(b)),
            EK::GpSwapFirst(a, b) => format!("(GP {{ a: {}, b: {} }}.swap().first())", self.expr(a), self.expr(b)),
            EK::Tw(a) => format!("{}.tw()", self.expr_postfix(a)),
        }
    }

    /// expression in a position followed by `.x` / `[i]`: wrap anything not obviously atomic
    fn expr_postfix(&mut self, e: &Expr) -> String {
        let s = self.expr(e);
        match &*e.k {
            EK::Var(_) | EK::Const(_) | EK::TupleGet(..) | EK::Field(..) | EK::Index(..) | EK::Call(..) | EK::Cast(..) | EK::Tw(..) | EK::Pick(..) => s,
            _ => {
                if s.starts_with('(') && s.ends_with(')') {
                    s
                } else {
                    format!("({s})")
                }
            }
        }
    }

    fn pat(&mut self, p: &Pat) -> String {
        match p {
            Pat::Wild => "_".into(),
            Pat::Int(i) => i.to_string(),
            Pat::Bool(b) => b.to_string(),
            Pat::Const(i) => format!("C{i}"),
            Pat::Bind(n) => n.clone(),
            Pat::Or(ps) => ps.iter().map(|p| self.pat(p)).collect::<Vec<_>>().join(" | "),
            Pat::Tuple(ps) => {
                let inner: Vec<String> = ps.iter().map(|p| self.pat(p)).collect();
                if inner.len() == 1 {
                    format!("({},)", inner[0])
                } else {
                    format!("({})", inner.join(", "))
                }
            }
            Pat::Struct(i, fs) => {
                let mut parts = vec![];
                let mut omitted = false;
                for (j, f) in fs.iter().enumerate() {
                    match f {
                        Some(p) => parts.push(format!("f{j}: {}", self.pat(p))),
                        None => omitted = true,
                    }
                }
                if omitted {
                    parts.push("..".into());
                }
                format!("S{i} {{ {} }}", parts.join(", "))
            }
            Pat::Enum(i, k, p) => match p {
                Some(p) => format!("E{i}::V{k}({})", self.pat(p)),
                None => format!("E{i}::V{k}"),
            },
        }
    }

    fn block_inline(&mut self, b: &Block) -> String {
        // render the block with the printer's statement machinery into a sub-buffer
        let saved = std::mem::take(&mut self.out);
        let saved_ind = self.ind;
        self.ind += 1;
        for s in &b.stmts {
            self.stmt(s);
        }
        if let Some(t) = &b.tail {
            self.tail(&b.stmts, t);
        }
        self.ind = saved_ind;
        let inner = std::mem::replace(&mut self.out, saved);
        let mut close = String::new();
        for _ in 0..self.ind {
            close.push_str("    ");
        }
        format!("{{\n{inner}{close}}}")
    }

    /// A tail expression that starts with `[` or `(` right after a statement ending in `}` would be
    /// parsed as an index / call on that statement, so it goes through a let binding then.
    pub fn tail(&mut self, stmts: &[Stmt], t: &Expr) {
        let ts = self.expr(t);
        let after_block = matches!(stmts.last(), Some(Stmt::If(..) | Stmt::While { .. } | Stmt::RevertIf(..)));
        // (a bare `ref mut` parameter as the value of an `if` branch / match arm used to yield its
        // address - finding C01 `ref-mut-parameter-as-branch-value-yields-address`, repaired;
        // the shape is generated as it is again)
        let bare_refmut = false && matches!(&*t.k, EK::Var(n) if self.refmut.contains(n));
        if bare_refmut || (after_block && (ts.starts_with('[') || ts.starts_with('('))) {
            let tn = self.tn(&t.ty);
            self.line(&format!("let tail_v: {tn} = {ts};"));
            self.line("tail_v");
        } else {
            self.line(&ts);
        }
    }

    fn lvalue(&mut self, l: &LValue) -> String {
        let mut s = l.var.clone();
        for a in &l.path {
            match a {
                Access::Field(j) => {
                    let _ = write!(s, ".f{j}");
                }
                Access::TupleIdx(j) => {
                    let _ = write!(s, ".{j}");
                }
                Access::Index(e) => {
                    let i = self.expr(e);
                    let _ = write!(s, "[{i}]");
                }
            }
        }
        s
    }

    pub fn stmt(&mut self, s: &Stmt) {
        match s {
            Stmt::Let { name, mutable, ty, e } => {
                let es = self.expr(e);
                let m = if *mutable { "mut " } else { "" };
                let t = self.tn(ty);
                self.line(&format!("let {m}{name}: {t} = {es};"));
            }
            Stmt::Assign(l, e) => {
                let es = self.expr(e);
                let ls = self.lvalue(l);
                self.line(&format!("{ls} = {es};"));
            }
            Stmt::OpAssign(op, l, _, e) => {
                let es = self.expr(e);
                let ls = self.lvalue(l);
                self.line(&format!("{ls} {}= {es};", op.sym()));
            }
            Stmt::While { counter, limit, body, style } => {
                self.line(&format!("let mut {counter}: u64 = 0u64;"));
                if *style == 1 {
                    self.line("while true {");
                    self.ind += 1;
                    self.line(&format!("if {counter} == {limit}u64 {{"));
                    self.line("    break;");
                    self.line("}");
                } else {
                    self.line(&format!("while {counter} < {limit}u64 {{"));
                    self.ind += 1;
                }
                self.line(&format!("{counter} += 1u64;"));
                for s in body {
                    self.stmt(s);
                }
                self.ind -= 1;
                self.line("}");
            }
            Stmt::If(c, t, f) => {
                let cs = self.expr(c);
                self.line(&format!("if {cs} {{"));
                self.ind += 1;
                for s in t {
                    self.stmt(s);
                }
                self.ind -= 1;
                if f.is_empty() {
                    self.line("}");
                } else {
                    self.line("} else {");
                    self.ind += 1;
                    for s in f {
                        self.stmt(s);
                    }
                    self.ind -= 1;
                    self.line("}");
                }
            }
            Stmt::Break => self.line("break;"),
            Stmt::Continue => self.line("continue;"),
            Stmt::Return(e) => {
                let es = self.expr(e);
                self.line(&format!("return {es};"));
            }
            Stmt::Log(e) => {
                let es = self.expr(e);
                self.line(&format!("log({es});"));
            }
            Stmt::Require(c, code) => {
                let cs = self.expr(c);
                self.line(&format!("require({cs}, {code}u64);"));
            }
            Stmt::Assert(c) => {
                let cs = self.expr(c);
                self.line(&format!("assert({cs});"));
            }
            Stmt::RevertIf(c, code) => {
                let cs = self.expr(c);
                self.line(&format!("if {cs} {{ revert({code}u64); }}"));
            }
            Stmt::Expr(e) => {
                let es = self.expr(e);
                self.line(&format!("let _ = {es};"));
            }
        }
    }
}

pub const GENERIC_PRELUDE: &str = r#"
fn g_pick<T>(c: bool, a: T, b: T) -> T {
    if c { a } else { b }
}
struct GP<T> {
    a: T,
    b: T,
}
impl<T> GP<T> {
    fn swap(self) -> GP<T> {
        GP { a: self.b, b: self.a }
    }
    fn first(self) -> T {
        self.a
    }
}
trait Tw {
    fn tw(self) -> Self;
}
impl Tw for u8 { fn tw(self) -> u8 { self + self } }
impl Tw for u16 { fn tw(self) -> u16 { self + self } }
impl Tw for u32 { fn tw(self) -> u32 { self + self } }
impl Tw for u64 { fn tw(self) -> u64 { self + self } }
impl Tw for u256 { fn tw(self) -> u256 { self + self } }
impl Tw for bool { fn tw(self) -> bool { !self } }
"#;

pub fn print_program(p: &Program) -> String {
    let mut pr = Printer::new(p);
    pr.out.push_str("script;\n\n");
    pr.out.push_str(&p.types.decls());
    for (i, (t, v)) in p.consts.iter().enumerate() {
        let l = lit(t, v, &p.types);
        let tn = p.types.name(t);
        pr.out.push_str(&format!("const C{i}: {tn} = {l};\n"));
    }
    if p.uses_generics {
        pr.out.push_str(GENERIC_PRELUDE);
    }
    pr.out.push('\n');
    for f in &p.funcs {
        if f.inline_never {
            pr.out.push_str("#[inline(never)]\n");
        }
        let params: Vec<String> = f.params.iter().map(|(n, t, r)| format!("{}{n}: {}", if *r { "ref mut " } else { "" }, p.types.name(t))).collect();
        pr.out.push_str(&format!("fn {}({}) -> {} {{\n", f.name, params.join(", "), p.types.name(&f.ret)));
        pr.ind = 1;
        pr.refmut = f.params.iter().filter(|(_, _, r)| *r).map(|(n, _, _)| n.clone()).collect();
        for s in &f.body.stmts {
            pr.stmt(s);
        }
        if let Some(t) = &f.body.tail {
            pr.tail(&f.body.stmts, t);
        }
        pr.refmut.clear();
        pr.ind = 0;
        pr.out.push_str("}\n\n");
    }
    // main
    let mut params = vec!["sel: u64".to_string()];
    for (i, t) in p.main_params.iter().enumerate() {
        params.push(format!("a{i}: {}", p.types.name(t)));
    }
    pr.out.push_str(&format!("fn main({}) -> {} {{\n", params.join(", "), p.types.name(&p.ret)));
    let args: Vec<String> = (0..p.main_params.len()).map(|i| format!("a{i}")).collect();
    if p.entries.len() == 1 {
        pr.out.push_str(&format!("    {}({})\n", p.funcs[p.entries[0]].name, args.join(", ")));
    } else {
        pr.out.push_str("    match sel {\n");
        for (k, e) in p.entries.iter().enumerate() {
            let name = &p.funcs[*e].name;
            if k + 1 == p.entries.len() {
                pr.out.push_str(&format!("        _ => {}({}),\n", name, args.join(", ")));
            } else {
                pr.out.push_str(&format!("        {k} => {}({}),\n", name, args.join(", ")));
            }
        }
        pr.out.push_str("    }\n");
    }
    pr.out.push_str("}\n");
    pr.out
}

/// Script data for a call of main(sel, args...)
pub fn script_data(p: &Program, sel: u64, args: &[Val]) -> Vec<u8> {
    let mut out = sel.to_be_bytes().to_vec();
    for (t, v) in p.main_params.iter().zip(args) {
        encode(t, v, &p.types, &mut out);
    }
    out
}

// ------------------------------------------------------------------------------------------
// Interpreter

#[derive(Clone, Debug, PartialEq, Eq)]
pub enum RevertKind {
    Overflow,
    DivZero,
    IndexOutOfBounds,
    Require,
    Assert,
    Explicit,
}

#[derive(Clone, Debug)]
pub struct RefOutcome {
    /// Ok(encoded return) or Err(revert kind)
    pub result: Result<Vec<u8>, RevertKind>,
    /// encoded logs in order (those emitted before a revert included)
    pub logs: Vec<Vec<u8>>,
    pub steps: u64,
    /// the run evaluated `place[index]` where evaluating `index` modified the variable the
    /// place is rooted in: whether the old or the new contents are read is not specified
    pub order_dependent: bool,
}

enum Flow {
    Normal,
    Break,
    Continue,
    Return(Val),
}

pub struct Interp<'a> {
    p: &'a Program,
    logs: Vec<Vec<u8>>,
    steps: u64,
    pub op_hits: HashMap<String, u64>,
    subst: Option<Subst>,
    pub arith_errors: u32,
    pub order_dependent: bool,
}

/// the variable a place expression (variable, field / tuple element / array element of a place)
/// is rooted in
fn place_root(e: &Expr) -> Option<&str> {
    match &*e.k {
        EK::Var(n) => Some(n.as_str()),
        EK::Field(a, _) | EK::TupleGet(a, _) | EK::Index(a, _) => place_root(a),
        _ => None,
    }
}

#[derive(Clone, Copy, Debug, PartialEq, Eq)]
pub enum Subst {
    Zero,
    One,
    Max,
    Wrapped,
}

type Env = Vec<HashMap<String, Val>>;

fn lookup<'e>(env: &'e Env, n: &str) -> &'e Val {
    for s in env.iter().rev() {
        if let Some(v) = s.get(n) {
            return v;
        }
    }
    panic!("swgen: unbound variable {n}");
}
fn lookup_mut<'e>(env: &'e mut Env, n: &str) -> &'e mut Val {
    for s in env.iter_mut().rev() {
        if let Some(v) = s.get_mut(n) {
            return v;
        }
    }
    panic!("swgen: unbound variable {n}");
}

impl<'a> Interp<'a> {
    pub fn run(p: &'a Program, sel: u64, args: &[Val]) -> (RefOutcome, HashMap<String, u64>) {
        Self::run_with(p, sel, args, None)
    }

    /// `subst`: instead of reverting at the FIRST invalid arithmetic operation, continue with a
    /// substitute result (used to decide whether that operation's result is observable at all:
    /// invalid arithmetic is documented undefined behaviour that the optimiser may remove when
    /// its result is dead). A second invalid operation reverts as usual.
    pub fn run_with(p: &'a Program, sel: u64, args: &[Val], subst: Option<Subst>) -> (RefOutcome, HashMap<String, u64>) {
        let mut it = Interp { p, logs: vec![], steps: 0, op_hits: HashMap::new(), subst, arith_errors: 0, order_dependent: false };
        let k = (sel as usize).min(p.entries.len() - 1);
        let f = p.entries[k];
        let r = it.call(f, args.to_vec()).map(|(v, _)| encoded(&p.ret, &v, &p.types));
        let hits = std::mem::take(&mut it.op_hits);
        (RefOutcome { result: r, logs: it.logs, steps: it.steps, order_dependent: it.order_dependent }, hits)
    }

    /// An invalid arithmetic operation: revert, or (first one, substitute mode) continue.
    fn arith_fail(&mut self, kind: RevertKind, ty: &Ty, wrapped: BigUint) -> Result<BigUint, RevertKind> {
        self.arith_errors += 1;
        match (self.subst, self.arith_errors) {
            (Some(s), 1) => Ok(match s {
                Subst::Zero => big(0),
                Subst::One => big(1),
                Subst::Max => max_of(ty),
                Subst::Wrapped => wrapped,
            }),
            _ => Err(kind),
        }
    }

    fn hit(&mut self, k: String) {
        *self.op_hits.entry(k).or_insert(0) += 1;
    }

    /// returns (return value, final values of params) so that ref mut params can be copied back
    fn call(&mut self, f: usize, args: Vec<Val>) -> Result<(Val, Vec<Val>), RevertKind> {
        let func = &self.p.funcs[f];
        let mut env: Env = vec![HashMap::new()];
        for ((n, _, _), v) in func.params.iter().zip(args) {
            env[0].insert(n.clone(), v);
        }
        let (flow, tail) = self.block(&func.body, &mut env)?;
        let ret = match flow {
            Flow::Return(v) => v,
            _ => tail.expect("swgen: function body without value"),
        };
        let finals = func.params.iter().map(|(n, _, _)| env[0].get(n).cloned().unwrap()).collect();
        Ok((ret, finals))
    }

    fn block(&mut self, b: &Block, env: &mut Env) -> Result<(Flow, Option<Val>), RevertKind> {
        env.push(HashMap::new());
        let r = self.block_inner(b, env);
        env.pop();
        r
    }

    fn block_inner(&mut self, b: &Block, env: &mut Env) -> Result<(Flow, Option<Val>), RevertKind> {
        for s in &b.stmts {
            match self.stmt(s, env)? {
                Flow::Normal => {}
                other => return Ok((other, None)),
            }
        }
        match &b.tail {
            Some(e) => match self.eval(e, env)? {
                Ok(v) => Ok((Flow::Normal, Some(v))),
                Err(fl) => Ok((fl, None)),
            },
            None => Ok((Flow::Normal, None)),
        }
    }

    fn stmts(&mut self, ss: &[Stmt], env: &mut Env) -> Result<Flow, RevertKind> {
        env.push(HashMap::new());
        let mut out = Flow::Normal;
        for s in ss {
            match self.stmt(s, env) {
                Ok(Flow::Normal) => {}
                Ok(o) => {
                    out = o;
                    break;
                }
                Err(e) => {
                    env.pop();
                    return Err(e);
                }
            }
        }
        env.pop();
        Ok(out)
    }

    fn lval<'e>(&mut self, l: &LValue, env: &'e mut Env) -> Result<Result<&'e mut Val, Flow>, RevertKind> {
        // evaluate index expressions first (left to right)
        let mut idx = vec![];
        for a in &l.path {
            if let Access::Index(e) = a {
                match self.eval(e, env)? {
                    Ok(v) => idx.push(v.u64() as usize),
                    Err(fl) => return Ok(Err(fl)),
                }
            }
        }
        let mut cur = lookup_mut(env, &l.var);
        let mut k = 0;
        for a in &l.path {
            cur = match (a, cur) {
                (Access::Field(j), Val::Struct(vs)) => &mut vs[*j],
                (Access::TupleIdx(j), Val::Tuple(vs)) => &mut vs[*j],
                (Access::Index(_), Val::Array(vs)) => {
                    let i = idx[k];
                    k += 1;
                    if i >= vs.len() {
                        return Err(RevertKind::IndexOutOfBounds);
                    }
                    &mut vs[i]
                }
                _ => panic!("swgen: bad lvalue path"),
            };
        }
        Ok(Ok(cur))
    }

    fn stmt(&mut self, s: &Stmt, env: &mut Env) -> Result<Flow, RevertKind> {
        self.steps += 1;
        macro_rules! ev {
            ($e:expr) => {
                match self.eval($e, env)? {
                    Ok(v) => v,
                    Err(fl) => return Ok(fl),
                }
            };
        }
        match s {
            Stmt::Let { name, e, .. } => {
                let v = ev!(e);
                env.last_mut().unwrap().insert(name.clone(), v);
                Ok(Flow::Normal)
            }
            Stmt::Assign(l, e) => {
                let v = ev!(e);
                match self.lval(l, env)? {
                    Ok(slot) => *slot = v,
                    Err(fl) => return Ok(fl),
                }
                Ok(Flow::Normal)
            }
            Stmt::OpAssign(op, l, ty, e) => {
                // a op= b  is  a = a op b : read a, evaluate b, apply
                // (if evaluating b modifies a, the result depends on the unspecified order)
                let target_before = lookup(env, &l.var).clone();
                let rhs = ev!(e);
                if *lookup(env, &l.var) != target_before {
                    self.order_dependent = true;
                }
                let cur = match self.lval(l, env)? {
                    Ok(slot) => slot.clone(),
                    Err(fl) => return Ok(fl),
                };
                let nv = self.binop(*op, ty, &cur, &rhs)?;
                match self.lval(l, env)? {
                    Ok(slot) => *slot = nv,
                    Err(fl) => return Ok(fl),
                }
                Ok(Flow::Normal)
            }
            Stmt::While { counter, limit, body, .. } => {
                env.last_mut().unwrap().insert(counter.clone(), Val::Int(big(0)));
                loop {
                    let c = lookup(env, counter).u64();
                    if c >= *limit {
                        break;
                    }
                    *lookup_mut(env, counter) = Val::Int(big(c + 1));
                    match self.stmts(body, env)? {
                        Flow::Normal | Flow::Continue => {}
                        Flow::Break => break,
                        Flow::Return(v) => return Ok(Flow::Return(v)),
                    }
                }
                Ok(Flow::Normal)
            }
            Stmt::If(c, t, f) => {
                let cv = ev!(c);
                if cv.boolean() {
                    self.stmts(t, env)
                } else {
                    self.stmts(f, env)
                }
            }
            Stmt::Break => Ok(Flow::Break),
            Stmt::Continue => Ok(Flow::Continue),
            Stmt::Return(e) => {
                let v = ev!(e);
                Ok(Flow::Return(v))
            }
            Stmt::Log(e) => {
                let v = ev!(e);
                self.logs.push(encoded(&e.ty, &v, &self.p.types));
                Ok(Flow::Normal)
            }
            Stmt::Require(c, _) => {
                let v = ev!(c);
                if !v.boolean() {
                    return Err(RevertKind::Require);
                }
                Ok(Flow::Normal)
            }
            Stmt::Assert(c) => {
                let v = ev!(c);
                if !v.boolean() {
                    return Err(RevertKind::Assert);
                }
                Ok(Flow::Normal)
            }
            Stmt::RevertIf(c, _) => {
                let v = ev!(c);
                if v.boolean() {
                    return Err(RevertKind::Explicit);
                }
                Ok(Flow::Normal)
            }
            Stmt::Expr(e) => {
                let _ = ev!(e);
                Ok(Flow::Normal)
            }
        }
    }

    pub fn binop(&mut self, op: BinOp, ty: &Ty, a: &Val, b: &Val) -> Result<Val, RevertKind> {
        // ty = operand type (for shifts: type of the left operand)
        self.hit(format!("{}.{}", op.name(), self.p.types.name(ty).replace(' ', "")));
        match op {
            BinOp::LAnd | BinOp::LOr => unreachable!(),
            BinOp::Eq => return Ok(Val::Bool(a == b)),
            BinOp::Ne => return Ok(Val::Bool(a != b)),
            _ => {}
        }
        if *ty == Ty::Bool {
            let (x, y) = (a.boolean(), b.boolean());
            return Ok(Val::Bool(match op {
                BinOp::And => x & y,
                BinOp::Or => x | y,
                BinOp::Xor => x ^ y,
                _ => panic!("swgen: bad bool op"),
            }));
        }
        let (x, y) = (a.int(), b.int());
        let m = pow2(ty.bits());
        let r = match op {
            BinOp::Lt => return Ok(Val::Bool(x < y)),
            BinOp::Le => return Ok(Val::Bool(x <= y)),
            BinOp::Gt => return Ok(Val::Bool(x > y)),
            BinOp::Ge => return Ok(Val::Bool(x >= y)),
            BinOp::Add => {
                let r = x + y;
                if r >= m {
                    self.arith_fail(RevertKind::Overflow, ty, &r % &m)?
                } else {
                    r
                }
            }
            BinOp::Sub => {
                if x < y {
                    self.arith_fail(RevertKind::Overflow, ty, (&m + x) - y)?
                } else {
                    x - y
                }
            }
            BinOp::Mul => {
                let r = x * y;
                if r >= m {
                    self.arith_fail(RevertKind::Overflow, ty, &r % &m)?
                } else {
                    r
                }
            }
            BinOp::Div => {
                if is_zero(y) {
                    self.arith_fail(RevertKind::DivZero, ty, big(0))?
                } else {
                    x / y
                }
            }
            BinOp::Mod => {
                if is_zero(y) {
                    self.arith_fail(RevertKind::DivZero, ty, x.clone())?
                } else {
                    x % y
                }
            }
            BinOp::And => x & y,
            BinOp::Or => x | y,
            BinOp::Xor => x ^ y,
            BinOp::Shl => {
                let n = b.int();
                if *n >= big(ty.bits() as u64) {
                    big(0)
                } else {
                    (x << n.to_u64_digits().first().copied().unwrap_or(0) as usize) % &m
                }
            }
            BinOp::Shr => {
                let n = b.int();
                if *n >= big(ty.bits() as u64) {
                    big(0)
                } else {
                    x >> n.to_u64_digits().first().copied().unwrap_or(0) as usize
                }
            }
            _ => unreachable!(),
        };
        Ok(Val::Int(r))
    }

    fn matches(&self, p: &Pat, v: &Val, binds: &mut Vec<(String, Val)>) -> bool {
        match (p, v) {
            (Pat::Wild, _) => true,
            (Pat::Bind(n), v) => {
                binds.push((n.clone(), v.clone()));
                true
            }
            (Pat::Int(i), Val::Int(x)) => i == x,
            (Pat::Bool(b), Val::Bool(x)) => b == x,
            (Pat::Const(c), v) => &self.p.consts[*c].1 == v,
            (Pat::Or(ps), v) => ps.iter().any(|p| self.matches(p, v, binds)),
            (Pat::Tuple(ps), Val::Tuple(vs)) => ps.iter().zip(vs).all(|(p, v)| self.matches(p, v, binds)),
            (Pat::Struct(_, fs), Val::Struct(vs)) => fs.iter().zip(vs).all(|(p, v)| match p {
                Some(p) => self.matches(p, v, binds),
                None => true,
            }),
            (Pat::Enum(_, k, pp), Val::Enum(vk, vp)) => {
                if k != vk {
                    return false;
                }
                match (pp, vp) {
                    (Some(p), Some(v)) => self.matches(p, v, binds),
                    _ => true,
                }
            }
            _ => panic!("swgen: pattern/value mismatch {p:?} {v:?}"),
        }
    }

    /// Ok(Ok(v)) value, Ok(Err(flow)) control flow (return/break/continue) from inside the expression
    fn eval(&mut self, e: &Expr, env: &mut Env) -> Result<Result<Val, Flow>, RevertKind> {
        self.steps += 1;
        macro_rules! ev {
            ($e:expr) => {
                match self.eval($e, env)? {
                    Ok(v) => v,
                    Err(fl) => return Ok(Err(fl)),
                }
            };
        }
        let v = match &*e.k {
            EK::Lit(v) => v.clone(),
            EK::Var(n) => lookup(env, n).clone(),
            EK::Const(i) => self.p.consts[*i].1.clone(),
            EK::Bin(BinOp::LAnd, a, b) => {
                let x = ev!(a);
                if !x.boolean() {
                    Val::Bool(false)
                } else {
                    ev!(b)
                }
            }
            EK::Bin(BinOp::LOr, a, b) => {
                let x = ev!(a);
                if x.boolean() {
                    Val::Bool(true)
                } else {
                    ev!(b)
                }
            }
            EK::Bin(op, a, b) => {
                let x = ev!(a);
                let y = ev!(b);
                self.binop(*op, &a.ty, &x, &y)?
            }
            EK::Not(a) => {
                let x = ev!(a);
                self.hit(format!("not.{}", self.p.types.name(&a.ty)));
                match x {
                    Val::Bool(b) => Val::Bool(!b),
                    Val::Int(i) => Val::Int(max_of(&a.ty) - i),
                    _ => panic!("swgen: bad not"),
                }
            }
            EK::If(c, t, f) => {
                let cv = ev!(c);
                let (flow, val) = if cv.boolean() { self.block(t, env)? } else { self.block(f, env)? };
                match flow {
                    Flow::Normal => val.expect("swgen: if branch without value"),
                    other => return Ok(Err(other)),
                }
            }
            EK::Tuple(es) => {
                let mut vs = vec![];
                for x in es {
                    vs.push(ev!(x));
                }
                Val::Tuple(vs)
            }
            EK::TupleGet(a, i) => match ev!(a) {
                Val::Tuple(vs) => vs[*i].clone(),
                _ => panic!("swgen: tuple get on non tuple"),
            },
            EK::Array(es) => {
                let mut vs = vec![];
                for x in es {
                    vs.push(ev!(x));
                }
                Val::Array(vs)
            }
            EK::ArrayRepeat(a, n) => {
                let x = ev!(a);
                Val::Array(vec![x; *n])
            }
            EK::Index(a, i) => {
                let arr = ev!(a);
                let root_before = place_root(a).map(|n| lookup(env, n).clone());
                let idx = ev!(i);
                if let (Some(n), Some(before)) = (place_root(a), root_before) {
                    if *lookup(env, n) != before {
                        self.order_dependent = true;
                    }
                }
                match arr {
                    Val::Array(vs) => {
                        let k = idx.int();
                        if *k >= big(vs.len() as u64) {
                            return Err(RevertKind::IndexOutOfBounds);
                        }
                        vs[idx.u64() as usize].clone()
                    }
                    _ => panic!("swgen: index on non array"),
                }
            }
            EK::Struct(_, es) => {
                let mut vs = vec![];
                for x in es {
                    vs.push(ev!(x));
                }
                Val::Struct(vs)
            }
            EK::Field(a, j) => match ev!(a) {
                Val::Struct(vs) => vs[*j].clone(),
                _ => panic!("swgen: field on non struct"),
            },
            EK::EnumNew(_, k, p) => match p {
                Some(p) => {
                    let x = ev!(p);
                    Val::Enum(*k, Some(Box::new(x)))
                }
                None => Val::Enum(*k, None),
            },
            EK::Match(s, arms) => {
                let sv = ev!(s);
                let mut result = None;
                for (ai, (p, b)) in arms.iter().enumerate() {
                    let mut binds = vec![];
                    if self.matches(p, &sv, &mut binds) {
                        self.hit(format!("match.arm{}", ai.min(5)));
                        env.push(binds.into_iter().collect());
                        let r = self.block(b, env);
                        env.pop();
                        let (flow, val) = r?;
                        match flow {
                            Flow::Normal => result = Some(val.expect("swgen: arm without value")),
                            other => return Ok(Err(other)),
                        }
                        break;
                    }
                }
                result.expect("swgen: generated match is not exhaustive")
            }
            EK::Call(f, args) => {
                let mut vs = vec![];
                for a in args {
                    vs.push(ev!(a));
                }
                self.hit("call".into());
                let (ret, finals) = self.call(*f, vs)?;
                // copy back ref mut params
                let func = &self.p.funcs[*f];
                for (i, (_, _, is_ref)) in func.params.iter().enumerate() {
                    if *is_ref {
                        if let EK::Var(n) = &*args[i].k {
                            *lookup_mut(env, n) = finals[i].clone();
                        } else {
                            panic!("swgen: ref mut argument is not a variable");
                        }
                    }
                }
                ret
            }
            EK::Cast(a) => {
                let x = ev!(a);
                self.hit(format!("cast.{}.{}", self.p.types.name(&a.ty), self.p.types.name(&e.ty)));
                x
            }
            EK::TryCast(a, d) => {
                let x = ev!(a);
                self.hit(format!("trycast.{}.{}", self.p.types.name(&a.ty), self.p.types.name(&e.ty)));
                if *x.int() <= max_of(&e.ty) {
                    x
                } else {
                    ev!(d)
                }
            }
            EK::BlockE(b) => {
                let (flow, val) = self.block(b, env)?;
                match flow {
                    Flow::Normal => val.expect("swgen: block expr without value"),
                    other => return Ok(Err(other)),
                }
            }
            EK::Pick(c, a, b) => {
                // function call: all arguments evaluated, left to right
                let cv = ev!(c);
                let x = ev!(a);
                let y = ev!(b);
                self.hit("generic.pick".into());
                if cv.boolean() {
                    x
                } else {
                    y
                }
            }
            EK::GpSwapFirst(a, b) => {
                let _x = ev!(a);
                let y = ev!(b);
                self.hit("generic.gp".into());
                y
            }
            EK::Tw(a) => {
                let x = ev!(a);
                self.hit("generic.trait".into());
                match &a.ty {
                    Ty::Bool => Val::Bool(!x.boolean()),
                    t => self.binop(BinOp::Add, t, &x, &x)?,
                }
            }
        };
        Ok(Ok(v))
    }
}

/// Does any statement/expr in the program potentially depend on inputs? (cheap structural hash
/// used for distinctness)
pub fn program_hash(src: &str) -> u64 {
    crate::common::hash64(src.as_bytes())
}
