// Part 2 (included from c09_abi.rs): generator of type trees and boundary-biased values,
// printer to Sway declarations and value expressions.

#[derive(Clone, Copy, Debug, PartialEq, Eq)]
pub enum Bias {
    /// C09: all constructors
    Uniform,
    /// C10: u8/bool/str[N] next to words, unit-only enums, zero-sized variants, arrays of small scalars
    Padding,
    /// C10: word-only material, so that trivially encodable / decodable aggregates occur
    Words,
    /// C10: aggregates of individually trivial scalars of mixed sizes (u8 next to words, a few
    /// u16/u32): the layout comparison is all that keeps them off the fast path
    NearTrivial,
}

pub struct Gen<'a> {
    pub rng: &'a mut StdRng,
    pub bias: Bias,
    pub next_name: usize,
    pub allow_trivial_wrappers: bool,
}

fn pick_weighted<T: Copy>(rng: &mut StdRng, xs: &[(T, u32)]) -> T {
    let total: u32 = xs.iter().map(|x| x.1).sum();
    let mut r = rng.gen_range(0..total);
    for (x, w) in xs {
        if r < *w {
            return *x;
        }
        r -= w;
    }
    xs[0].0
}

const STRN_SIZES: [usize; 10] = [1, 2, 3, 5, 7, 8, 9, 12, 16, 17];

impl<'a> Gen<'a> {
    fn name(&mut self, p: &str) -> String {
        let n = self.next_name;
        self.next_name += 1;
        format!("{p}{n}")
    }

    fn leaf(&mut self) -> Ty {
        let k = match self.bias {
            Bias::Uniform => pick_weighted(self.rng, &[(0, 10), (1, 10), (2, 8), (3, 8), (4, 10), (5, 6), (6, 6), (7, 8), (8, 7), (9, 6), (10, 6)]),
            Bias::Padding => pick_weighted(self.rng, &[(0, 22), (1, 24), (2, 5), (3, 5), (4, 18), (5, 3), (6, 4), (7, 12), (8, 2), (9, 2), (10, 2)]),
            Bias::Words => pick_weighted(self.rng, &[(1, 6), (4, 40), (5, 15), (6, 15), (11, 14), (0, 3)]),
            Bias::NearTrivial => pick_weighted(self.rng, &[(1, 34), (4, 34), (5, 8), (6, 8), (2, 8), (3, 8)]),
        };
        match k {
            0 => Ty::Bool,
            1 => Ty::U8,
            2 => Ty::U16,
            3 => Ty::U32,
            4 => Ty::U64,
            5 => Ty::U256,
            6 => Ty::B256,
            7 => Ty::StrN(*choose(self.rng, &STRN_SIZES)),
            8 => Ty::Str,
            9 => Ty::Bytes,
            10 => Ty::String,
            _ => Ty::Array(Box::new(Ty::U8), *choose(self.rng, &[8usize, 16, 3, 24])),
        }
    }

    /// zero-sized payloads for enum variants / rare struct fields
    fn zero_sized(&mut self) -> Ty {
        match self.rng.gen_range(0..10) {
            0..=5 => Ty::Unit,
            6..=7 => Ty::Struct { name: self.name("Z"), fields: vec![], generic: None },
            8 => Ty::Array(Box::new(Ty::U64), 0),
            _ => Ty::Tuple(vec![Ty::Unit]),
        }
    }

    /// a type of depth <= d (d >= 1)
    pub fn ty(&mut self, d: usize) -> Ty {
        if d <= 1 || chance(self.rng, 0.12) {
            return self.leaf();
        }
        let k = match self.bias {
            Bias::Uniform => pick_weighted(self.rng, &[(0, 14), (1, 14), (2, 18), (3, 18), (4, 9), (5, 8), (6, 10), (7, 0)]),
            Bias::Padding => pick_weighted(self.rng, &[(0, 20), (1, 14), (2, 26), (3, 24), (4, 6), (5, 3), (6, 5), (7, if self.allow_trivial_wrappers { 8 } else { 0 })]),
            Bias::Words => pick_weighted(self.rng, &[(0, 25), (1, 20), (2, 35), (3, 14), (4, 2), (6, 4)]),
            Bias::NearTrivial => pick_weighted(self.rng, &[(0, 25), (1, 30), (2, 30), (3, 5), (4, 3), (6, 7)]),
        };
        match k {
            0 => {
                let n = if self.bias == Bias::Uniform && chance(self.rng, 0.04) { 0 } else { *choose(self.rng, &[1usize, 2, 2, 3, 3, 4, 5]) };
                let t = self.ty(d - 1);
                if t.zero_sized() {
                    return Ty::Array(Box::new(Ty::U8), n.max(1));
                }
                Ty::Array(Box::new(t), n)
            }
            1 => {
                let n = if chance(self.rng, 0.1) { self.rng.gen_range(4..=7) } else if self.bias == Bias::NearTrivial { 2 } else { self.rng.gen_range(1..=3) };
                Ty::Tuple((0..n).map(|_| self.field(d - 1)).collect())
            }
            2 => {
                let n = if chance(self.rng, 0.03) { 0 } else { self.rng.gen_range(1..=4) };
                let fields: Vec<Ty> = (0..n).map(|_| self.field(d - 1)).collect();
                let generic = if n > 0 && chance(self.rng, 0.15) { Some(self.rng.gen_range(0..n)) } else { None };
                Ty::Struct { name: self.name(if generic.is_some() { "G" } else { "S" }), fields, generic }
            }
            3 => {
                let n = self.rng.gen_range(1..=5);
                let unit_only = chance(self.rng, if self.bias == Bias::Padding { 0.3 } else { 0.15 });
                let variants: Vec<Ty> = (0..n)
                    .map(|_| {
                        if unit_only {
                            if chance(self.rng, 0.8) { Ty::Unit } else { self.zero_sized() }
                        } else if chance(self.rng, 0.3) {
                            self.zero_sized()
                        } else {
                            self.ty(d - 1)
                        }
                    })
                    .collect();
                let cand: Vec<usize> = (0..n).filter(|i| !variants[*i].zero_sized()).collect();
                let generic = if !cand.is_empty() && chance(self.rng, 0.12) { Some(*choose(self.rng, &cand)) } else { None };
                Ty::Enum { name: self.name(if generic.is_some() { "H" } else { "E" }), variants, generic }
            }
            4 => Ty::Option(Box::new(self.payload(d - 1))),
            5 => Ty::Result(Box::new(self.payload(d - 1)), Box::new(self.payload(d - 1))),
            6 => {
                let t = self.ty(d - 1);
                if t.zero_sized() {
                    return Ty::Vec(Box::new(Ty::U8));
                }
                Ty::Vec(Box::new(t))
            }
            _ => {
                if chance(self.rng, 0.35) {
                    Ty::TrivialBool
                } else {
                    // an enum directly below the wrapper
                    let mut e = self.ty(d.max(2) - 1);
                    let mut tries = 0;
                    while !matches!(e, Ty::Enum { generic: None, .. }) && tries < 20 {
                        e = self.ty(d.max(2) - 1);
                        tries += 1;
                    }
                    if matches!(e, Ty::Enum { generic: None, .. }) { Ty::TrivialEnum(Box::new(e)) } else { Ty::TrivialBool }
                }
            }
        }
    }

    fn field(&mut self, d: usize) -> Ty {
        if chance(self.rng, 0.03) {
            return self.zero_sized();
        }
        self.ty(d)
    }

    fn payload(&mut self, d: usize) -> Ty {
        if chance(self.rng, 0.06) {
            return self.zero_sized();
        }
        self.ty(d)
    }

    /// a top-level type: never zero-sized, bounded weight
    pub fn top(&mut self, max_depth: usize) -> Ty {
        for _ in 0..50 {
            let d = *choose(self.rng, &[1usize, 2, 2, 3, 3, 3, 4, 4]);
            let t = self.ty(d.min(max_depth));
            if !t.zero_sized() && t.weight() <= 48 && t.depth() <= max_depth {
                return t;
            }
        }
        Ty::U64
    }

    pub fn uint(&mut self, bits: u32) -> u64 {
        let max = if bits == 64 { u64::MAX } else { (1u64 << bits) - 1 };
        let pattern = 0x0102030405060708u64 >> (64 - bits);
        match self.rng.gen_range(0..10) {
            0 => 0,
            1 => 1,
            2 => max,
            3 => max - 1,
            4 => 1u64 << (bits - 1),
            5 => pattern,
            6 => 0xff & max,
            7 => 0x100 & max,
            _ => self.rng.gen::<u64>() & max,
        }
    }

    fn text(&mut self, n: usize) -> String {
        const ALPHA: &[u8] = b"ABCDEFGHIJKLMNOPQRSTUVWXYZabcdefghijklmnopqrstuvwxyz0123456789 _.-";
        (0..n).map(|_| *choose(self.rng, ALPHA) as char).collect()
    }

    pub fn val(&mut self, ty: &Ty) -> Val {
        match ty {
            Ty::Unit => Val::Unit,
            Ty::Bool | Ty::TrivialBool => Val::Bool(self.rng.gen()),
            Ty::U8 => Val::Uint(self.uint(8)),
            Ty::U16 => Val::Uint(self.uint(16)),
            Ty::U32 => Val::Uint(self.uint(32)),
            Ty::U64 => Val::Uint(self.uint(64)),
            Ty::U256 | Ty::B256 => {
                let mut b = [0u8; 32];
                match self.rng.gen_range(0..8) {
                    0 => {}
                    1 => b = [0xff; 32],
                    2 => b[31] = 1,
                    3 => b[0] = 0x80,
                    4 => (0..32).for_each(|i| b[i] = i as u8 + 1),
                    5 => b[24..].copy_from_slice(&self.uint(64).to_be_bytes()),
                    _ => self.rng.fill(&mut b),
                }
                Val::Big(b)
            }
            Ty::StrN(n) => Val::Text(self.text(*n)),
            Ty::Str | Ty::String => {
                let n = *choose(self.rng, &[0usize, 1, 3, 7, 8, 9, 12, 5]);
                Val::Text(self.text(n))
            }
            Ty::Bytes | Ty::RawSlice => {
                let n = *choose(self.rng, &[0usize, 1, 2, 7, 8, 9, 13]);
                Val::Blob((0..n).map(|_| *choose(self.rng, &[0u8, 1, 0xff, 0x80, 0x7f, 42, 200])).collect())
            }
            Ty::Array(t, n) => Val::Seq((0..*n).map(|_| self.val(t)).collect()),
            Ty::Vec(t) => {
                let n = *choose(self.rng, &[0usize, 1, 2, 3, 3]);
                Val::Seq((0..n).map(|_| self.val(t)).collect())
            }
            Ty::Tuple(ts) if ts.is_empty() => Val::Unit,
            Ty::Tuple(ts) | Ty::Struct { fields: ts, .. } => Val::Seq(ts.iter().map(|t| self.val(t)).collect()),
            Ty::Enum { .. } | Ty::Option(_) | Ty::Result(..) => {
                let vs = enum_view(ty).unwrap();
                let k = self.rng.gen_range(0..vs.len());
                Val::Variant(k, Box::new(self.val(&vs[k])))
            }
            Ty::TrivialEnum(e) => self.val(e),
        }
    }

    /// values covering every variant of the top-level enum first
    pub fn vals(&mut self, ty: &Ty, n: usize) -> Vec<Val> {
        let mut out: Vec<Val> = vec![];
        let top = match ty {
            Ty::TrivialEnum(e) => e,
            t => t,
        };
        if let Some(vs) = enum_view(top) {
            for k in 0..vs.len().min(n) {
                out.push(Val::Variant(k, Box::new(self.val(&vs[k]))));
            }
        }
        let mut tries = 0;
        while out.len() < n && tries < 4 * n {
            let v = self.val(ty);
            if !out.contains(&v) {
                out.push(v);
            }
            tries += 1;
        }
        if out.is_empty() {
            out.push(self.val(ty));
        }
        out
    }
}

// ------------------------------------------------------------------------------------------
// Sway printer

/// collect the struct / enum declarations of a type tree (inner first), deduplicated by name
pub fn collect_decls<'t>(ty: &'t Ty, out: &mut Vec<&'t Ty>) {
    for c in ty.children() {
        collect_decls(c, out);
    }
    if let Ty::Struct { name, .. } | Ty::Enum { name, .. } = ty {
        if !out.iter().any(|d| matches!(d, Ty::Struct { name: n, .. } | Ty::Enum { name: n, .. } if n == name)) {
            out.push(ty);
        }
    }
}

pub fn print_decl(ty: &Ty) -> String {
    let mut s = String::new();
    match ty {
        Ty::Struct { name, fields, generic } => {
            let g = if generic.is_some() { "<T>" } else { "" };
            s.push_str(&format!("struct {name}{g} {{\n"));
            for (i, f) in fields.iter().enumerate() {
                let t = if *generic == Some(i) { "T".to_string() } else { f.sway() };
                s.push_str(&format!("    f{i}: {t},\n"));
            }
            s.push_str("}\n");
            let eq_ok = fields.iter().all(|f| f.has_eq());
            if eq_ok {
                let body = if fields.is_empty() { "true".to_string() } else { (0..fields.len()).map(|i| format!("self.f{i} == other.f{i}")).collect::<Vec<_>>().join(" && ") };
                if generic.is_some() {
                    s.push_str(&format!("impl<T> PartialEq for {name}<T> where T: PartialEq {{\n    fn eq(self, other: Self) -> bool {{ {body} }}\n}}\nimpl<T> Eq for {name}<T> where T: Eq {{}}\n"));
                } else {
                    s.push_str(&format!("impl PartialEq for {name} {{\n    fn eq(self, other: Self) -> bool {{ {body} }}\n}}\nimpl Eq for {name} {{}}\n"));
                }
            }
        }
        Ty::Enum { name, variants, generic } => {
            let g = if generic.is_some() { "<T>" } else { "" };
            s.push_str(&format!("enum {name}{g} {{\n"));
            for (i, v) in variants.iter().enumerate() {
                let t = if *generic == Some(i) { "T".to_string() } else { v.sway() };
                s.push_str(&format!("    V{i}: {t},\n"));
            }
            s.push_str("}\n");
            if variants.iter().all(|v| v.has_eq()) {
                let mut arms = String::new();
                for (i, v) in variants.iter().enumerate() {
                    if is_unit(v) {
                        arms.push_str(&format!("            ({name}::V{i}, {name}::V{i}) => true,\n"));
                    } else {
                        arms.push_str(&format!("            ({name}::V{i}(a), {name}::V{i}(b)) => a == b,\n"));
                    }
                }
                if variants.len() > 1 {
                    arms.push_str("            _ => false,\n");
                }
                let (ig, wh, wh2) = if generic.is_some() { ("<T>", " where T: PartialEq", " where T: Eq") } else { ("", "", "") };
                s.push_str(&format!("impl{ig} PartialEq for {name}{g}{wh} {{\n    fn eq(self, other: Self) -> bool {{\n        match (self, other) {{\n{arms}        }}\n    }}\n}}\nimpl{ig} Eq for {name}{g}{wh2} {{}}\n"));
            }
        }
        _ => {}
    }
    s
}

/// declared with a `()` payload: the variant is written without arguments
pub fn is_unit(t: &Ty) -> bool {
    matches!(t, Ty::Unit) || matches!(t, Ty::Tuple(ts) if ts.is_empty())
}

pub struct ValPrinter {
    pub stmts: Vec<String>,
    tmp: usize,
}

impl ValPrinter {
    pub fn new() -> Self {
        ValPrinter { stmts: vec![], tmp: 0 }
    }

    pub fn expr(&mut self, ty: &Ty, v: &Val) -> String {
        match (ty, v) {
            (Ty::Unit, _) => "()".into(),
            (Ty::Tuple(ts), Val::Unit) if ts.is_empty() => "()".into(),
            (Ty::Bool, Val::Bool(b)) => format!("{b}"),
            (Ty::U8, Val::Uint(x)) => format!("{x}u8"),
            (Ty::U16, Val::Uint(x)) => format!("{x}u16"),
            (Ty::U32, Val::Uint(x)) => format!("{x}u32"),
            (Ty::U64, Val::Uint(x)) => format!("{x}u64"),
            (Ty::U256, Val::Big(b)) => format!("0x{}u256", hex::encode(b)),
            (Ty::B256, Val::Big(b)) => format!("0x{}", hex::encode(b)),
            (Ty::StrN(_), Val::Text(s)) => format!("__to_str_array(\"{s}\")"),
            (Ty::Str, Val::Text(s)) => format!("\"{s}\""),
            (Ty::String, Val::Text(s)) => format!("String::from_ascii_str(\"{s}\")"),
            (Ty::Bytes, Val::Blob(b)) => {
                let t = self.fresh();
                self.stmts.push(format!("let mut {t}: Bytes = Bytes::new();"));
                for x in b {
                    self.stmts.push(format!("{t}.push({x}u8);"));
                }
                t
            }
            (Ty::Vec(e), Val::Seq(xs)) => {
                let items: Vec<String> = xs.iter().map(|x| self.expr(e, x)).collect();
                let t = self.fresh();
                self.stmts.push(format!("let mut {t}: {} = Vec::new();", ty.sway()));
                for it in items {
                    self.stmts.push(format!("{t}.push({it});"));
                }
                t
            }
            (Ty::Array(e, _), Val::Seq(xs)) => {
                let items: Vec<String> = xs.iter().map(|x| self.expr(e, x)).collect();
                // bind with the type so that `[]` and literals inside are typed
                let t = self.fresh();
                self.stmts.push(format!("let {t}: {} = [{}];", ty.sway(), items.join(", ")));
                t
            }
            (Ty::Tuple(ts), Val::Seq(xs)) => {
                let items: Vec<String> = ts.iter().zip(xs).map(|(t, x)| self.expr(t, x)).collect();
                format!("({},)", items.join(", "))
            }
            (Ty::Struct { name, fields, .. }, Val::Seq(xs)) => {
                let items: Vec<String> = fields.iter().zip(xs).enumerate().map(|(i, (t, x))| format!("f{i}: {}", self.expr(t, x))).collect();
                let t = self.fresh();
                self.stmts.push(format!("let {t}: {} = {name} {{ {} }};", ty.sway(), items.join(", ")));
                t
            }
            (Ty::Enum { name, variants, .. }, Val::Variant(k, x)) => {
                let e = if is_unit(&variants[*k]) { format!("{name}::V{k}") } else { format!("{name}::V{k}({})", self.expr(&variants[*k], x)) };
                let t = self.fresh();
                self.stmts.push(format!("let {t}: {} = {e};", ty.sway()));
                t
            }
            (Ty::Option(i), Val::Variant(k, x)) => {
                let e = if *k == 0 { "None".to_string() } else { format!("Some({})", self.expr(i, x)) };
                let t = self.fresh();
                self.stmts.push(format!("let {t}: {} = {e};", ty.sway()));
                t
            }
            (Ty::Result(a, b), Val::Variant(k, x)) => {
                let e = if *k == 0 { format!("Ok({})", self.expr(a, x)) } else { format!("Err({})", self.expr(b, x)) };
                let t = self.fresh();
                self.stmts.push(format!("let {t}: {} = {e};", ty.sway()));
                t
            }
            (Ty::TrivialBool, Val::Bool(b)) => format!("TrivialBool::from({b})"),
            (Ty::TrivialEnum(e), x) => {
                let inner = self.expr(e, x);
                let t = self.fresh();
                self.stmts.push(format!("let {t}: {} = TrivialEnum::from({inner});", ty.sway()));
                t
            }
            _ => format!("/* value {v:?} does not fit {} */", ty.sway()),
        }
    }

    fn fresh(&mut self) -> String {
        self.tmp += 1;
        format!("t{}", self.tmp)
    }
}

/// `fn <name>() -> T { ... }` returning the value
pub fn print_val_fn(name: &str, ty: &Ty, v: &Val) -> String {
    let mut p = ValPrinter::new();
    let e = p.expr(ty, v);
    let mut s = format!("fn {name}() -> {} {{\n", ty.sway());
    for st in &p.stmts {
        s.push_str(&format!("    {st}\n"));
    }
    s.push_str(&format!("    let r: {} = {e};\n    r\n}}\n", ty.sway()));
    s
}
