//! Driver for hook H1 (sway_core::verif::set_ir_pipeline_hook): the harness decides which IR
//! passes run inside the REAL compile pipeline, verifies after every pass (with SSA dominance),
//! round-trips the IR text at every stage and optionally substitutes the re-parsed IR.

use std::cell::RefCell;
use std::rc::Rc;
use sway_ir::{Context, IrError, PassGroup, PassManager};

pub const MANDATORY_FUEL: [&str; 8] = ["const-demotion", "arg-demotion", "ret-demotion", "misc-demotion", "arg_pointee_mutability_tagger", "memcpyopt", "dce", "simplify-cfg"];

/// every registered transformation pass
pub const TRANSFORMS: [&str; 19] = [
    "lower-init-aggr",
    "inline",
    "mem2reg",
    "ccp",
    "cse",
    "const-folding",
    "simplify-cfg",
    "dce",
    "globals-dce",
    "sroa",
    "memcpyopt",
    "memcpyprop_reverse",
    "fn-dedup-debug",
    "fn-dedup-release",
    "const-demotion",
    "arg-demotion",
    "ret-demotion",
    "misc-demotion",
    "arg_pointee_mutability_tagger",
];

#[derive(Clone, Default)]
pub struct HookCfg {
    /// insert these passes at this position of the default pass list (position counted in the
    /// flattened default list; 1 = right after lower-init-aggr)
    pub insert: Option<(usize, Vec<String>)>,
    /// replace the whole list
    pub replace: Option<Vec<String>>,
    /// verify with SSA dominance checking after every pass
    pub dominance: bool,
    /// print -> parse -> print -> parse -> print at every stage
    pub roundtrip_each: bool,
    /// continue to the backend with parse(print(ir)) instead of ir
    pub substitute_final: bool,
    /// number of rounds (None = what the compiler passes in `options.rounds`)
    pub rounds: Option<usize>,
}

#[derive(Clone, Debug)]
pub struct RtEvent {
    pub stage: String,
    /// "parse-failure" | "renumbered" | "text-differs" | "second-roundtrip-differs" | "ok"
    pub kind: String,
    pub detail: String,
}

#[derive(Clone, Default, Debug)]
pub struct HookLog {
    pub default_list: Vec<String>,
    pub list_run: Vec<String>,
    /// (pass, modified)
    pub ran: Vec<(String, bool)>,
    /// the pass that was running when the hook was left (for panic attribution)
    pub current: Option<String>,
    /// (after pass, error text) from PassManager::run / Context::verify
    pub ir_error: Option<(String, String)>,
    pub rt: Vec<RtEvent>,
    pub stages: u64,
    pub invoked: bool,
    /// kinds of instructions / constructs seen in printed IR (first token after `= ` or line start)
    pub instr_kinds: std::collections::BTreeSet<String>,
    pub final_ir: Option<String>,
    pub keep_final_ir: bool,
}

struct Guard;
impl Drop for Guard {
    fn drop(&mut self) {
        sway_core::verif::set_ir_pipeline_hook(None);
    }
}

/// Run `f` (something that compiles exactly ONE package through sway-core) with the hook installed.
pub fn with_hook<T>(cfg: HookCfg, keep_final_ir: bool, f: impl FnOnce() -> T) -> (T, HookLog) {
    let log = Rc::new(RefCell::new(HookLog { keep_final_ir, ..Default::default() }));
    let log2 = log.clone();
    let hook: sway_core::verif::IrPipelineHook = Box::new(move |ir, pm, default_group, options| run_pipeline(&cfg, &log2, ir, pm, default_group, options));
    sway_core::verif::set_ir_pipeline_hook(Some(hook));
    let _g = Guard;
    let out = f();
    drop(_g);
    let l = log.borrow().clone();
    (out, l)
}

fn static_name(pm: &PassManager, name: &str) -> Option<&'static str> {
    pm.lookup_registered_pass(name).map(|p| p.name)
}

fn run_pipeline(cfg: &HookCfg, log: &Rc<RefCell<HookLog>>, ir: &mut Context, pm: &mut PassManager, default_group: &PassGroup, options: &sway_ir::pass_manager::Options) -> Result<(), IrError> {
    // dependencies (library modules such as std) compiled on the way are not the subject: they
    // go through the unchanged pipeline
    if ir.module_iter().next().map(|m| matches!(m.get_kind(ir), sway_ir::Kind::Library)).unwrap_or(true) {
        return pm.run(ir, default_group, options).map(|_| ());
    }
    let default: Vec<&'static str> = default_group.verif_flatten();
    {
        let mut l = log.borrow_mut();
        l.invoked = true;
        l.default_list = default.iter().map(|s| s.to_string()).collect();
    }
    let mut list: Vec<&'static str> = default.clone();
    if let Some(r) = &cfg.replace {
        list = r.iter().filter_map(|n| static_name(pm, n)).collect();
    }
    if let Some((pos, extra)) = &cfg.insert {
        let pos = (*pos).min(list.len());
        let extra: Vec<&'static str> = extra.iter().filter_map(|n| static_name(pm, n)).collect();
        let tail = list.split_off(pos);
        list.extend(extra);
        list.extend(tail);
    }
    log.borrow_mut().list_run = list.iter().map(|s| s.to_string()).collect();
    ir.verify_ssa_dominance = cfg.dominance;
    let one = sway_ir::pass_manager::Options { rounds: 1, ..Default::default() };
    if cfg.roundtrip_each {
        roundtrip(ir, "initial", log);
    }
    let rounds = cfg.rounds.unwrap_or(options.rounds);
    for _round in 0..rounds {
        let mut iter_modified = false;
        for p in &list {
            log.borrow_mut().current = Some(p.to_string());
            if let Ok(d) = std::env::var("SWVERIF_IR_DUMP") {
                // debugging aid: the IR text before every pass
                let n = log.borrow().stages;
                let _ = std::fs::create_dir_all(&d);
                let _ = std::fs::write(std::path::Path::new(&d).join(format!("{n:03}_before_{p}.ir")), sway_ir::printer::to_string(ir));
            }
            let mut g = PassGroup::default();
            g.append_pass(p);
            match pm.run(ir, &g, &one) {
                Ok(m) => {
                    iter_modified |= m;
                    let mut l = log.borrow_mut();
                    l.ran.push((p.to_string(), m));
                    l.stages += 1;
                }
                Err(e) => {
                    if let Ok(d) = std::env::var("SWVERIF_IR_DUMP") {
                        let n = log.borrow().stages;
                        let _ = std::fs::write(std::path::Path::new(&d).join(format!("{n:03}_failed_after_{p}.ir")), sway_ir::printer::to_string(ir));
                    }
                    log.borrow_mut().ir_error = Some((p.to_string(), e.to_string()));
                    return Err(e);
                }
            }
            if cfg.roundtrip_each {
                roundtrip(ir, p, log);
            }
        }
        if !iter_modified {
            break;
        }
    }
    log.borrow_mut().current = None;
    if log.borrow().keep_final_ir {
        log.borrow_mut().final_ir = Some(sway_ir::printer::to_string(ir));
    }
    if cfg.substitute_final {
        let text = sway_ir::printer::to_string(ir);
        let se = ir.source_engine;
        match sway_ir::parser::parse(&text, se, ir.experimental, ir.backtrace) {
            Ok(new_ir) => {
                *ir = new_ir;
                ir.verify_ssa_dominance = cfg.dominance;
            }
            Err(e) => {
                let msg = e.to_string();
                log.borrow_mut().rt.push(RtEvent { stage: "final-substitute".into(), kind: "parse-failure".into(), detail: format!("{}\u{1}{}", parse_failure_class(&text, &msg), msg) });
                return Err(e);
            }
        }
    }
    Ok(())
}

/// Rename value identifiers (`v123v4`, `v12`) and metadata indices (`!12`) in order of first
/// occurrence: two texts equal after this differ only in numbering.
pub fn canonical_names(text: &str) -> String {
    let mut out = String::with_capacity(text.len());
    let mut vmap: std::collections::HashMap<String, usize> = Default::default();
    let mut mmap: std::collections::HashMap<String, usize> = Default::default();
    let b = text.as_bytes();
    let mut i = 0;
    let is_ident = |c: u8| c.is_ascii_alphanumeric() || c == b'_';
    while i < b.len() {
        let c = b[i];
        let at_boundary = i == 0 || !is_ident(b[i - 1]);
        if c == b'v' && at_boundary && i + 1 < b.len() && b[i + 1].is_ascii_digit() {
            // v<digits>(v<digits>)?
            let mut j = i + 1;
            while j < b.len() && b[j].is_ascii_digit() {
                j += 1;
            }
            if j < b.len() && b[j] == b'v' && j + 1 < b.len() && b[j + 1].is_ascii_digit() {
                j += 1;
                while j < b.len() && b[j].is_ascii_digit() {
                    j += 1;
                }
            }
            if j >= b.len() || !is_ident(b[j]) {
                let name = &text[i..j];
                let n = vmap.len();
                let k = *vmap.entry(name.to_string()).or_insert(n);
                out.push_str(&format!("v#{k}"));
                i = j;
                continue;
            }
        }
        if c == b'!' && i + 1 < b.len() && b[i + 1].is_ascii_digit() {
            let mut j = i + 1;
            while j < b.len() && b[j].is_ascii_digit() {
                j += 1;
            }
            let name = &text[i..j];
            let n = mmap.len();
            let k = *mmap.entry(name.to_string()).or_insert(n);
            out.push_str(&format!("!#{k}"));
            i = j;
            continue;
        }
        out.push(c as char);
        i += 1;
    }
    out
}

/// the shape of a line: identifiers with digits and numbers abstracted
pub fn line_shape(line: &str) -> String {
    let mut out = String::new();
    let mut prev_digit = false;
    for c in line.trim().chars().take(100) {
        if c.is_ascii_digit() {
            if !prev_digit {
                out.push('#');
            }
            prev_digit = true;
        } else {
            out.push(c);
            prev_digit = false;
        }
    }
    out
}

fn first_diff_line(a: &str, b: &str) -> String {
    for (la, lb) in a.lines().zip(b.lines()) {
        if la != lb {
            return format!("`{}` vs `{}`", la.trim(), lb.trim());
        }
    }
    format!("line count {} vs {}", a.lines().count(), b.lines().count())
}

fn note_kinds(text: &str, log: &mut HookLog) {
    for line in text.lines() {
        let t = line.trim();
        let rhs = match t.find(" = ") {
            Some(p) if t.starts_with('v') => &t[p + 3..],
            _ => t,
        };
        if let Some(w) = rhs.split(|c: char| c == ' ' || c == '(' || c == ',').next() {
            if !w.is_empty() && w.len() < 24 && w.chars().all(|c| c.is_ascii_alphanumeric() || c == '_') && log.instr_kinds.len() < 400 {
                log.instr_kinds.insert(w.to_string());
            }
        }
    }
}

/// What kind of line of printed IR is this (for classifying where a parse failure / difference is)?
pub fn line_kind(line: &str) -> String {
    let l = line.trim();
    let first = l.split_whitespace().next().unwrap_or("");
    if l.is_empty() {
        return "empty-line".into();
    }
    if l.starts_with('!') {
        return "metadata".into();
    }
    if l.ends_with("):") || l.ends_with("):,") || (l.contains('(') && l.trim_end().ends_with(':')) {
        return "block-header".into();
    }
    if l.contains(" fn ") || l.starts_with("fn ") {
        return "fn-header".into();
    }
    // `vN = op ...`
    let toks: Vec<&str> = l.split_whitespace().collect();
    if toks.len() >= 3 && toks[1] == "=" {
        return format!("instr:{}", toks[2].trim_end_matches(|c: char| !c.is_ascii_alphanumeric() && c != '_'));
    }
    match first {
        "global" | "local" | "storage_key" | "script" | "contract" | "library" | "predicate" | "pub" | "entry" | "entry_orig" | "}" => first.to_string(),
        _ => format!("instr:{}", first.trim_end_matches(|c: char| !c.is_ascii_alphanumeric() && c != '_')),
    }
}

fn erase_names(text: &str) -> String {
    // v123v4 / v12 -> v ; !12 -> !
    let b = text.as_bytes();
    let mut out = String::with_capacity(text.len());
    let is_ident = |c: u8| c.is_ascii_alphanumeric() || c == b'_';
    let mut i = 0;
    while i < b.len() {
        let c = b[i];
        let at_boundary = i == 0 || !is_ident(b[i - 1]);
        if c == b'v' && at_boundary && i + 1 < b.len() && b[i + 1].is_ascii_digit() {
            let mut j = i + 1;
            while j < b.len() && (b[j].is_ascii_digit() || (b[j] == b'v' && j + 1 < b.len() && b[j + 1].is_ascii_digit())) {
                j += 1;
            }
            if j >= b.len() || !is_ident(b[j]) {
                out.push('v');
                i = j;
                continue;
            }
        }
        if c == b'!' && i + 1 < b.len() && b[i + 1].is_ascii_digit() {
            let mut j = i + 1;
            while j < b.len() && b[j].is_ascii_digit() {
                j += 1;
            }
            out.push('!');
            i = j;
            continue;
        }
        out.push(c as char);
        i += 1;
    }
    out
}

fn differing_lines(a: &str, b: &str) -> usize {
    let (la, lb): (Vec<&str>, Vec<&str>) = (a.lines().collect(), b.lines().collect());
    la.iter().zip(lb.iter()).filter(|(x, y)| x != y).count() + la.len().abs_diff(lb.len())
}

/// Classes of differences between two printed modules: successive normalisations are applied
/// and every one that removes differences names a class; what is left names the kind of the
/// first differing line. Returns class names joined by '|'.
pub fn difference_classes(t1: &str, t2: &str) -> String {
    let mut classes: Vec<String> = vec![];
    let (mut a, mut b) = (t1.to_string(), t2.to_string());
    let steps: Vec<(&str, Box<dyn Fn(&str) -> String>)> = vec![
        ("value-or-metadata-numbering-order", Box::new(|t: &str| erase_names(t))),
        ("position-of-constant-definitions", Box::new(|t: &str| t.lines().filter(|l| !l.trim_start().starts_with("v = const ")).collect::<Vec<_>>().join("\n"))),
        ("mutability-flag-of-argument", Box::new(|t: &str| t.replace("mut ", ""))),
        (
            "metadata-entries",
            Box::new(|t: &str| t.lines().filter(|l| !l.trim_start().starts_with('!')).map(|l| l.split(", !").next().unwrap_or(l)).collect::<Vec<_>>().join("\n")),
        ),
        ("asm-body-layout", Box::new(|t: &str| t.split_whitespace().collect::<Vec<_>>().join(" "))),
    ];
    for (name, f) in steps {
        if a == b {
            break;
        }
        let (na, nb) = (f(&a), f(&b));
        if na == nb || differing_lines(&na, &nb) < differing_lines(&a, &b) {
            classes.push(name.to_string());
        }
        a = na;
        b = nb;
    }
    if a != b {
        // everything is one line of tokens now: kind of the first differing token pair
        let (ta, tb): (Vec<&str>, Vec<&str>) = (a.split(' ').collect(), b.split(' ').collect());
        let k = ta.iter().zip(tb.iter()).position(|(x, y)| x != y).unwrap_or(ta.len().min(tb.len()));
        let ctx = |t: &Vec<&str>| t[k.saturating_sub(2)..(k + 2).min(t.len())].iter().map(|w| line_shape(w)).collect::<Vec<_>>().join(" ");
        classes.push(format!("other:`{}` vs `{}`", ctx(&ta), ctx(&tb)));
    }
    classes.join("|")
}

/// "error at L:C: expected ..., found ...": class = kind of line L of the text + what was expected
pub fn parse_failure_class(text: &str, msg: &str) -> String {
    let pos = msg.split("error at ").nth(1).unwrap_or("");
    let line_no: usize = pos.split(':').next().and_then(|x| x.trim().parse().ok()).unwrap_or(0);
    let col: usize = pos.split(':').nth(1).and_then(|x| x.trim().parse().ok()).unwrap_or(0);
    let line = text.lines().nth(line_no.saturating_sub(1)).unwrap_or("");
    let expected: String = msg.split("expected ").nth(1).unwrap_or("").chars().take(24).collect();
    // the token the parser stopped at
    let at: String = line.chars().skip(col.saturating_sub(1)).take_while(|c| !c.is_whitespace() && *c != ',' && *c != '(').take(16).collect();
    let at_end = col > line.trim_end().len();
    format!("{}:{}:expected {}", line_kind(line), if at_end { "<end-of-line>".to_string() } else { line_shape(&at) }, line_shape(&expected))
}

fn roundtrip(ir: &Context, stage: &str, log: &Rc<RefCell<HookLog>>) {
    let t1 = sway_ir::printer::to_string(ir);
    {
        let mut l = log.borrow_mut();
        note_kinds(&t1, &mut l);
    }
    let push = |kind: &str, detail: String| {
        log.borrow_mut().rt.push(RtEvent { stage: stage.to_string(), kind: kind.to_string(), detail });
    };
    let m1 = match sway_ir::parser::parse(&t1, ir.source_engine, ir.experimental, ir.backtrace) {
        Ok(m) => m,
        Err(e) => {
            let msg = e.to_string();
            push("parse-failure", format!("{}\u{1}{}", parse_failure_class(&t1, &msg), msg));
            return;
        }
    };
    let t2 = sway_ir::printer::to_string(&m1);
    if t2 != t1 {
        if canonical_names(&t1) == canonical_names(&t2) {
            push("renumbered", String::new());
        } else {
            push("text-differs", format!("{}\u{1}{}", difference_classes(&t1, &t2), first_diff_line(&canonical_names(&t1), &canonical_names(&t2))));
            return;
        }
    }
    match sway_ir::parser::parse(&t2, ir.source_engine, ir.experimental, ir.backtrace) {
        Ok(m2) => {
            let t3 = sway_ir::printer::to_string(&m2);
            if t3 != t2 {
                push("second-roundtrip-differs", format!("{}\u{1}{}", difference_classes(&t2, &t3), first_diff_line(&t2, &t3)));
            } else if t2 == t1 {
                push("ok", String::new());
            }
        }
        Err(e) => {
            let msg = e.to_string();
            push("parse-failure-second", format!("{}\u{1}{}", parse_failure_class(&t2, &msg), msg));
        }
    }
}
