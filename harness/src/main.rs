//! swverif: runtime monitors for the Sway properties C01..C30.
//! usage: swverif <Cxx> <quick|thorough>
//!        swverif <Cxx> --replay <file>
//!        swverif shard <Cxx> <tier> <seed> <shard> <nshards> <budget_ms> <out>   (internal)
//!        swverif <internal-subcommand> ...                                     (property specific)

pub mod common;
pub mod e2e;
pub mod engine;
pub mod irhook;
pub mod reduce;
pub mod swgen;
pub mod swgen_gen;
pub mod swrun;
mod c01;
mod c02;
mod c03;
mod c04;
mod c05;
mod c06;
mod c07;
mod c08;
mod c09;
mod c10;
mod c11;
mod c12;
mod c13;
mod c14;
mod c15;
mod c16;
mod c17;
mod c18;
mod c19;
mod c20;
mod c21;
mod c22;
mod c23;
mod c24;
mod c25;
mod c26;
mod c27;
mod c28;
mod c29;
mod c30;

use common::*;
use serde_json::Value;
use std::time::{Duration, Instant};

pub struct Plan {
    pub nshards: u64,
    pub budget_s: f64,
    pub mem_gib: u64,
}

pub struct Prop {
    pub meta: &'static PropertyMeta,
    pub plan: fn(Tier) -> Plan,
    pub shard: fn(&ShardCtx) -> ShardResult,
    pub replay: fn(&Value) -> ShardResult,
    /// extra coverage keys computed from the merged result
    pub extra: fn(&ShardResult) -> Value,
    /// property-specific internal subcommands: returns Some(exit code) if handled
    pub subcommand: fn(&[String]) -> Option<i32>,
}

pub fn no_replay(_: &Value) -> ShardResult {
    let mut r = ShardResult::default();
    r.harness_fault = Some("replay not implemented for this property".into());
    r
}
pub fn no_extra(_: &ShardResult) -> Value {
    serde_json::json!({})
}
pub fn no_subcommand(_: &[String]) -> Option<i32> {
    None
}

fn lookup(id: &str) -> Option<&'static Prop> {
    match id {
        "C01" => Some(&c01::PROP),
        "C02" => Some(&c02::PROP),
        "C03" => Some(&c03::PROP),
        "C04" => Some(&c04::PROP),
        "C05" => Some(&c05::PROP),
        "C06" => Some(&c06::PROP),
        "C07" => Some(&c07::PROP),
        "C08" => Some(&c08::PROP),
        "C09" => Some(&c09::PROP),
        "C10" => Some(&c10::PROP),
        "C11" => Some(&c11::PROP),
        "C12" => Some(&c12::PROP),
        "C13" => Some(&c13::PROP),
        "C14" => Some(&c14::PROP),
        "C15" => Some(&c15::PROP),
        "C16" => Some(&c16::PROP),
        "C17" => Some(&c17::PROP),
        "C18" => Some(&c18::PROP),
        "C19" => Some(&c19::PROP),
        "C20" => Some(&c20::PROP),
        "C21" => Some(&c21::PROP),
        "C22" => Some(&c22::PROP),
        "C23" => Some(&c23::PROP),
        "C24" => Some(&c24::PROP),
        "C25" => Some(&c25::PROP),
        "C26" => Some(&c26::PROP),
        "C27" => Some(&c27::PROP),
        "C28" => Some(&c28::PROP),
        "C29" => Some(&c29::PROP),
        "C30" => Some(&c30::PROP),
        _ => None,
    }
}

const ALL: [&str; 30] = ["C01", "C02", "C03", "C04", "C05", "C06", "C07", "C08", "C09", "C10", "C11", "C12", "C13", "C14", "C15", "C16", "C17", "C18", "C19", "C20", "C21", "C22", "C23", "C24", "C25", "C26", "C27", "C28", "C29", "C30"];

fn main() {
    let args: Vec<String> = std::env::args().skip(1).collect();
    if args.is_empty() {
        eprintln!("usage: swverif <Cxx> <quick|thorough> | <Cxx> --replay <file>");
        std::process::exit(2);
    }
    if args[0] == "shard" {
        std::process::exit(shard_main(&args[1..]));
    }
    // property specific internal subcommands
    for id in ALL {
        if let Some(p) = lookup(id) {
            if let Some(code) = (p.subcommand)(&args) {
                std::process::exit(code);
            }
        }
    }
    let Some(prop) = lookup(&args[0]) else {
        eprintln!("unknown property or subcommand {}", args[0]);
        std::process::exit(2);
    };
    if args.len() >= 3 && args[1] == "--replay" {
        let text = std::fs::read_to_string(&args[2]).unwrap_or_else(|e| {
            eprintln!("cannot read replay file: {e}");
            std::process::exit(2);
        });
        let v: Value = serde_json::from_str(&text).expect("replay json");
        let case = v.get("case").cloned().unwrap_or(v.clone());
        let start = Instant::now();
        let res = (prop.replay)(&case);
        // replay does not rewrite evidence; print verdict only
        let known = load_known_findings();
        let mut code = 0;
        for viol in &res.violations {
            let is_known = known.iter().any(|k| k.property == prop.meta.id && k.status == "open" && k.signature == viol.signature);
            if is_known {
                println!("KNOWN-FINDING: property={} {} [signature={}]", prop.meta.id, viol.description, viol.signature);
            } else {
                println!("VIOLATION property={} replay={}", prop.meta.id, args[2]);
                eprintln!("  violation: {} :: {}", viol.signature, viol.description);
                code = 1;
            }
        }
        if let Some(f) = &res.harness_fault {
            eprintln!("harness: {f}");
            if code == 0 {
                code = 2;
            }
        }
        println!("{} replay evaluations={} violations={} wall={:.1}s", prop.meta.id, res.evaluations, res.violations.len(), start.elapsed().as_secs_f64());
        std::process::exit(code);
    }
    let tier = args.get(1).and_then(|s| Tier::parse(s)).or_else(|| std::env::var("VERIF_TIER").ok().and_then(|s| Tier::parse(&s))).unwrap_or(Tier::Quick);
    let seed = env_seed();
    let plan = (prop.plan)(tier);
    let start = Instant::now();
    let budget = Duration::from_secs_f64(plan.budget_s * env_scale());
    let policy: Option<CrashPolicy> = if prop.meta.id == "C17" { Some(c17::crash_policy) } else { None };
    let res = run_sharded(prop.meta.id, tier, seed, plan.nshards, budget, plan.mem_gib, policy);
    let extra = (prop.extra)(&res);
    let code = finish(prop.meta, tier, seed, start.elapsed().as_secs_f64(), res, extra);
    std::process::exit(code);
}

fn shard_main(a: &[String]) -> i32 {
    set_mem_limit_from_env();
    let prop = lookup(&a[0]).expect("prop");
    let ctx = ShardCtx {
        prop: a[0].clone(),
        tier: Tier::parse(&a[1]).expect("tier"),
        seed: a[2].parse().expect("seed"),
        shard: a[3].parse().expect("shard"),
        nshards: a[4].parse().expect("nshards"),
        start: Instant::now(),
        budget: Duration::from_millis(a[5].parse().expect("budget")),
        first_index: std::env::var("SWVERIF_FIRST_INDEX").ok().and_then(|s| s.parse().ok()).unwrap_or(0),
    };
    let limit_s: u64 = std::env::var("SWVERIF_CASE_WATCHDOG_S").ok().and_then(|s| s.parse().ok()).unwrap_or(60);
    start_watchdog(&ctx, std::path::Path::new(&a[6]), Duration::from_secs(limit_s));
    let res = (prop.shard)(&ctx);
    std::fs::write(&a[6], serde_json::to_string(&res).unwrap()).expect("write shard result");
    0
}
