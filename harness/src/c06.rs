//! C06: compile-time evaluation agrees with run-time evaluation.
//! Monitor: expression trees over boundary-biased literal operands are emitted four ways in one
//! script - `const`, `configurable` default, a function over literals (folded by the optimiser in
//! release) and a function over run-time arguments holding the same operands - and the four
//! observed values must be equal to each other and to the reference interpreter. Expressions
//! whose run-time evaluation reverts are emitted alone: the compiler must reject them or the
//! program must revert at run time, never yield a value.
use crate::common::*;
use crate::engine::*;
use crate::swgen::*;
use crate::swgen_gen::{gen_int, gen_small_int};
use crate::{Plan, Prop};
use rand::rngs::StdRng;
use rand::Rng;
use serde_json::{json, Value};
use std::panic::AssertUnwindSafe;

pub static META: PropertyMeta = PropertyMeta {
    id: "C06",
    level: "exploration",
    rule: "random expression trees (depth <= 4) over + - * / % & | ^ ! << >> comparisons && || if-expressions tuples/structs/arrays and calls of small user functions, for u8 u16 u32 u64 u256 b256 bool, operands boundary-biased (0, 1, max, max-1, powers of two +-1, shift amounts around the width); each non-reverting expression is observed as const / configurable / folded / run-time (4 logged values, debug and release); each would-revert expression is compiled alone as const, configurable and folded variant; an evaluation = one expression; non-trivial = expression with >= 2 operators whose value differs from all of its operands; distinct = hash of the expression text with operand values",
    assumptions: &["fuel-vm 0.66 is the trusted execution substrate", "a compile error for a non-reverting expression is not a violation (the property speaks of values the compiler computes); it is counted as rejected"],
    floor_evaluations: 100,
    floor_nontrivial: 30,
    required_counters: &["components_compared", "would_revert_cases", "const_values_observed", "configurable_values_observed", "folded_values_observed", "runtime_values_observed"],
};

pub static PROP: Prop = Prop {
    meta: &META,
    plan: |t| Plan { nshards: 16, budget_s: t.pick(55.0, 540.0), mem_gib: 6 },
    shard,
    replay,
    extra: crate::no_extra,
    subcommand: crate::no_subcommand,
};

fn e(ty: Ty, k: EK) -> Expr {
    Expr { ty, k: Box::new(k) }
}

struct G<'r> {
    rng: &'r mut StdRng,
    leaves: Vec<(String, Ty, Val)>,
    ops: Vec<String>,
    uses_helper: bool,
}

const INTS: [Ty; 5] = [Ty::U8, Ty::U16, Ty::U32, Ty::U64, Ty::U256];

impl<'r> G<'r> {
    fn leaf(&mut self, t: &Ty) -> Expr {
        let v = match t {
            Ty::Bool => Val::Bool(self.rng.gen_bool(0.5)),
            _ => {
                if self.rng.gen_bool(0.4) {
                    Val::Int(gen_small_int(self.rng, t))
                } else {
                    Val::Int(gen_int(self.rng, t))
                }
            }
        };
        if self.rng.gen_bool(0.12) || self.leaves.len() >= 3 {
            return e(t.clone(), EK::Lit(v));
        }
        let name = format!("l{}", self.leaves.len());
        self.leaves.push((name.clone(), t.clone(), v));
        e(t.clone(), EK::Var(name))
    }

    fn shift_amount(&mut self, w: u64) -> Expr {
        let c = *crate::common::choose(self.rng, &[0u64, 1, 7, 8, 9, 15, 16, 17, 31, 32, 33, 63, 64, 65, 127, 128, 255, 256, 257]);
        let c = if self.rng.gen_bool(0.7) { c.min(w + 1) } else { c };
        if self.rng.gen_bool(0.5) && self.leaves.len() < 3 {
            let name = format!("l{}", self.leaves.len());
            self.leaves.push((name.clone(), Ty::U64, Val::Int(big(c))));
            e(Ty::U64, EK::Var(name))
        } else {
            e(Ty::U64, EK::Lit(Val::Int(big(c))))
        }
    }

    fn expr(&mut self, t: &Ty, depth: usize) -> Expr {
        if depth == 0 {
            return self.leaf(t);
        }
        match t {
            Ty::Bool => match self.rng.gen_range(0..10) {
                0..=5 => {
                    let st = if self.rng.gen_bool(0.85) { INTS[self.rng.gen_range(0..5)].clone() } else { Ty::B256 };
                    let op = *crate::common::choose(self.rng, &[BinOp::Eq, BinOp::Ne, BinOp::Lt, BinOp::Le, BinOp::Gt, BinOp::Ge]);
                    self.ops.push(format!("{}.{}", op.name(), type_name(&st)));
                    let a = self.expr(&st, depth - 1);
                    let b = self.expr(&st, depth - 1);
                    e(Ty::Bool, EK::Bin(op, a, b))
                }
                6..=7 => {
                    let op = if self.rng.gen_bool(0.5) { BinOp::LAnd } else { BinOp::LOr };
                    self.ops.push(format!("{}.bool", op.name()));
                    let a = self.expr(t, depth - 1);
                    let b = self.expr(t, depth - 1);
                    e(Ty::Bool, EK::Bin(op, a, b))
                }
                8 => {
                    self.ops.push("not.bool".into());
                    let a = self.expr(t, depth - 1);
                    e(Ty::Bool, EK::Not(a))
                }
                _ => self.leaf(t),
            },
            Ty::B256 => match self.rng.gen_range(0..10) {
                0..=4 => {
                    let op = *crate::common::choose(self.rng, &[BinOp::And, BinOp::Or, BinOp::Xor]);
                    self.ops.push(format!("{}.b256", op.name()));
                    let a = self.expr(t, depth - 1);
                    let b = self.expr(t, depth - 1);
                    e(Ty::B256, EK::Bin(op, a, b))
                }
                5..=6 => {
                    self.ops.push("not.b256".into());
                    let a = self.expr(t, depth - 1);
                    e(Ty::B256, EK::Not(a))
                }
                7 => {
                    let op = if self.rng.gen_bool(0.5) { BinOp::Shl } else { BinOp::Shr };
                    self.ops.push(format!("{}.b256", op.name()));
                    let a = self.expr(t, depth - 1);
                    let n = self.shift_amount(256);
                    e(Ty::B256, EK::Bin(op, a, n))
                }
                _ => self.leaf(t),
            },
            _ => match self.rng.gen_range(0..100) {
                0..=44 => {
                    let op = *crate::common::choose(self.rng, &[BinOp::Add, BinOp::Sub, BinOp::Mul, BinOp::Div, BinOp::Mod]);
                    self.ops.push(format!("{}.{}", op.name(), type_name(t)));
                    let a = self.expr(t, depth - 1);
                    let b = self.expr(t, depth - 1);
                    e(t.clone(), EK::Bin(op, a, b))
                }
                45..=62 => {
                    let op = *crate::common::choose(self.rng, &[BinOp::And, BinOp::Or, BinOp::Xor]);
                    self.ops.push(format!("{}.{}", op.name(), type_name(t)));
                    let a = self.expr(t, depth - 1);
                    let b = self.expr(t, depth - 1);
                    e(t.clone(), EK::Bin(op, a, b))
                }
                63..=76 => {
                    let op = if self.rng.gen_bool(0.5) { BinOp::Shl } else { BinOp::Shr };
                    self.ops.push(format!("{}.{}", op.name(), type_name(t)));
                    let a = self.expr(t, depth - 1);
                    let n = self.shift_amount(t.bits() as u64);
                    e(t.clone(), EK::Bin(op, a, n))
                }
                77..=82 => {
                    self.ops.push(format!("not.{}", type_name(t)));
                    let a = self.expr(t, depth - 1);
                    e(t.clone(), EK::Not(a))
                }
                83..=88 => {
                    self.ops.push("if".into());
                    let c = self.expr(&Ty::Bool, depth - 1);
                    let a = self.expr(t, depth - 1);
                    let b = self.expr(t, depth - 1);
                    e(t.clone(), EK::If(c, Block { stmts: vec![], tail: Some(a) }, Block { stmts: vec![], tail: Some(b) }))
                }
                89..=92 => {
                    // aggregate construction + projection
                    self.ops.push("tuple".into());
                    let other = INTS[self.rng.gen_range(0..5)].clone();
                    let a = self.expr(t, depth - 1);
                    let b = self.expr(&other, depth - 1);
                    let tt = Ty::Tuple(vec![other.clone(), t.clone()]);
                    e(t.clone(), EK::TupleGet(e(tt, EK::Tuple(vec![b, a])), 1))
                }
                93..=95 => {
                    self.ops.push("array".into());
                    let a = self.expr(t, depth - 1);
                    let b = self.expr(t, depth - 1);
                    let at = Ty::Array(Box::new(t.clone()), 2);
                    let idx = e(Ty::U64, EK::Lit(Val::Int(big(self.rng.gen_range(0..2)))));
                    e(t.clone(), EK::Index(e(at, EK::Array(vec![a, b])), idx))
                }
                96..=99 if *t == Ty::U64 => {
                    // user function call (const-fn style): helper cf_mix(a, b) = (a ^ b) + (a & b)
                    self.ops.push("call".into());
                    self.uses_helper = true;
                    let a = self.expr(t, depth - 1);
                    let b = self.expr(t, depth - 1);
                    // cf_mix / cf_asym / cf_swap / cf_deep (the last two call another helper with
                    // permuted arguments)
                    let which = *crate::common::choose(self.rng, &[1usize, 2, 3, 3, 4, 4]);
                    e(Ty::U64, EK::Call(which, vec![a, b]))
                }
                _ => self.leaf(t),
            },
        }
    }
}

fn type_name(t: &Ty) -> String {
    Types::default().name(t)
}

#[derive(Clone)]
pub struct CExpr {
    pub ty: Ty,
    pub expr: Expr,
    pub leaves: Vec<(String, Ty, Val)>,
    pub ops: Vec<String>,
}

fn subst(x: &Expr, leaves: &[(String, Ty, Val)]) -> Expr {
    let mut y = x.clone();
    fn go(x: &mut Expr, leaves: &[(String, Ty, Val)]) {
        if let EK::Var(n) = &*x.k {
            if let Some((_, _, v)) = leaves.iter().find(|(ln, _, _)| ln == n) {
                *x.k = EK::Lit(v.clone());
                return;
            }
        }
        match &mut *x.k {
            EK::Bin(_, a, b) | EK::Index(a, b) => {
                go(a, leaves);
                go(b, leaves);
            }
            EK::Not(a) | EK::TupleGet(a, _) => go(a, leaves),
            EK::Tuple(es) | EK::Array(es) | EK::Call(_, es) => es.iter_mut().for_each(|a| go(a, leaves)),
            EK::If(c, t, f) => {
                go(c, leaves);
                if let Some(t) = &mut t.tail {
                    go(t, leaves);
                }
                if let Some(f) = &mut f.tail {
                    go(f, leaves);
                }
            }
            _ => {}
        }
    }
    go(&mut y, leaves);
    y
}

/// funcs[1..] of every C06 program: small user functions called from constant expressions.
/// cf_mix is symmetric; cf_asym is not; cf_swap and cf_deep call another helper with permuted /
/// rewritten arguments whose names coincide with the callee's parameter names (so that the order
/// in which a const-evaluator binds parameters and evaluates the remaining arguments matters).
fn helper_funcs() -> Vec<Func> {
    let v = |n: &str| e(Ty::U64, EK::Var(n.into()));
    let lit = |k: u64| e(Ty::U64, EK::Lit(Val::Int(big(k))));
    let bin = |op: BinOp, a: Expr, b: Expr| e(Ty::U64, EK::Bin(op, a, b));
    let params = || vec![("a".to_string(), Ty::U64, false), ("b".to_string(), Ty::U64, false)];
    let mk = |name: &str, tail: Expr| Func { name: name.into(), params: params(), ret: Ty::U64, body: Block { stmts: vec![], tail: Some(tail) }, inline_never: false };
    vec![
        mk("cf_mix", bin(BinOp::Add, bin(BinOp::Xor, v("a"), v("b")), bin(BinOp::And, v("a"), v("b")))),
        // (a & 0xffff) * 3 + (b & 0xff)
        mk("cf_asym", bin(BinOp::Add, bin(BinOp::Mul, bin(BinOp::And, v("a"), lit(0xffff)), lit(3)), bin(BinOp::And, v("b"), lit(0xff)))),
        // cf_asym(b, a)
        mk("cf_swap", e(Ty::U64, EK::Call(2, vec![v("b"), v("a")]))),
        // cf_swap(b ^ 1, a)
        mk("cf_deep", e(Ty::U64, EK::Call(3, vec![bin(BinOp::Xor, v("b"), lit(1)), v("a")]))),
    ]
}

fn with_helpers(first: Func) -> Vec<Func> {
    let mut v = vec![first];
    v.extend(helper_funcs());
    v
}

fn program_for(c: &CExpr) -> Program {
    let f = Func { name: "rt".into(), params: c.leaves.iter().map(|(n, t, _)| (n.clone(), t.clone(), false)).collect(), ret: c.ty.clone(), body: Block { stmts: vec![], tail: Some(c.expr.clone()) }, inline_never: false };
    Program { types: Types::default(), consts: vec![], funcs: with_helpers(f), main_params: c.leaves.iter().map(|(_, t, _)| t.clone()).collect(), ret: c.ty.clone(), entries: vec![0], uses_generics: false }
}

fn reference(c: &CExpr) -> Result<Vec<u8>, RevertKind> {
    let p = program_for(c);
    let args: Vec<Val> = c.leaves.iter().map(|(_, _, v)| v.clone()).collect();
    Interp::run(&p, 0, &args).0.result
}

fn print_expr(x: &Expr) -> String {
    let dummy = Func { name: "rt".into(), params: vec![], ret: Ty::U64, body: Block::default(), inline_never: false };
    let p = Program { types: Types::default(), consts: vec![], funcs: with_helpers(dummy), main_params: vec![], ret: Ty::U64, entries: vec![], uses_generics: false };
    let mut pr = Printer::new(&p);
    pr.expr(x)
}

pub fn gen_cexpr(rng: &mut StdRng) -> CExpr {
    let ty = match rng.gen_range(0..20) {
        0..=2 => Ty::U8,
        3..=4 => Ty::U16,
        5..=6 => Ty::U32,
        7..=10 => Ty::U64,
        11..=14 => Ty::U256,
        15..=16 => Ty::B256,
        _ => Ty::Bool,
    };
    let depth = rng.gen_range(1..=3);
    let mut g = G { rng, leaves: vec![], ops: vec![], uses_helper: false };
    let expr = g.expr(&ty, depth);
    CExpr { ty, expr, leaves: g.leaves, ops: g.ops }
}

const HELPER: &str = "fn cf_mix(a: u64, b: u64) -> u64 {\n    (a ^ b) + (a & b)\n}\nfn cf_asym(a: u64, b: u64) -> u64 {\n    (a & 65535u64) * 3u64 + (b & 255u64)\n}\nfn cf_swap(a: u64, b: u64) -> u64 {\n    cf_asym(b, a)\n}\nfn cf_deep(a: u64, b: u64) -> u64 {\n    cf_swap(b ^ 1u64, a)\n}\n";

/// The batch script for non-reverting expressions.
fn batch_source(cs: &[CExpr]) -> String {
    let mut s = String::from("script;\n\n");
    s.push_str(HELPER);
    for (i, c) in cs.iter().enumerate() {
        let lit = print_expr(&subst(&c.expr, &c.leaves));
        let tn = type_name(&c.ty);
        s.push_str(&format!("const C{i}: {tn} = {lit};\n"));
    }
    s.push_str("configurable {\n");
    for (i, c) in cs.iter().enumerate() {
        let lit = print_expr(&subst(&c.expr, &c.leaves));
        s.push_str(&format!("    K{i}: {} = {lit},\n", type_name(&c.ty)));
    }
    s.push_str("}\n");
    for (i, c) in cs.iter().enumerate() {
        let tn = type_name(&c.ty);
        let params: Vec<String> = c.leaves.iter().map(|(n, t, _)| format!("{n}: {}", type_name(t))).collect();
        s.push_str(&format!("#[inline(never)]\nfn rt{i}({}) -> {tn} {{\n    {}\n}}\n", params.join(", "), print_expr(&c.expr)));
        s.push_str(&format!("fn fold{i}() -> {tn} {{\n    {}\n}}\n", print_expr(&subst(&c.expr, &c.leaves))));
    }
    // main: all leaves of all expressions are parameters
    let mut params = vec!["sel: u64".to_string()];
    for (i, c) in cs.iter().enumerate() {
        for (n, t, _) in &c.leaves {
            params.push(format!("p{i}_{n}: {}", type_name(t)));
        }
    }
    s.push_str(&format!("fn main({}) -> u64 {{\n", params.join(", ")));
    for (i, c) in cs.iter().enumerate() {
        let args: Vec<String> = c.leaves.iter().map(|(n, _, _)| format!("p{i}_{n}")).collect();
        s.push_str(&format!("    if sel == {i}u64 {{\n        log(C{i});\n        log(K{i});\n        log(fold{i}());\n        log(rt{i}({}));\n    }}\n", args.join(", ")));
    }
    s.push_str("    0u64\n}\n");
    s
}

fn batch_data(cs: &[CExpr], sel: u64) -> Vec<u8> {
    let mut d = sel.to_be_bytes().to_vec();
    let types = Types::default();
    for c in cs {
        for (_, t, v) in &c.leaves {
            encode(t, v, &types, &mut d);
        }
    }
    d
}

fn single_source(c: &CExpr, variant: &str) -> String {
    let tn = type_name(&c.ty);
    let lit = print_expr(&subst(&c.expr, &c.leaves));
    match variant {
        "const" => format!("script;\n{HELPER}const C: {tn} = {lit};\nfn main() -> {tn} {{\n    C\n}}\n"),
        "configurable" => format!("script;\n{HELPER}configurable {{\n    K: {tn} = {lit},\n}}\nfn main() -> {tn} {{\n    K\n}}\n"),
        _ => format!("script;\n{HELPER}fn fold() -> {tn} {{\n    {lit}\n}}\nfn main() -> {tn} {{\n    fold()\n}}\n"),
    }
}

fn expr_text(c: &CExpr) -> String {
    print_expr(&subst(&c.expr, &c.leaves))
}

fn nontrivial(c: &CExpr, value: &[u8]) -> bool {
    if c.ops.len() < 2 {
        return false;
    }
    let types = Types::default();
    !c.leaves.iter().any(|(_, t, v)| *t == c.ty && encoded(t, v, &types) == value)
}

fn run_batch(am: &mut Amortised, cs: &[CExpr], refs: &[Vec<u8>], res: &mut ShardResult) {
    let src = batch_source(cs);
    for profile in Profile::BOTH {
        let c = match catch(AssertUnwindSafe(|| am.compile("gencase", &src, profile))) {
            Ok(Ok(c)) => c,
            Ok(Err(_)) => {
                let _ = std::fs::remove_dir_all(am.last_dir());
                res.count("batch_rejected");
                // attribute: compile every expression alone (const variant) to count rejections per operator
                if profile == Profile::Debug && cs.len() > 1 {
                    let mut good = vec![];
                    let mut good_refs = vec![];
                    for (ce, r) in cs.iter().zip(refs) {
                        let one = batch_source(std::slice::from_ref(ce));
                        match catch(AssertUnwindSafe(|| am.compile("gencase", &one, profile))) {
                            Ok(Ok(c1)) => {
                                am.remove(&c1);
                                good.push(ce.clone());
                                good_refs.push(r.clone());
                            }
                            _ => {
                                res.count("rejected_expressions");
                                for o in &ce.ops {
                                    res.count(&format!("rejected_with.{o}"));
                                }
                                let _ = std::fs::remove_dir_all(am.last_dir());
                            }
                        }
                    }
                    // the expressions the compiler can evaluate are observed as a smaller batch
                    if !good.is_empty() && good.len() < cs.len() {
                        run_batch(am, &good, &good_refs, res);
                    }
                    return;
                }
                continue;
            }
            Err((loc, msg)) => {
                res.count("compiler_panics");
                res.inconclusive(format!("compiler panicked at {loc}: {}", msg.chars().take(100).collect::<String>()));
                let _ = std::fs::remove_dir_all(am.last_dir());
                continue;
            }
        };
        for (i, ce) in cs.iter().enumerate() {
            let obs = run_script(&c.pkg.bytecode.bytes, &batch_data(cs, i as u64));
            let text = expr_text(ce);
            let replay = json!({"kind": "value", "expr": text, "type": type_name(&ce.ty), "source": src, "sel": i, "script_data": hex::encode(batch_data(cs, i as u64)), "expected": hex::encode(&refs[i]), "profile": profile.name()});
            if obs.outcome.reverted() || obs.logs.len() != 4 {
                res.violation(format!("const-eval-run-reverted:{:016x}", hash64(text.as_bytes())), format!("[{}] `{text}`: the reference value is {} but the run ended with {}", profile.name(), hex::encode(&refs[i]), obs.short()), replay);
                continue;
            }
            let names = ["const", "configurable", "folded", "runtime"];
            for (k, (_, data)) in obs.logs.iter().enumerate() {
                res.count("components_compared");
                res.count(&format!("{}_values_observed", names[k]));
                if data != &refs[i] {
                    res.violation(
                        format!("compile-time-value-differs:{}:{:016x}", names[k], hash64(text.as_bytes())),
                        format!("[{}] `{text}` : {} = {}, const/configurable/folded/runtime = {:?}; the documented semantics give {}", profile.name(), names[k], hex::encode(data), obs.logs.iter().map(|(_, d)| hex::encode(d)).collect::<Vec<_>>(), hex::encode(&refs[i])),
                        replay.clone(),
                    );
                    break;
                }
            }
            for o in &ce.ops {
                res.count(&format!("op.{o}"));
            }
        }
        am.remove(&c);
    }
}

/// Some(true): the first failing operation's result is unobservable and the program produced the
/// value all substituted reference runs agree on; Some(false): undecidable (a second failure
/// follows); None: the failing operation is observable or the value is wrong -> violation.
fn unobservable_failure(ce: &CExpr, obs: &Observation) -> Option<bool> {
    let p = program_for(ce);
    let args: Vec<Val> = ce.leaves.iter().map(|(_, _, v)| v.clone()).collect();
    let mut vals = vec![];
    for s in [Subst::Zero, Subst::One, Subst::Max, Subst::Wrapped] {
        match Interp::run_with(&p, 0, &args, Some(s)).0.result {
            Ok(v) => vals.push(v),
            Err(RevertKind::Overflow) | Err(RevertKind::DivZero) => return Some(false),
            Err(_) => return None,
        }
    }
    if !vals.iter().all(|v| *v == vals[0]) {
        return None;
    }
    match &obs.outcome {
        Outcome::ReturnData(d) if *d == vals[0] => Some(true),
        Outcome::Return(v) if v.to_be_bytes().to_vec() == vals[0] => Some(true),
        _ => None,
    }
}

fn run_would_revert(am: &mut Amortised, ce: &CExpr, kind: &RevertKind, res: &mut ShardResult) {
    res.count("would_revert_cases");
    let text = expr_text(ce);
    for variant in ["const", "configurable", "folded"] {
        let src = single_source(ce, variant);
        for profile in Profile::BOTH {
            match catch(AssertUnwindSafe(|| am.compile("gencase", &src, profile))) {
                Ok(Ok(c)) => {
                    let obs = run_script(&c.pkg.bytecode.bytes, &[]);
                    am.remove(&c);
                    if obs.outcome.reverted() {
                        res.count(&format!("would_revert.{variant}.reverted_at_run_time"));
                    } else if let Some(tolerated) = unobservable_failure(ce, &obs) {
                        // invalid arithmetic whose result cannot influence the value is documented
                        // undefined behaviour that the optimiser may remove (see swrun::compare_case)
                        if tolerated {
                            res.count(&format!("would_revert.{variant}.dead_invalid_arithmetic_removed_tolerated"));
                        } else {
                            res.inconclusive("a second invalid arithmetic operation follows the first; observability undecided");
                        }
                    } else {
                        res.violation(
                            format!("value-substituted-for-reverting-expression:{variant}:{:?}", kind),
                            format!("[{} {variant}] `{text}` reverts at run time ({kind:?}) but the program compiled and produced {}", profile.name(), obs.short()),
                            json!({"kind": "would_revert", "expr": text, "source": src, "variant": variant, "profile": profile.name()}),
                        );
                    }
                }
                Ok(Err(_)) => {
                    res.count(&format!("would_revert.{variant}.rejected_at_compile_time"));
                    let _ = std::fs::remove_dir_all(am.last_dir());
                }
                Err((loc, msg)) => {
                    res.count("compiler_panics");
                    res.inconclusive(format!("compiler panicked at {loc}: {}", msg.chars().take(100).collect::<String>()));
                    let _ = std::fs::remove_dir_all(am.last_dir());
                }
            }
        }
    }
}

fn shard(ctx: &ShardCtx) -> ShardResult {
    let mut res = ShardResult::default();
    let mut am = Amortised::new(&ctx.work());
    if let Err(e) = am.warm() {
        res.harness_fault = Some(format!("std does not compile: {e}"));
        return res;
    }
    let clock = ctx.clock();
    let mut i = ctx.first_index;
    while clock.left() {
        let mut rng = ctx.rng(i);
        let mut batch = vec![];
        let mut refs = vec![];
        let mut reverting = vec![];
        for _ in 0..8 {
            let ce = gen_cexpr(&mut rng);
            res.evaluations += 1;
            match reference(&ce) {
                Ok(v) => {
                    if nontrivial(&ce, &v) {
                        res.note_nontrivial(hash64(expr_text(&ce).as_bytes()));
                    }
                    batch.push(ce);
                    refs.push(v);
                }
                Err(k) => reverting.push((ce, k)),
            }
        }
        ctx.begin_case(i, &batch_source(&batch), &res);
        if !batch.is_empty() {
            run_batch(&mut am, &batch, &refs, &mut res);
            if res.samples.len() < 2 {
                res.sample(json!({"expressions": batch.iter().map(expr_text).collect::<Vec<_>>(), "reference_values": refs.iter().map(hex::encode).collect::<Vec<_>>()}));
            }
        }
        // would-revert expressions are expensive (6 compiles each): take at most one per batch
        if let Some((ce, k)) = reverting.first() {
            run_would_revert(&mut am, ce, k, &mut res);
        }
        ctx.end_case();
        i += 1;
    }
    res
}

fn replay(v: &Value) -> ShardResult {
    let mut res = ShardResult::default();
    let work = work_dir("C06").join("replay");
    clean_dir(&work);
    let mut am = Amortised::new(&work);
    let src = v["source"].as_str().unwrap_or("").to_string();
    let profile = if v["profile"].as_str() == Some("release") { Profile::Release } else { Profile::Debug };
    res.evaluations = 1;
    match am.compile("gencase", &src, profile) {
        Ok(c) => {
            if v["kind"].as_str() == Some("would_revert") {
                let obs = run_script(&c.pkg.bytecode.bytes, &[]);
                if !obs.outcome.reverted() {
                    res.violation(format!("value-substituted-for-reverting-expression:{}:replayed", v["variant"].as_str().unwrap_or("")), format!("`{}` compiled and produced {}", v["expr"].as_str().unwrap_or(""), obs.short()), v.clone());
                }
            } else {
                let data = hex::decode(v["script_data"].as_str().unwrap_or("")).unwrap_or_default();
                let expected = v["expected"].as_str().unwrap_or("").to_string();
                let obs = run_script(&c.pkg.bytecode.bytes, &data);
                if obs.outcome.reverted() || obs.logs.iter().any(|(_, d)| hex::encode(d) != expected) {
                    res.violation("compile-time-value-differs:replayed".to_string(), format!("`{}` expected {expected}, observed {}", v["expr"].as_str().unwrap_or(""), obs.short()), v.clone());
                }
            }
        }
        Err(e) => res.inconclusive(format!("recorded program no longer compiles: {e}")),
    }
    res
}
