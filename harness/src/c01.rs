//! C01: compiled scripts compute what the Sway semantics prescribe.
//! Monitor: SwGen program -> real compiler (debug and release, amortised forc engine) -> FuelVM
//! on several input vectors -> compared with the harness's reference interpreter.
use crate::common::*;
use crate::engine::*;
use crate::swrun::*;
use crate::{Plan, Prop};
use serde_json::{json, Value};
use std::panic::AssertUnwindSafe;

pub static META: PropertyMeta = PropertyMeta {
    id: "C01",
    level: "exploration",
    rule: "SwGen programs (typed random scripts over u8..u256, bool, b256, tuples, arrays, structs, enums, ref mut params, if/while/match/break/continue/early return, generic and trait calls; modes plain / near-duplicate functions / constant-rich / register-pressure / aggregate-heavy / out-of-bounds) x 12 input vectors (half small, half boundary-biased) x {debug, release}; plus e2e 'run' tests with maintainer-written expected results; an evaluation = one program; non-trivial = compiled, at least one input ran to completion and two inputs gave different reference outcomes; distinct = hash of the source text",
    assumptions: &[
        "fuel-vm 0.66 is the trusted execution substrate",
        "the reference interpreter in harness/src/swgen.rs implements the documented semantics; it is independent of the compiler",
        "when the reference outcome is a revert only revert/non-revert is compared",
    ],
    floor_evaluations: 40,
    floor_nontrivial: 10,
    required_counters: &["executions", "executions_returned", "executions_reverted", "profile.debug", "profile.release"],
};

pub static PROP: Prop = Prop {
    meta: &META,
    plan: |t| Plan { nshards: 16, budget_s: t.pick(55.0, 540.0), mem_gib: 6 },
    shard,
    replay,
    extra: crate::no_extra,
    subcommand,
};

pub const OOB_SIG: &str = "dynamic-array-index-out-of-bounds-does-not-revert";

pub fn run_case(am: &mut Amortised, case: &Case, res: &mut ShardResult, validate_plain: bool) {
    res.evaluations += 1;
    let mut compiled_any = false;
    for profile in Profile::BOTH {
        let r = catch(AssertUnwindSafe(|| am.compile("gencase", &case.src, profile)));
        let c = match r {
            Err((loc, msg)) => {
                // a compiler crash is C17's business; here it only means nothing was observed
                res.count("compiler_panics");
                res.inconclusive(format!("compiler panicked at {loc}: {}", msg.chars().take(100).collect::<String>()));
                continue;
            }
            Ok(Err(_)) => {
                res.count("rejected");
                let dir = am_last_dir(am);
                let msg = first_error_text(am, &dir, profile);
                res.count(&format!("rejected.{}", bucket(&msg)));
                // keep the first program of every rejection class for inspection
                let keep = work_dir("rejected").join(format!("{}_{}.sw", profile.name(), bucket(&msg).replace([' ', '#'], "_")));
                if !keep.exists() {
                    let _ = std::fs::write(&keep, format!("// {msg}\n// origin: {:?}\n{}", case.origin, case.src));
                }
                let _ = std::fs::remove_dir_all(&dir);
                continue;
            }
            Ok(Ok(c)) => c,
        };
        compiled_any = true;
        res.count(&format!("profile.{}", profile.name()));
        if validate_plain {
            match plain_build(&c.dir, profile) {
                Ok(p) => {
                    res.count("amortised_vs_plain_compared");
                    if p.bytecode.bytes != c.pkg.bytecode.bytes {
                        res.harness_fault = Some("amortised engine bytecode differs from plain forc build".into());
                    }
                }
                Err(e) => res.inconclusive(format!("plain build failed where amortised succeeded: {e}")),
            }
        }
        for (k, data) in case.script_data.iter().enumerate() {
            let obs = run_script(&c.pkg.bytecode.bytes, data);
            res.count("executions");
            if obs.outcome.reverted() {
                res.count("executions_reverted");
            } else {
                res.count("executions_returned");
            }
            match compare_case(case, k, &obs) {
                Cmp::Agree => {}
                Cmp::DeadUbTolerated => res.count("dead_invalid_arithmetic_removed_tolerated"),
                Cmp::Inconclusive(n) => res.inconclusive(n),
                Cmp::OobNoRevert => {
                    res.violation(OOB_SIG, format!("a run-time array index >= length does not revert ({}): observed {}", profile.name(), obs.short()), case.replay_json(json!({"input": k, "profile": profile.name()})));
                }
                Cmp::Mismatch(m) => {
                    res.violation(
                        format!("semantics-mismatch:{:016x}", hash64(case.src.as_bytes())),
                        format!("[{} input {k} mode {}] {m}", profile.name(), case.mode.name()),
                        case.replay_json(json!({"input": k, "profile": profile.name()})),
                    );
                    break;
                }
            }
        }
        am.remove(&c);
    }
    if compiled_any {
        if case.nontrivial() {
            res.note_nontrivial(hash64(case.src.as_bytes()));
        }
        if res.samples.is_empty() {
            res.sample(json!({"mode": case.mode.name(), "source": case.src, "script_data": case.script_data.iter().take(3).map(hex::encode).collect::<Vec<_>>(), "expected": case.expected.iter().take(3).map(|o| format!("{:?}", o.result.as_ref().map(hex::encode))).collect::<Vec<_>>()}));
        }
    }
}

fn am_last_dir(am: &Amortised) -> std::path::PathBuf {
    am.last_dir()
}

/// Witness files: /verif/known_findings.d/witnesses/C01/<name>.sw with header comments
/// `// data: <hex script data>` (one run per line), each followed by `// return: <hex>` and
/// optionally `// logs: <hex>,<hex>`. A witness whose observation differs (or that does not
/// compile) is a violation with signature `witness:<name>`.
pub fn run_witnesses(am: &mut Amortised, res: &mut ShardResult) {
    let dir = std::path::Path::new(VERIF).join("known_findings.d/witnesses/C01");
    let mut files: Vec<_> = std::fs::read_dir(&dir).map(|rd| rd.filter_map(|e| e.ok()).map(|e| e.path()).filter(|p| p.extension().map(|x| x == "sw").unwrap_or(false)).collect()).unwrap_or_default();
    files.sort();
    for f in files {
        let name = f.file_stem().unwrap().to_string_lossy().to_string();
        let src = std::fs::read_to_string(&f).unwrap_or_default();
        let mut runs: Vec<(Vec<u8>, Vec<u8>, Vec<Vec<u8>>)> = vec![];
        for l in src.lines() {
            if let Some(h) = l.strip_prefix("// data:") {
                runs.push((hex::decode(h.trim()).unwrap_or_default(), vec![], vec![]));
            } else if let Some(h) = l.strip_prefix("// return:") {
                if let Some(r) = runs.last_mut() {
                    r.1 = hex::decode(h.trim()).unwrap_or_default();
                }
            } else if let Some(h) = l.strip_prefix("// logs:") {
                if let Some(r) = runs.last_mut() {
                    r.2 = h.split(',').filter(|x| !x.trim().is_empty()).map(|x| hex::decode(x.trim()).unwrap_or_default()).collect();
                }
            }
        }
        res.count("witness_programs");
        let sig = format!("witness:{name}");
        let replay = json!({"witness": name});
        'profiles: for profile in Profile::BOTH {
            res.evaluations += 1;
            match catch(AssertUnwindSafe(|| am.compile("gencase", &src, profile))) {
                Ok(Ok(c)) => {
                    for (data, ret, logs) in &runs {
                        let obs = run_script(&c.pkg.bytecode.bytes, data);
                        let ok = matches!(&obs.outcome, Outcome::ReturnData(b) if b == ret) && obs.logs.iter().map(|l| l.1.clone()).collect::<Vec<_>>() == *logs;
                        if !ok {
                            res.violation(sig.clone(), format!("[{} witness {name}] expected return {} logs [{}], observed {}", profile.name(), hex::encode(ret), logs.iter().map(hex::encode).collect::<Vec<_>>().join(","), obs.short()), replay.clone());
                            am.remove(&c);
                            break 'profiles;
                        }
                    }
                    res.count("witness_runs_as_expected");
                    am.remove(&c);
                }
                _ => {
                    let dir = am.last_dir();
                    let msg = first_error_text(am, &dir, profile);
                    let _ = std::fs::remove_dir_all(&dir);
                    res.violation(sig.clone(), format!("[{} witness {name}] does not compile: {}", profile.name(), msg.chars().take(160).collect::<String>()), replay.clone());
                    break 'profiles;
                }
            }
        }
    }
}

fn shard(ctx: &ShardCtx) -> ShardResult {
    let mut res = ShardResult::default();
    let mut am = Amortised::new(&ctx.work());
    if let Err(e) = am.warm() {
        res.harness_fault = Some(format!("std does not compile: {e}"));
        return res;
    }
    let mut i = ctx.first_index;
    let clock = ctx.clock();
    // part (c): fixed witness programs of compiler defects found by this monitor (open findings
    // whose shape the generator avoids, and repaired ones as regression witnesses)
    if ctx.first_index == 0 && ctx.shard == 0 {
        run_witnesses(&mut am, &mut res);
    }
    // part (b): e2e 'run' tests against the maintainers' expected results (a seed-rotated slice
    // in quick, as many as fit into a third of the budget; all of them in thorough)
    if ctx.first_index == 0 {
        match crate::e2e::prepare("C01") {
            Ok(root) => {
                let all = crate::e2e::list_run_tests(&root);
                let mine = crate::e2e::slice_for(&all, ctx.seed, ctx.shard, ctx.nshards);
                for t in mine {
                    if clock.elapsed() > ctx.budget.mul_f64(ctx.tier.pick(0.3, 0.45)) {
                        break;
                    }
                    let Some(expected) = t.expected.clone() else { continue };
                    for profile in Profile::BOTH {
                        if t.unsupported_profiles.iter().any(|p| p == profile.name()) {
                            continue;
                        }
                        ctx.begin_case(0, &format!("e2e {}", t.name), &res);
                        let built = catch(AssertUnwindSafe(|| plain_build(&t.dir, profile)));
                        ctx.end_case();
                        match built {
                            Ok(Ok(p)) => {
                                res.evaluations += 1;
                                res.count("e2e_tests_run");
                                let obs = run_script(&p.bytecode.bytes, &t.script_data);
                                // a VM panic ends the script with Revert(0) for the purposes of the e2e expectation
                                let outcome = match &obs.outcome {
                                    Outcome::Panic(_) => Outcome::Revert(0),
                                    o => o.clone(),
                                };
                                if expected.matches(&outcome) {
                                    res.count("e2e_expected_result_matched");
                                    res.note_nontrivial(hash64(format!("{}{}", t.name, profile.name()).as_bytes()));
                                } else {
                                    res.violation(format!("e2e-expected-result-differs:{}:{}", t.name, profile.name()), format!("e2e test {} ({}): maintainers expect {:?}, observed {}", t.name, profile.name(), expected, obs.short()), json!({"e2e": t.name}));
                                }
                            }
                            _ => {
                                res.count("e2e_build_failed");
                                res.inconclusive(format!("e2e test {} does not build here ({})", t.name, profile.name()));
                            }
                        }
                    }
                }
            }
            Err(e) => res.inconclusive(format!("e2e corpus copy failed: {e}")),
        }
    }
    while clock.left() {
        let case = case_at(ctx.seed, ctx.shard, i, 12, &mut res);
        journal_current(ctx, &case.src);
        ctx.begin_case(i, &format!("// origin: {:?}\n{}", case.origin, case.src), &res);
        run_case(&mut am, &case, &mut res, i == 1);
        ctx.end_case();
        i += 1;
        if i % 20 == 0 {
            write_partial(ctx, &res);
        }
    }
    res
}

fn replay(case: &Value) -> ShardResult {
    // regenerate the recorded case (needed for the dead-UB arbitration) and run it again
    let mut res = ShardResult::default();
    if let Some(name) = case.get("witness").and_then(|x| x.as_str()) {
        let work = work_dir("C01").join("replay");
        clean_dir(&work);
        let mut am = Amortised::new(&work);
        let mut all = ShardResult::default();
        run_witnesses(&mut am, &mut all);
        res.evaluations = all.evaluations;
        res.violations = all.violations.into_iter().filter(|v| v.signature == format!("witness:{name}")).collect();
        return res;
    }
    if let Some(name) = case.get("e2e").and_then(|x| x.as_str()) {
        if let Ok(root) = crate::e2e::prepare("C01") {
            if let Some(t) = crate::e2e::list_run_tests(&root).into_iter().find(|t| t.name == name) {
                for profile in Profile::BOTH {
                    if let (Ok(Ok(p)), Some(expected)) = (catch(AssertUnwindSafe(|| plain_build(&t.dir, profile))), t.expected.clone()) {
                        res.evaluations += 1;
                        let obs = run_script(&p.bytecode.bytes, &t.script_data);
                        let outcome = match &obs.outcome {
                            Outcome::Panic(_) => Outcome::Revert(0),
                            o => o.clone(),
                        };
                        if !expected.matches(&outcome) {
                            res.violation(format!("e2e-expected-result-differs:{}:{}", t.name, profile.name()), format!("maintainers expect {:?}, observed {}", expected, obs.short()), case.clone());
                        }
                    }
                }
            }
        }
        return res;
    }
    let work = work_dir("C01").join("replay");
    clean_dir(&work);
    let mut am = Amortised::new(&work);
    match case_from_replay(case) {
        Some(c) => run_case(&mut am, &c, &mut res, false),
        None => res.harness_fault = Some("the generator no longer reproduces the recorded program; use `swverif probe` on the recorded source".into()),
    }
    res
}

/// `swverif probe <file.sw> [hex script data]...` : compile a script in both profiles and print what the VM does
/// `swverif reduce <seed> <shard> <index> <n_inputs> <ice|mismatch|diff> [message fragment]`
/// triage tool: shrink the generated case while it still shows the behaviour, print the source
fn reduce_cmd(args: &[String]) -> i32 {
    let n: Vec<u64> = args[1..5].iter().map(|s| s.parse().expect("number")).collect();
    let kind = args[5].clone();
    let frag = args.get(6).cloned().unwrap_or_default();
    let mut scratch = ShardResult::default();
    let case = case_at(n[0], n[1], n[2], n[3] as usize, &mut scratch);
    let work = work_dir(&format!("reduce{}", std::process::id()));
    clean_dir(&work);
    let mut am = Amortised::new(&work);
    am.warm().expect("std");
    let inputs = case.inputs.clone();
    let mode = case.mode;
    let origin = case.origin;
    let mut interesting = |p: &crate::swgen::Program| -> bool {
        let src = crate::swgen::print_program(p);
        let mut expected = vec![];
        let mut script_data = vec![];
        for (sel, a) in &inputs {
            let r = catch(AssertUnwindSafe(|| crate::swgen::Interp::run(p, *sel, a)));
            match r {
                Ok((o, _)) => expected.push(o),
                Err(_) => return false,
            }
            script_data.push(crate::swgen::script_data(p, *sel, a));
        }
        let c = Case { mode, program: p.clone(), src: src.clone(), inputs: inputs.clone(), script_data, expected, origin };
        let mut res = ShardResult::default();
        match kind.as_str() {
            "ice" => {
                for profile in Profile::BOTH {
                    if let Ok(Err(_)) = catch(AssertUnwindSafe(|| am.compile("gencase", &src, profile))) {
                        let dir = am.last_dir();
                        let msg = first_error_text(&mut am, &dir, profile);
                        let _ = std::fs::remove_dir_all(&dir);
                        if msg.contains(&frag) {
                            return true;
                        }
                    } else {
                        let _ = std::fs::remove_dir_all(am.last_dir());
                    }
                }
                false
            }
            "panic" => {
                for profile in Profile::BOTH {
                    let r = catch(AssertUnwindSafe(|| am.compile("gencase", &src, profile)));
                    let _ = std::fs::remove_dir_all(am.last_dir());
                    if let Err((loc, msg)) = r {
                        if format!("{loc} {msg}").contains(&frag) {
                            return true;
                        }
                    }
                }
                false
            }
            "hang" => {
                // compile in a child process with a time limit (std compile ~3 s + the program)
                let f = work_dir(&format!("reduce{}", std::process::id())).join("hang_candidate.sw");
                let _ = std::fs::write(&f, &src);
                let limit: u64 = frag.parse().unwrap_or(25);
                let mut child = match std::process::Command::new(std::env::current_exe().unwrap()).arg("compile-one").arg("release").arg(&f).stdout(std::process::Stdio::null()).stderr(std::process::Stdio::null()).spawn() {
                    Ok(c) => c,
                    Err(_) => return false,
                };
                let t0 = std::time::Instant::now();
                loop {
                    match child.try_wait() {
                        Ok(Some(_)) => return false,
                        Ok(None) => {
                            if t0.elapsed().as_secs() > limit {
                                let _ = child.kill();
                                let _ = child.wait();
                                return true;
                            }
                            std::thread::sleep(std::time::Duration::from_millis(100));
                        }
                        Err(_) => return false,
                    }
                }
            }
            "mismatch" => {
                run_case(&mut am, &c, &mut res, false);
                res.violations.iter().any(|v| v.signature != OOB_SIG)
            }
            "diff" => {
                crate::c02::gen_pair(&mut am, &c, &mut res);
                !res.violations.is_empty()
            }
            _ => false,
        }
    };
    if !interesting(&case.program) {
        println!("the original case does not show the behaviour");
        return 1;
    }
    let reduced = crate::reduce::reduce(case.program.clone(), &mut interesting, 1500);
    println!("{}", crate::swgen::print_program(&reduced));
    0
}

fn subcommand(args: &[String]) -> Option<i32> {
    if args.first().map(|s| s.as_str()) == Some("reduce") {
        return Some(reduce_cmd(args));
    }
    if args.first().map(|s| s.as_str()) == Some("forc-test") {
        // `swverif forc-test <package dir> [debug|release]`: run a package's unit tests with the real
        // forc-test flow and print every test's verdict (used to confirm seeded-change demonstrations)
        let profile = if args.get(2).map(|s| s.as_str()) == Some("release") { Profile::Release } else { Profile::Debug };
        match run_unit_tests(std::path::Path::new(&args[1]), profile, 1, None) {
            Ok(r) => {
                for t in &r.tests {
                    println!("{} {} ({})", if t.passed { "PASS" } else { "FAIL" }, t.name, match &t.outcome { Outcome::Revert(c) => format!("revert {c:#x}"), Outcome::Panic(p) => format!("panic {p}"), _ => "returned".into() });
                }
                println!("{} passed, {} failed", r.tests.iter().filter(|t| t.passed).count(), r.tests.iter().filter(|t| !t.passed).count());
            }
            Err(e) => println!("build failed: {e}"),
        }
        return Some(0);
    }
    if args.first().map(|s| s.as_str()) == Some("compile-one") {
        // `swverif compile-one <debug|release> <file.sw>`: compile one script (child of the hang reducer)
        let profile = if args[1] == "release" { Profile::Release } else { Profile::Debug };
        let src = std::fs::read_to_string(&args[2]).expect("read source");
        let work = work_dir("compile_one").join(format!("{}", std::process::id()));
        clean_dir(&work);
        let mut am = Amortised::new(&work);
        let r = am.compile("gencase", &src, profile);
        println!("{}", if r.is_ok() { "OK" } else { "ERR" });
        let _ = std::fs::remove_dir_all(&work);
        return Some(0);
    }
    if args.first().map(|s| s.as_str()) != Some("probe") {
        return None;
    }
    let src = std::fs::read_to_string(&args[1]).expect("read source");
    let work = work_dir("probe");
    clean_dir(&work);
    let mut am = Amortised::new(&work);
    for profile in Profile::BOTH {
        match am.compile("gencase", &src, profile) {
            Err(e) => {
                let dir = am.last_dir();
                println!("{}: compile failed: {e}: {}", profile.name(), first_error_text(&mut am, &dir, profile));
            }
            Ok(c) => {
                let datas: Vec<Vec<u8>> = if args.len() > 2 { args[2..].iter().map(|h| hex::decode(h).expect("hex")).collect() } else { vec![vec![]] };
                for d in datas {
                    println!("{} {} -> {}", profile.name(), hex::encode(&d), run_script(&c.pkg.bytecode.bytes, &d).short());
                }
            }
        }
    }
    Some(0)
}
