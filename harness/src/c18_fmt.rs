//! Shared machinery of C18 (swayfmt idempotence) and C19 (token / comment preservation).
//!
//! * corpus: every `.sw` below /repo (not `target/`, not `.git/`), repo-relative, sorted;
//! * configs: a FIXED list of formatter configurations (only options the formatter reads);
//! * variants: a FIXED list of deterministic text rewrites of a corpus file that keep its token
//!   sequence (whitespace re-flow, blank lines, CRLF, comments put into existing whitespace gaps);
//! * the case list is the fixed enumeration  corpus x (configs with the identity variant  +
//!   variants with the default config); VERIF_SEED only permutes / slices it;
//! * lexing helpers: leaf segments, token trees, comment lists, the C19 normalisation.
use crate::common::*;
use serde_json::{json, Value};
use std::panic::AssertUnwindSafe;
use sway_ast::token::{CommentedTokenStream, CommentedTokenTree, CommentedTree};
use sway_ast::Literal;
use sway_types::Spanned;
use swayfmt::config::heuristics::HeuristicsPreferences;
use swayfmt::config::manifest::Config;
use swayfmt::config::user_def::FieldAlignment;
use swayfmt::config::whitespace::NewlineStyle;
use swayfmt::{Formatter, FormatterError};

// ------------------------------------------------------------------------------------------
// corpus

pub fn corpus() -> Vec<String> {
    let mut out = vec![];
    let it = walkdir::WalkDir::new(REPO).follow_links(false).into_iter().filter_entry(|e| {
        let n = e.file_name().to_string_lossy();
        !(e.file_type().is_dir() && (n == "target" || n == ".git"))
    });
    for e in it.filter_map(|e| e.ok()) {
        if e.file_type().is_file() && e.path().extension().map(|x| x == "sw").unwrap_or(false) {
            if let Ok(rel) = e.path().strip_prefix(REPO) {
                out.push(rel.to_string_lossy().to_string());
            }
        }
    }
    out.sort();
    out
}

pub fn read_corpus_file(rel: &str) -> Option<String> {
    if let Some(b) = BUILTINS.iter().find(|b| b.0 == rel) {
        return Some(b.2.to_string());
    }
    std::fs::read_to_string(std::path::Path::new(REPO).join(rel)).ok()
}

/// Built-in witnesses `(pseudo path, config, text)`: minimal inputs for formatter defects that
/// are SYSTEMATIC (they hit a whole class of inputs, so the corpus sweep is calibrated to stay
/// away from them instead of listing hundreds of files). Each is an individually listed known
/// finding; they run in every tier on shard 0.
pub const BUILTINS: &[(&str, &str, &str)] = &[
    ("builtin:align_fields_strips_field_docs", "align_fields40", "library;\n\npub struct Product {\n    /// Some information about field 1\n    field1: u64,\n    /// Some information about field 2\n    second_field: bool,\n}\n"),
    ("builtin:windows_newlines_second_pass", "newline_windows", "library;\n\nfn a() -> u64 {\n    let x = 1;\n\n    x\n}\n\nfn b() {}\n"),
    ("builtin:comment_inside_use_lost", "default", "library;\n\nuse /* why */ std::hash::Hash;\nuse std::{\n    // the asset id\n    asset_id::AssetId,\n    bytes::Bytes,\n};\n\nfn a() {}\n"),
    ("builtin:comment_after_mod_keyword_lost", "default", "library;\n\nmod /* the inner module */ inner;\n"),
    ("builtin:comment_in_empty_storage_lost", "default", "contract;\n\nstorage {\n    // nothing yet\n}\n"),
    ("builtin:blank_line_after_trait_type", "default", "library;\n\ntrait T {\n    type Item;\n\n    fn f(self) -> Self::Item;\n}\n"),
    ("builtin:enum_where_clause_dropped", "default", "library;\n\ntrait MyAdd {\n    fn my_add(self, other: Self) -> Self;\n}\n\nenum MyEnum<T>\nwhere\n    T: MyAdd,\n{\n    X: T,\n}\n"),
    ("builtin:escaped_backslash_in_string_changes_value", "default", "script;\n\nfn main() {\n    let b = \"a\\\\nb\";\n}\n"),
    ("builtin:comment_before_configurable_field_lost", "default", "contract;\n\nconfigurable {\n    C: u64 = 0,\n    // the d\n    D: u64 = 1,\n}\n"),
    ("builtin:comment_in_array_literal", "default", "library;\n\nfn a() {\n    let arr = [\n        1,\n        // two\n        2,\n    ];\n}\n"),
    ("builtin:block_comments_glued_on_second_pass", "default", "library;\n\nabi A {\n    fn in_bool(v: bool) -> bool; /* END BOOL */\n\n    /* START U8 */\n    fn in_u8(v: u8) -> u8;\n}\n"),
    ("builtin:raw_identifier_in_use_loses_prefix", "default", "library;\n\nmod r#trait;\n\nuse r#trait::Trait;\n"),
];

// ------------------------------------------------------------------------------------------
// configs (index 0 is the default config)

pub const CONFIGS: &[&str] = &[
    "default",
    "width60",
    "width80",
    "width120",
    "tab2",
    "hardtabs",
    "heur_max",
    "heur_off",
    "align_fields40",
    "no_small_struct_line",
    "newline_threshold2",
    "newline_windows",
];

pub fn config_by_name(name: &str) -> Option<Config> {
    let mut c = Config::default();
    match name {
        "default" => {}
        "width60" => c.whitespace.max_width = 60,
        "width80" => c.whitespace.max_width = 80,
        "width120" => c.whitespace.max_width = 120,
        "tab2" => c.whitespace.tab_spaces = 2,
        "hardtabs" => c.whitespace.hard_tabs = true,
        "heur_max" => c.heuristics.heuristics_pref = HeuristicsPreferences::Max,
        "heur_off" => c.heuristics.heuristics_pref = HeuristicsPreferences::Off,
        "align_fields40" => c.structures.field_alignment = FieldAlignment::AlignFields(40),
        "no_small_struct_line" => c.structures.small_structures_single_line = false,
        "newline_threshold2" => c.whitespace.newline_threshold = 2,
        "newline_windows" => c.whitespace.newline_style = NewlineStyle::Windows,
        _ => return None,
    }
    Some(c)
}

// ------------------------------------------------------------------------------------------
// running the formatter

#[derive(Debug, Clone)]
pub enum FmtOut {
    Ok(String),
    /// the formatter's own parser rejected the text
    ParseRejected(String),
    /// the text parsed but the formatter returned another error
    OtherError(String),
    Panic(String, String),
}

pub fn run_fmt(text: &str, cfg: &Config) -> FmtOut {
    let cfg = cfg.clone();
    let r = catch(AssertUnwindSafe(|| {
        let mut f = Formatter::default();
        f.config = cfg;
        f.format(sway_types::span::Source::new(text))
    }));
    match r {
        Ok(Ok(s)) => FmtOut::Ok(s),
        Ok(Err(FormatterError::ParseFileError(e))) => FmtOut::ParseRejected(e.to_string().chars().take(200).collect()),
        Ok(Err(e)) => FmtOut::OtherError(e.to_string()),
        Err((loc, msg)) => FmtOut::Panic(loc, msg),
    }
}

/// Does the text parse with sway-parse (no errors emitted)?
pub fn parses(text: &str) -> Result<(), String> {
    let r = catch(AssertUnwindSafe(|| swayfmt::parse::parse_file(sway_types::span::Source::new(text), Default::default()).map(|_| ())));
    match r {
        Ok(Ok(())) => Ok(()),
        Ok(Err(e)) => Err(e.to_string().chars().take(300).collect()),
        Err((loc, msg)) => Err(format!("parser panicked at {loc}: {msg}")),
    }
}

// ------------------------------------------------------------------------------------------
// lexing: leaf segments, token tree, comments

#[derive(Clone, Copy, Debug, PartialEq, Eq)]
pub enum SegKind {
    Token,
    /// `//` comment or `///`, `//!` doc comment: runs to the end of the line
    LineComment,
    BlockComment,
}

#[derive(Clone, Debug)]
pub struct Seg {
    pub start: usize,
    pub end: usize,
    pub kind: SegKind,
}

/// Token tree without comments and without spans; literals by value.
#[derive(Clone, Debug, PartialEq, Eq, PartialOrd, Ord)]
pub enum T {
    P(char),
    I(String),
    L(String),
    Doc(String),
    G(char, Vec<T>),
}

pub struct Lexed {
    pub segs: Vec<Seg>,
    pub tree: Vec<T>,
    pub comments: Vec<String>,
    pub literal_texts: Vec<String>,
}

fn close_of(open: char) -> char {
    match open {
        '(' => ')',
        '[' => ']',
        _ => '}',
    }
}

fn lit_value(l: &Literal) -> String {
    match l {
        Literal::String(s) => format!("str:{:?}", s.parsed),
        Literal::Char(c) => format!("char:{:?}", c.parsed),
        Literal::Int(i) => format!("int:{}:{}", i.parsed, i.ty_opt.as_ref().map(|(t, _)| format!("{t:?}")).unwrap_or_default()),
        Literal::Bool(b) => format!("bool:{:?}", b.kind),
    }
}

fn walk(ts: &CommentedTokenStream, segs: &mut Vec<Seg>, comments: &mut Vec<String>, lits: &mut Vec<String>) -> Vec<T> {
    let mut out = vec![];
    for tt in ts.token_trees() {
        match tt {
            CommentedTokenTree::Comment(c) => {
                let s = c.span.as_str();
                let kind = if s.starts_with("//") { SegKind::LineComment } else { SegKind::BlockComment };
                segs.push(Seg { start: c.span.start(), end: c.span.end(), kind });
                comments.push(s.to_string());
            }
            CommentedTokenTree::Tree(t) => match t {
                CommentedTree::Punct(p) => {
                    segs.push(Seg { start: p.span.start(), end: p.span.end(), kind: SegKind::Token });
                    out.push(T::P(p.kind.as_char()));
                }
                CommentedTree::Ident(i) => {
                    let sp = i.span();
                    // a raw identifier `r#name` has the span of `name` only
                    let src = &sp.src().text;
                    let start = if sp.start() >= 2 && &src[sp.start() - 2..sp.start()] == "r#" { sp.start() - 2 } else { sp.start() };
                    segs.push(Seg { start, end: sp.end(), kind: SegKind::Token });
                    out.push(T::I(src[start..sp.end()].to_string()));
                }
                CommentedTree::Literal(l) => {
                    let sp = l.span();
                    let mut end = sp.end();
                    if let Literal::Int(i) = l {
                        if let Some((_, tsp)) = &i.ty_opt {
                            end = end.max(tsp.end());
                        }
                    }
                    segs.push(Seg { start: sp.start(), end, kind: SegKind::Token });
                    lits.push(sp.src().text[sp.start()..end].to_string());
                    out.push(T::L(lit_value(l)));
                }
                CommentedTree::DocComment(d) => {
                    segs.push(Seg { start: d.span.start(), end: d.span.end(), kind: SegKind::LineComment });
                    out.push(T::Doc(d.span.as_str().trim_end().to_string()));
                }
                CommentedTree::Group(g) => {
                    let open = g.delimiter.as_open_char();
                    segs.push(Seg { start: g.span.start(), end: g.span.start() + 1, kind: SegKind::Token });
                    let inner = walk(&g.token_stream, segs, comments, lits);
                    segs.push(Seg { start: g.span.end() - 1, end: g.span.end(), kind: SegKind::Token });
                    out.push(T::G(open, inner));
                }
            },
        }
    }
    out
}

pub fn lex(text: &str) -> Result<Lexed, String> {
    let r = catch(AssertUnwindSafe(|| swayfmt::parse::lex(sway_types::span::Source::new(text))));
    let ts = match r {
        Ok(Ok(ts)) => ts,
        Ok(Err(e)) => return Err(e.to_string().chars().take(300).collect()),
        Err((loc, msg)) => return Err(format!("lexer panicked at {loc}: {msg}")),
    };
    let mut segs = vec![];
    let mut comments = vec![];
    let mut lits = vec![];
    let tree = walk(&ts, &mut segs, &mut comments, &mut lits);
    // sanity: segments are ordered, disjoint, and everything between them is whitespace
    let mut pos = 0usize;
    for s in &segs {
        if s.start < pos || s.end > text.len() || s.end < s.start || !text.is_char_boundary(s.start) || !text.is_char_boundary(s.end) {
            return Err("harness: token segments are not ordered/disjoint".into());
        }
        if !text[pos..s.start].chars().all(char::is_whitespace) {
            return Err("harness: non-whitespace text between token segments".into());
        }
        pos = s.end;
    }
    if !text[pos..].chars().all(char::is_whitespace) {
        return Err("harness: non-whitespace text after the last token segment".into());
    }
    Ok(Lexed { segs, tree, comments, literal_texts: lits })
}

pub fn count_leaves(ts: &[T]) -> usize {
    ts.iter()
        .map(|t| match t {
            T::G(_, inner) => 2 + count_leaves(inner),
            _ => 1,
        })
        .sum()
}

pub fn flatten(ts: &[T], out: &mut Vec<String>) {
    for t in ts {
        match t {
            T::P(c) => out.push(c.to_string()),
            T::I(s) => out.push(s.clone()),
            T::L(s) => out.push(s.clone()),
            T::Doc(s) => out.push(s.clone()),
            T::G(o, inner) => {
                out.push(o.to_string());
                flatten(inner, out);
                out.push(close_of(*o).to_string());
            }
        }
    }
}

// ------------------------------------------------------------------------------------------
// C19 normalisation of the token tree (the ONLY differences tolerated; see c19.rs for the why)

#[derive(Default, Clone, Debug)]
pub struct NormStats {
    pub trailing_commas: u64,
    pub single_import_braces: u64,
    pub use_groups_sorted: u64,
    pub where_commas: u64,
    pub type_parens: u64,
}

fn flat_string(ts: &[T]) -> String {
    let mut v = vec![];
    flatten(ts, &mut v);
    v.join(" ")
}

/// normalise a `{..}` group of a `use` tree: items sorted (multiset comparison), braces of a
/// single item dropped
fn norm_use_group(inner: Vec<T>, st: &mut NormStats) -> Vec<T> {
    let mut items: Vec<Vec<T>> = vec![];
    let mut cur = vec![];
    for t in inner {
        match t {
            T::P(',') => items.push(std::mem::take(&mut cur)),
            T::G('{', g) => {
                let n = norm_use_group(g, st);
                cur.extend(n);
            }
            other => cur.push(other),
        }
    }
    if !cur.is_empty() {
        items.push(cur);
    }
    if items.len() == 1 {
        st.single_import_braces += 1;
        return items.pop().unwrap();
    }
    let before: Vec<String> = items.iter().map(|i| flat_string(i)).collect();
    items.sort_by_key(|i| flat_string(i));
    let after: Vec<String> = items.iter().map(|i| flat_string(i)).collect();
    if before != after {
        st.use_groups_sorted += 1;
    }
    let mut g = vec![];
    for (k, it) in items.into_iter().enumerate() {
        if k > 0 {
            g.push(T::P(','));
        }
        g.extend(it);
    }
    vec![T::G('{', g)]
}

pub fn normalise(ts: Vec<T>, st: &mut NormStats) -> Vec<T> {
    norm_stream(ts, st, false)
}

/// a `,` that is not nested in `<..>` generic arguments (only used on candidate types)
fn has_top_level_comma(ts: &[T]) -> bool {
    let mut depth = 0i32;
    for (k, t) in ts.iter().enumerate() {
        match t {
            T::P('<') => depth += 1,
            T::P('>') if k == 0 || !matches!(ts[k - 1], T::P('-') | T::P('=')) => depth -= 1,
            T::P(',') if depth <= 0 => return true,
            _ => {}
        }
    }
    false
}

/// `structures.field_alignment = AlignFields(n)` is documented in the formatter source to strip
/// the annotations (attributes, doc comments) of struct / enum / storage / configurable fields
/// ("TODO: Handle annotations instead of stripping them", FuelLabs/sway issue 6802) and it does
/// not print storage `in` keys. The align_fields40 configuration is therefore only applied to
/// files whose field lists carry none of these; the defect itself is shown by the built-in
/// witness `builtin:align_fields_strips_field_docs`.
pub fn field_lists_have_annotations(ts: &[T]) -> bool {
    fn body_has(ts: &[T]) -> bool {
        ts.iter().any(|t| match t {
            T::Doc(_) | T::P('#') => true,
            T::I(s) if s == "in" => true,
            T::G('{', inner) => body_has(inner),
            _ => false,
        })
    }
    let mut seen: Vec<&T> = vec![];
    for t in ts {
        if let T::G(o, inner) = t {
            if *o == '{' {
                let mut is_field_list = false;
                for p in seen.iter().rev() {
                    match p {
                        T::P(';') | T::G('{', _) => break,
                        T::I(s) if matches!(s.as_str(), "enum" | "struct" | "storage" | "configurable") => {
                            is_field_list = true;
                            break;
                        }
                        _ => {}
                    }
                }
                if is_field_list && body_has(inner) {
                    return true;
                }
            }
            if field_lists_have_annotations(inner) {
                return true;
            }
        }
        seen.push(t);
    }
    false
}

/// does the `{` group that would follow `out` belong to a `struct` / `enum` declaration?
fn opens_decl_body(out: &[T]) -> bool {
    for t in out.iter().rev() {
        match t {
            T::P(';') | T::G('{', _) => return false,
            T::I(s) if s == "enum" || s == "struct" => return true,
            _ => {}
        }
    }
    false
}

/// `decl_body`: the stream is the body of a struct / enum declaration (`name: Type,` entries)
fn norm_stream(ts: Vec<T>, st: &mut NormStats, decl_body: bool) -> Vec<T> {
    let mut out: Vec<T> = Vec::with_capacity(ts.len());
    let mut in_use = false;
    let mut in_where = false;
    for t in ts {
        match t {
            T::I(ref s) if s == "use" => {
                in_use = true;
                out.push(t);
            }
            T::I(ref s) if s == "where" => {
                in_where = true;
                out.push(t);
            }
            T::P(';') => {
                if in_where && matches!(out.last(), Some(T::P(','))) {
                    out.pop();
                    st.where_commas += 1;
                }
                in_use = false;
                in_where = false;
                out.push(t);
            }
            T::G('{', inner) if in_use => {
                let n = norm_use_group(inner, st);
                out.extend(n);
            }
            T::G(o, inner) => {
                let mut child_is_decl_body = false;
                if o == '{' {
                    if in_where {
                        if matches!(out.last(), Some(T::P(','))) {
                            out.pop();
                            st.where_commas += 1;
                        }
                        in_where = false;
                    }
                    child_is_decl_body = opens_decl_body(&out);
                }
                // `(T)` in a type position is the type `T` for the parser (sway-parse/src/ty/mod.rs
                // returns the inner type, no AST node keeps the parentheses), so swayfmt prints `T`.
                // Type positions recognised: after `->`, after `:` in a struct / enum declaration
                // body, first generic argument after `::<`.
                if o == '(' && !inner.is_empty() && !has_top_level_comma(&inner) {
                    let k = out.len();
                    let after_arrow = k >= 2 && out[k - 1] == T::P('>') && out[k - 2] == T::P('-');
                    let after_decl_colon = decl_body && k >= 1 && out[k - 1] == T::P(':');
                    let after_turbofish = k >= 3 && out[k - 1] == T::P('<') && out[k - 2] == T::P(':') && out[k - 3] == T::P(':');
                    if after_arrow || after_decl_colon || after_turbofish {
                        st.type_parens += 1;
                        out.extend(norm_stream(inner, st, false));
                        continue;
                    }
                }
                let mut n = norm_stream(inner, st, child_is_decl_body);
                if matches!(n.last(), Some(T::P(','))) {
                    n.pop();
                    st.trailing_commas += 1;
                }
                out.push(T::G(o, n));
            }
            other => out.push(other),
        }
    }
    out
}

/// comment text as compared by C19: line ends normalised, trailing whitespace of every line
/// dropped (whitespace is not part of the property)
pub fn norm_comment(c: &str) -> String {
    c.replace("\r\n", "\n").split('\n').map(|l| l.trim_end()).collect::<Vec<_>>().join("\n")
}

// ------------------------------------------------------------------------------------------
// variants (index 0 is the identity)

pub const VARIANTS: &[&str] = &[
    "identity",
    "crlf",
    "ws_oneline",
    "ws_newline_all",
    "blank_double",
    "blank_strip",
    "tabs_trailing_ws",
    "cmt_line",
    "cmt_trailing",
    "cmt_block",
];

/// Rewrite the gaps between leaf segments. `f(gap_text, prev, next, gap_no)` returns the new gap.
fn rewrite_gaps(text: &str, lx: &Lexed, mut f: impl FnMut(&str, Option<&Seg>, Option<&Seg>, usize) -> String) -> String {
    let mut out = String::with_capacity(text.len() + text.len() / 4);
    let mut pos = 0usize;
    let n = lx.segs.len();
    for k in 0..=n {
        let (gs, ge) = if k < n { (pos, lx.segs[k].start) } else { (pos, text.len()) };
        let gap = &text[gs..ge];
        let prev = if k > 0 { Some(&lx.segs[k - 1]) } else { None };
        let next = if k < n { Some(&lx.segs[k]) } else { None };
        if gap.is_empty() {
            // adjacent tokens stay adjacent (jointness of punctuation is lexically relevant)
        } else {
            let mut g = f(gap, prev, next, k);
            if g.is_empty() {
                g = gap.to_string();
            }
            if let Some(p) = prev {
                if p.kind == SegKind::LineComment && !g.starts_with('\n') && !g.starts_with("\r\n") {
                    g.insert(0, '\n');
                }
            }
            out.push_str(&g);
        }
        if k < n {
            out.push_str(&text[lx.segs[k].start..lx.segs[k].end]);
            pos = lx.segs[k].end;
        }
    }
    out
}

fn seg_text<'a>(text: &'a str, s: Option<&Seg>) -> &'a str {
    s.map(|s| &text[s.start..s.end]).unwrap_or("")
}

/// Build variant `name` of `text`. None = not applicable (does not lex, or no change).
pub fn make_variant(name: &str, text: &str, lx: &Lexed) -> Option<String> {
    let v = match name {
        "identity" => return Some(text.to_string()),
        "crlf" => {
            if text.contains('\r') {
                return None;
            }
            text.replace('\n', "\r\n")
        }
        "ws_oneline" => rewrite_gaps(text, lx, |_g, _p, _n, _k| " ".to_string()),
        "ws_newline_all" => rewrite_gaps(text, lx, |_g, _p, _n, _k| "\n".to_string()),
        // one more blank line after every line that ends a statement / item / field / comment
        "blank_double" => rewrite_gaps(text, lx, |g, p, n, _k| {
            let line_end = p.map(|p| p.kind != SegKind::Token).unwrap_or(false) || matches!(seg_text(text, p), ";" | "}" | "{" | ",");
            match g.find('\n') {
                Some(i) if line_end && seg_text(text, n) != "else" => format!("{}\n{}", &g[..=i], &g[i + 1..]),
                _ => g.to_string(),
            }
        }),
        "blank_strip" => rewrite_gaps(text, lx, |g, _p, _n, _k| {
            if g.matches('\n').count() >= 2 {
                let last = g.rfind('\n').unwrap();
                g[last..].to_string()
            } else {
                g.to_string()
            }
        }),
        "tabs_trailing_ws" => rewrite_gaps(text, lx, |g, _p, _n, _k| match g.rfind('\n') {
            Some(last) => {
                let indent = &g[last + 1..];
                let tabs = "\t".repeat(indent.chars().filter(|c| *c == ' ').count() / 4 + indent.chars().filter(|c| *c == '\t').count());
                let nl = g.matches('\n').count();
                format!("{}{}", "  \n".repeat(nl), tabs)
            }
            None => g.to_string(),
        }),
        // a `// vcN` comment on a line of its own, in gaps that already hold a line break
        "cmt_line" => {
            let mut n = 0;
            rewrite_gaps(text, lx, |g, p, nx, _k| {
                if !g.contains('\n') || !boundary_ok_line(seg_text(text, p), seg_text(text, nx), p, nx) {
                    return g.to_string();
                }
                n += 1;
                let last = g.rfind('\n').unwrap();
                let indent = &g[last + 1..];
                format!("{}{}// vc{}\n{}", &g[..=last], indent, n, indent)
            })
        }
        // a `// vtN` comment at the end of a code line
        "cmt_trailing" => {
            let mut n = 0;
            rewrite_gaps(text, lx, |g, p, nx, _k| {
                let Some(first) = g.find('\n') else { return g.to_string() };
                if p.map(|p| p.kind != SegKind::Token).unwrap_or(true) || !boundary_ok_trailing(seg_text(text, p), seg_text(text, nx), p, nx) {
                    return g.to_string();
                }
                n += 1;
                format!(" // vt{}{}", n, &g[first..])
            })
        }
        // a `/* vbN */` comment between two tokens on one line
        "cmt_block" => {
            let mut n = 0;
            rewrite_gaps(text, lx, |g, p, nx, _k| {
                if g.contains('\n') || !boundary_ok_block(seg_text(text, p), seg_text(text, nx), p, nx) {
                    return g.to_string();
                }
                n += 1;
                format!(" /* vb{} */ ", n)
            })
        }
        _ => return None,
    };
    if v == text {
        None
    } else {
        Some(v)
    }
}

// Token-boundary classes used for the inserted comments. They are CALIBRATED (subcommand
// `c18-calib2`: a comment in every gap of the corpus, loss counted per (previous, next) token
// class): only classes where the unchanged formatter keeps (nearly) every comment are used.
// Classes where it loses comments systematically (after `,`; after `{` before a field name;
// before a closing `}`; anywhere inside `use`, `mod`, `as`, between `name` and `:` or `=` ...)
// are left out of the corpus sweep; they are documented in the report and in DESIGN.md
// section 6, not enumerated file by file.
fn is_stmt_keyword(c: &str) -> bool {
    matches!(c, "let" | "if" | "while" | "for" | "return" | "match" | "fn" | "pub" | "const" | "use" | "#" | "<doc>" | "break" | "continue" | "impl" | "struct" | "enum" | "trait" | "abi" | "storage" | "configurable" | "type" | "mod")
}

fn boundary_ok_line(prev: &str, next: &str, p: Option<&Seg>, n: Option<&Seg>) -> bool {
    let pc = tok_class(prev, p);
    let nc = tok_class(next, n);
    match pc.as_str() {
        "}" => !matches!(nc.as_str(), "<edge>" | "else" | ")" | "]" | "," | ";" | "."),
        ";" => !matches!(nc.as_str(), "}" | "<lit>" | "<edge>"),
        "<doc>" | "<linecomment>" => !matches!(nc.as_str(), "}" | "<edge>"),
        ")" | "]" => nc != "<edge>",
        "{" => is_stmt_keyword(&nc),
        _ => false,
    }
}

fn boundary_ok_trailing(prev: &str, next: &str, p: Option<&Seg>, n: Option<&Seg>) -> bool {
    let pc = tok_class(prev, p);
    let nc = tok_class(next, n);
    match pc.as_str() {
        "}" => !matches!(nc.as_str(), "else" | "," | ";" | "."),
        ";" => !matches!(nc.as_str(), "}" | "<lit>"),
        ")" | "]" | ">" => true,
        "{" => is_stmt_keyword(&nc),
        _ => false,
    }
}

fn boundary_ok_block(prev: &str, next: &str, p: Option<&Seg>, n: Option<&Seg>) -> bool {
    if p.map(|p| p.kind != SegKind::Token).unwrap_or(true) || n.map(|n| n.kind != SegKind::Token).unwrap_or(true) {
        return false;
    }
    let pc = tok_class(prev, p);
    let nc = tok_class(next, n);
    match pc.as_str() {
        "fn" | "let" | "return" | "if" | "while" | "impl" | "struct" | "enum" | "trait" | "abi" | "match" | "for" | ">" | "<" | "+" | "-" | "&" | "mut" => !matches!(nc.as_str(), ":" | "as" | "*" | "else" | "," | "=" | ";" | ")"),
        "<ident>" => nc == "{",
        _ => false,
    }
}

// ------------------------------------------------------------------------------------------
// the fixed case list

#[derive(Clone, Debug, PartialEq, Eq)]
pub struct CaseId {
    pub file: String,
    pub config: &'static str,
    pub variant: &'static str,
}

impl CaseId {
    pub fn key(&self) -> String {
        format!("{}|{}|{}", self.file, self.config, self.variant)
    }
    pub fn json(&self) -> Value {
        json!({"file": self.file, "config": self.config, "variant": self.variant})
    }
}

/// sub-cases of one file: every config with the identity variant, every variant with the
/// default config
pub fn subcases() -> Vec<(&'static str, &'static str)> {
    let mut v = vec![];
    for c in CONFIGS {
        v.push((*c, VARIANTS[0]));
    }
    for var in &VARIANTS[1..] {
        v.push((CONFIGS[0], *var));
    }
    v
}

pub fn intern_config(s: &str) -> Option<&'static str> {
    CONFIGS.iter().copied().find(|c| *c == s)
}
pub fn intern_variant(s: &str) -> Option<&'static str> {
    VARIANTS.iter().copied().find(|c| *c == s)
}

/// Deterministic permutation of 0..n from the seed (Fisher-Yates on a seeded rng).
pub fn permutation(n: usize, seed: u64) -> Vec<usize> {
    use rand::Rng;
    let mut rng = rng_for(seed, 0xC18C19, 0);
    let mut p: Vec<usize> = (0..n).collect();
    for i in (1..n).rev() {
        let j = rng.gen_range(0..=i);
        p.swap(i, j);
    }
    p
}

/// The files of one shard, in seed-permuted order.
pub fn shard_files(files: &[String], seed: u64, shard: u64, nshards: u64) -> Vec<String> {
    let perm = permutation(files.len(), seed);
    perm.iter().enumerate().filter(|(pos, _)| (*pos as u64) % nshards == shard).map(|(_, &i)| files[i].clone()).collect()
}

/// Which sub-cases the given tier runs for a file: thorough = all; quick = default/identity
/// plus `extra` seed-chosen others.
pub fn tier_subcases(tier: Tier, seed: u64, file: &str, extra: usize) -> Vec<(&'static str, &'static str)> {
    let all = subcases();
    match tier {
        Tier::Thorough => all,
        Tier::Quick => {
            use rand::Rng;
            let mut rng = rng_for(seed, hash64(file.as_bytes()), 1);
            let mut v = vec![all[0]];
            let mut rest: Vec<_> = all[1..].to_vec();
            for _ in 0..extra.min(rest.len()) {
                let j = rng.gen_range(0..rest.len());
                v.push(rest.swap_remove(j));
            }
            v
        }
    }
}

/// first differing line pair of two texts (trimmed), for signatures / descriptions
pub fn first_line_diff(a: &str, b: &str) -> (usize, String, String) {
    let mut ia = a.lines();
    let mut ib = b.lines();
    let mut n = 0;
    loop {
        n += 1;
        match (ia.next(), ib.next()) {
            (Some(x), Some(y)) => {
                if x != y {
                    return (n, x.to_string(), y.to_string());
                }
            }
            (Some(x), None) => return (n, x.to_string(), "<end of text>".into()),
            (None, Some(y)) => return (n, "<end of text>".into(), y.to_string()),
            (None, None) => return (n, "<same lines; line endings differ>".into(), String::new()),
        }
    }
}

pub fn short(s: &str, n: usize) -> String {
    let s = &s.replace(['\n', '\r'], " ");
    let t: String = s.chars().take(n).collect();
    if t.len() < s.len() {
        format!("{t}...")
    } else {
        t
    }
}

/// Run `f` on a thread with a large stack (the formatter and parser recurse on nesting depth).
pub fn on_big_stack<R: Send + 'static>(f: impl FnOnce() -> R + Send + 'static) -> R {
    std::thread::Builder::new().stack_size(512 << 20).spawn(f).expect("spawn").join().expect("worker thread died")
}


// ------------------------------------------------------------------------------------------
// calibration helper (triage only): put a comment of `kind` into EVERY eligible gap, format,
// and report per boundary class (previous token class, next token class) how many of the
// inserted comments were lost.
pub fn tok_class(t: &str, seg: Option<&Seg>) -> String {
    const KW: &[&str] = &["fn", "let", "return", "if", "else", "while", "for", "in", "impl", "struct", "enum", "trait", "abi", "match", "use", "mod", "pub", "const", "storage", "configurable", "where", "as", "mut", "ref", "self", "Self", "type", "asm", "break", "continue", "true", "false", "script", "contract", "library", "predicate", "dep"];
    match seg {
        None => "<edge>".into(),
        Some(s) if s.kind == SegKind::LineComment => if t.starts_with("///") || t.starts_with("//!") { "<doc>".into() } else { "<linecomment>".into() },
        Some(s) if s.kind == SegKind::BlockComment => "<blockcomment>".into(),
        Some(_) => {
            let c = t.chars().next().unwrap_or(' ');
            if KW.contains(&t) {
                t.to_string()
            } else if c.is_alphabetic() || c == '_' && t.len() > 1 {
                "<ident>".into()
            } else if c.is_ascii_digit() || c == '"' || c == '\'' {
                "<lit>".into()
            } else {
                t.to_string()
            }
        }
    }
}

pub fn calib_insert_all(kind: &str, text: &str, lx: &Lexed) -> (String, Vec<(String, String)>) {
    let mut classes = vec![];
    let out = rewrite_gaps(text, lx, |g, p, nx, _k| {
        let pc = tok_class(seg_text(text, p), p);
        let nc = tok_class(seg_text(text, nx), nx);
        let id = classes.len();
        match kind {
            "line" => {
                let Some(last) = g.rfind('\n') else { return g.to_string() };
                if p.is_none() { return g.to_string(); }
                classes.push((pc, nc));
                let indent = &g[last + 1..];
                format!("{}{}// vq{}q\n{}", &g[..=last], indent, id, indent)
            }
            "trailing" => {
                let Some(first) = g.find('\n') else { return g.to_string() };
                if p.map(|p| p.kind != SegKind::Token).unwrap_or(true) { return g.to_string(); }
                classes.push((pc, nc));
                format!(" // vq{}q{}", id, &g[first..])
            }
            _ => {
                if g.contains('\n') || p.map(|p| p.kind == SegKind::LineComment).unwrap_or(true) || nx.is_none() { return g.to_string(); }
                classes.push((pc, nc));
                format!(" /* vq{}q */ ", id)
            }
        }
    });
    (out, classes)
}
