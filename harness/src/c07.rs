//! C07: assembly-level optimisations preserve behaviour.
//! Monitor (hook H2): the same program compiled with the abstract-instruction optimiser fully
//! enabled and with a mask that disables all / some of its seven sub-optimisations; both
//! binaries run on the same inputs, observations compared.
use crate::common::*;
use crate::engine::*;
use crate::swrun::*;
use crate::{Plan, Prop};
use serde_json::{json, Value};
use std::panic::AssertUnwindSafe;

pub static META: PropertyMeta = PropertyMeta {
    id: "C07",
    level: "exploration",
    rule: "SwGen programs (constant-rich and aggregate-heavy modes weighted up) x {debug, release} x asm-optimiser masks {none, each of the 7 sub-optimisations switched off, each alone}; full-optimisation build vs masked build on 10 input vectors; an evaluation = one (program, profile, mask); non-trivial = the masked bytecode differs from the fully optimised one and at least one execution returned normally; distinct = hash of (source, profile, mask)",
    assumptions: &["fuel-vm 0.66 is the trusted execution substrate", "a mask under which the program no longer compiles (e.g. an immediate no longer fits) is inconclusive, counted"],
    floor_evaluations: 100,
    floor_nontrivial: 30,
    required_counters: &["masks_compared", "mask_changed_bytecode", "executions_compared", "mask.none"],
};

pub static PROP: Prop = Prop {
    meta: &META,
    plan: |t| Plan { nshards: 16, budget_s: t.pick(55.0, 540.0), mem_gib: 6 },
    shard,
    replay,
    extra: crate::no_extra,
    subcommand: crate::no_subcommand,
};

const ALL: u32 = 0x7f;
const NAMES: [&str; 7] = ["const_indexing_aggregates", "constant_propagate", "dce", "simplify_cfg", "remove_sequential_jumps", "remove_redundant_moves", "remove_redundant_ops"];

fn masks() -> Vec<(u32, String)> {
    let mut v = vec![(0u32, "none".to_string())];
    for (i, n) in NAMES.iter().enumerate() {
        v.push((ALL ^ (1 << i), format!("without_{n}")));
        v.push((1 << i, format!("only_{n}")));
    }
    v
}

struct MaskGuard;
impl Drop for MaskGuard {
    fn drop(&mut self) {
        sway_core::verif::set_asm_opt_mask(None);
    }
}

fn compile_masked(am: &mut Amortised, src: &str, profile: Profile, mask: Option<u32>) -> Result<anyhow::Result<Compiled>, (String, String)> {
    sway_core::verif::set_asm_opt_mask(mask);
    let _g = MaskGuard;
    catch(AssertUnwindSafe(|| am.compile("gencase", src, profile)))
}

fn run_one(am: &mut Amortised, case: &Case, profile: Profile, full: &Compiled, full_obs: &[Observation], mask: u32, name: &str, res: &mut ShardResult) {
    res.evaluations += 1;
    let replay = case.replay_json(json!({"profile": profile.name(), "mask": mask, "mask_name": name}));
    let c = match compile_masked(am, &case.src, profile, Some(mask)) {
        Ok(Ok(c)) => c,
        Ok(Err(_)) => {
            res.count("masked_build_rejected");
            res.inconclusive(format!("mask {name}: the program compiles with full asm optimisation but not with this mask"));
            let _ = std::fs::remove_dir_all(am.last_dir());
            return;
        }
        Err((loc, msg)) => {
            res.violation(format!("masked-build-panic:{}", panic_signature(&loc, &msg)), format!("mask {name} ({}): compiler panicked at {loc}: {}", profile.name(), msg.chars().take(160).collect::<String>()), replay);
            let _ = std::fs::remove_dir_all(am.last_dir());
            return;
        }
    };
    res.count("masks_compared");
    res.count(&format!("mask.{name}"));
    let differs = c.pkg.bytecode.bytes != full.pkg.bytecode.bytes;
    if differs {
        res.count("mask_changed_bytecode");
        res.count(&format!("changed_bytecode.{name}"));
    }
    let mut any_returned = false;
    for (k, d) in case.script_data.iter().enumerate() {
        let o = run_script(&c.pkg.bytecode.bytes, d);
        res.count("executions_compared");
        let f = &full_obs[k];
        if !f.outcome.reverted() {
            any_returned = true;
        }
        if !(f.outcome.reverted() && o.outcome.reverted()) && !(f.outcome == o.outcome && f.logs == o.logs) {
            // removal of dead invalid arithmetic (documented undefined behaviour) happens at this
            // level too (asm DCE / constant propagation): same arbitration as C01-C03
            if f.outcome.reverted() != o.outcome.reverted() {
                let non_reverting = if f.outcome.reverted() { &o } else { f };
                match compare_case(case, k, non_reverting) {
                    Cmp::DeadUbTolerated => {
                        res.count("dead_invalid_arithmetic_removed_tolerated");
                        continue;
                    }
                    Cmp::Inconclusive(n) => {
                        res.inconclusive(n);
                        continue;
                    }
                    _ => {}
                }
            }
            res.violation(
                format!("asm-opt-changes-behaviour:{name}:{:016x}", hash64(case.src.as_bytes())),
                format!("[{} input {k}] fully optimised: {} / mask {name}: {}", profile.name(), f.short(), o.short()),
                replay,
            );
            break;
        }
    }
    if differs && any_returned {
        res.note_nontrivial(hash64(format!("{}{}{mask}", case.src, profile.name()).as_bytes()));
    }
    if res.samples.len() < 2 {
        res.sample(json!({"profile": profile.name(), "mask": name, "bytecode_len_full": full.pkg.bytecode.bytes.len(), "bytecode_len_masked": c.pkg.bytecode.bytes.len(), "source_head": case.src.lines().take(8).collect::<Vec<_>>()}));
    }
    am.remove(&c);
}

fn shard(ctx: &ShardCtx) -> ShardResult {
    let mut res = ShardResult::default();
    let mut am = Amortised::new(&ctx.work());
    if let Err(e) = am.warm() {
        res.harness_fault = Some(format!("std does not compile: {e}"));
        return res;
    }
    let all_masks = masks();
    let per = ctx.tier.pick(5usize, all_masks.len());
    let clock = ctx.clock();
    let mut i = ctx.first_index;
    while clock.left() {
        let mut scratch = ShardResult::default();
        let case = case_at(ctx.seed ^ 0x0c07, ctx.shard, i / 2, 10, &mut scratch);
        let profile = if i % 2 == 0 { Profile::Debug } else { Profile::Release };
        ctx.begin_case(i, &format!("// origin: {:?} {}\n{}", case.origin, profile.name(), case.src), &res);
        if let Ok(Ok(full)) = compile_masked(&mut am, &case.src, profile, None) {
            let full_obs: Vec<Observation> = case.script_data.iter().map(|d| run_script(&full.pkg.bytecode.bytes, d)).collect();
            // mask "none" always, plus a rotating selection of the others
            let mut chosen = vec![0usize];
            for j in 0..per.saturating_sub(1) {
                chosen.push(1 + ((i as usize * 7 + j * 3) % (all_masks.len() - 1)));
            }
            chosen.sort();
            chosen.dedup();
            for m in chosen {
                let (mask, name) = &all_masks[m];
                run_one(&mut am, &case, profile, &full, &full_obs, *mask, name, &mut res);
            }
            am.remove(&full);
        } else {
            res.count("rejected");
            let _ = std::fs::remove_dir_all(am.last_dir());
        }
        ctx.end_case();
        i += 1;
    }
    res
}

fn replay(v: &Value) -> ShardResult {
    let mut res = ShardResult::default();
    let work = work_dir("C07").join("replay");
    clean_dir(&work);
    let mut am = Amortised::new(&work);
    let Some(case) = case_from_replay(v) else {
        res.harness_fault = Some("the generator no longer reproduces the recorded program".into());
        return res;
    };
    let profile = if v["extra"]["profile"].as_str() == Some("release") { Profile::Release } else { Profile::Debug };
    let mask = v["extra"]["mask"].as_u64().unwrap_or(0) as u32;
    let name = v["extra"]["mask_name"].as_str().unwrap_or("?").to_string();
    if let Ok(Ok(full)) = compile_masked(&mut am, &case.src, profile, None) {
        let full_obs: Vec<Observation> = case.script_data.iter().map(|d| run_script(&full.pkg.bytecode.bytes, d)).collect();
        run_one(&mut am, &case, profile, &full, &full_obs, mask, &name, &mut res);
    }
    res
}
