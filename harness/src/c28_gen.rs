//! C28 generator: random storage schema -> contract source exposing one ABI method per
//! (field, operation); random operation histories -> `#[test]` functions plus, for every call,
//! the log payload(s) a Rust model (Vec / BTreeMap / Vec<u8>) predicts.
//!
//! Every ABI method takes a sequence number as its first argument and logs exactly one value
//! whose first 8 bytes are that sequence number; reads (and writes that return something) append
//! the result. The oracle never derives a storage slot: interference is decided from reads only.

use rand::rngs::StdRng;
use rand::Rng;
use serde::{Deserialize, Serialize};
use std::collections::{BTreeMap, BTreeSet};

// ------------------------------------------------------------------------------------------
// values

#[derive(Clone, Copy, PartialEq, Eq, Debug, PartialOrd, Ord)]
pub enum Ty {
    U64,
    U8,
    B256,
    Rec,
    Wide,
}

impl Ty {
    pub fn sway(self) -> &'static str {
        match self {
            Ty::U64 => "u64",
            Ty::U8 => "u8",
            Ty::B256 => "b256",
            Ty::Rec => "Rec",
            Ty::Wide => "Wide",
        }
    }
    pub fn tag(self) -> &'static str {
        match self {
            Ty::U64 => "u64",
            Ty::U8 => "u8",
            Ty::B256 => "b256",
            Ty::Rec => "rec",
            Ty::Wide => "wide",
        }
    }
}

#[derive(Clone, PartialEq, Eq, Debug, PartialOrd, Ord)]
pub enum Val {
    U64(u64),
    U8(u8),
    B256([u8; 32]),
    Rec([u64; 3]),
    Wide(u64, [u8; 32]),
}

/// Values and keys travel through the ABI as small "codes" (< 2^18, so that they are immediates
/// and do not fill the 4096-word data section of the test program); the contract expands a code
/// to the actual value with `ex_<ty>` / `exk_<ty>`; these functions mirror that expansion.
pub const MAX_CODE: u64 = 200_000;

pub fn ex_u64(c: u64) -> u64 {
    match c {
        0 => 0,
        1 => 1,
        2 => u64::MAX,
        3 => 1u64 << 63,
        4 => 0x0101_0101_0101_0101,
        5..=63 => c,
        _ => (c << 46) ^ (c << 23) ^ c,
    }
}

fn words_b256(w: [u64; 4]) -> [u8; 32] {
    let mut b = [0u8; 32];
    for (k, x) in w.iter().enumerate() {
        b[k * 8..k * 8 + 8].copy_from_slice(&x.to_be_bytes());
    }
    b
}

pub fn ex_b256(c: u64) -> [u8; 32] {
    match c {
        0 => [0u8; 32],
        1 => words_b256([0, 0, 0, 1]),
        2 => [0xff; 32],
        3 => words_b256([1u64 << 63, 0, 0, 0]),
        _ => words_b256([ex_u64(c), ex_u64(c + 1), ex_u64(c + 2), ex_u64(c + 3)]),
    }
}

pub const KEY_BASE: u64 = 0x5bd1_e995_0000_0000;
pub const KEY_WORDS: [u64; 3] = [0x9e37_79b9_7f4a_7c15, 0xbf58_476d_1ce4_e5b9, 0x94d0_49bb_1331_11eb];

#[allow(dead_code)]
pub fn exk_u64(c: u64) -> u64 {
    match c {
        0..=2 => c,
        3 => u64::MAX,
        4 => u64::MAX - 1,
        _ => KEY_BASE + c,
    }
}

#[allow(dead_code)]
pub fn exk_b256(c: u64) -> [u8; 32] {
    match c {
        0 => [0u8; 32],
        1 => words_b256([0, 0, 0, 1]),
        2 => [0xff; 32],
        _ => words_b256([KEY_WORDS[0], KEY_WORDS[1], KEY_WORDS[2], c]),
    }
}

impl Val {
    /// canonical ABI encoding (encoding v1) as it appears in a log receipt
    pub fn enc(&self, out: &mut Vec<u8>) {
        match self {
            Val::U64(v) => out.extend_from_slice(&v.to_be_bytes()),
            Val::U8(v) => out.push(*v),
            Val::B256(b) => out.extend_from_slice(b),
            Val::Rec(r) => {
                for x in r {
                    out.extend_from_slice(&x.to_be_bytes());
                }
            }
            Val::Wide(a, b) => {
                out.extend_from_slice(&a.to_be_bytes());
                out.extend_from_slice(b);
            }
        }
    }
    /// mirrors `ex_<ty>(c)` of the contract
    pub fn expand(ty: Ty, c: u64) -> Val {
        match ty {
            Ty::U64 => Val::U64(ex_u64(c)),
            Ty::U8 => Val::U8((ex_u64(c) % 256) as u8),
            Ty::B256 => Val::B256(ex_b256(c)),
            Ty::Rec => Val::Rec([ex_u64(c), ex_u64(c + 1), ex_u64(c + 2)]),
            Ty::Wide => Val::Wide(ex_u64(c), ex_b256(c + 1)),
        }
    }
    /// element `i` of the list the contract builds from `(n, s)`: `ex_<ty>(s + i * 5)`
    pub fn formula(ty: Ty, s: u64, i: u64) -> Val {
        Val::expand(ty, s + i * 5)
    }
}

pub fn rand_code(rng: &mut StdRng) -> u64 {
    match rng.gen_range(0..10) {
        0..=2 => rng.gen_range(0..6),
        3..=4 => rng.gen_range(5..64),
        _ => rng.gen_range(64..MAX_CODE),
    }
}

/// (code, value)
pub fn rand_val(ty: Ty, rng: &mut StdRng) -> (String, Val) {
    let c = rand_code(rng);
    (format!("{c}u64"), Val::expand(ty, c))
}

pub fn bytes_formula(n: u64, s: u64) -> Vec<u8> {
    (0..n).map(|i| ((s + i * 7) % 256) as u8).collect()
}
pub fn string_formula(n: u64, s: u64) -> Vec<u8> {
    (0..n).map(|i| (32 + (s + i * 7) % 95) as u8).collect()
}

// ------------------------------------------------------------------------------------------
// schema

#[derive(Clone, Debug, PartialEq)]
pub enum Kind {
    Canary(u64),
    Vec(Ty),
    /// StorageMap<K, V>
    Map(Ty, Ty),
    /// StorageMap<u64, StorageVec<T>>
    NVec(Ty),
    Bytes,
    Str,
    /// StorageMap<u64, StorageBytes>
    NBytes,
    /// StorageMap<u64, StorageString>
    NStr,
}

impl Kind {
    /// collection class used in counters and signatures
    pub fn coll(&self) -> String {
        match self {
            Kind::Canary(_) => "canary".into(),
            Kind::Vec(t) => format!("vec_{}", t.tag()),
            Kind::Map(k, v) => format!("map_{}_{}", k.tag(), v.tag()),
            Kind::NVec(t) => format!("nested_vec_{}", t.tag()),
            Kind::Bytes => "bytes".into(),
            Kind::Str => "string".into(),
            Kind::NBytes => "nested_bytes".into(),
            Kind::NStr => "nested_string".into(),
        }
    }
    /// the four classes named by the property
    pub fn class(&self) -> &'static str {
        match self {
            Kind::Canary(_) => "canary",
            Kind::Vec(_) | Kind::NVec(_) => "vec",
            Kind::Map(..) => "map",
            Kind::Bytes | Kind::NBytes => "bytes",
            Kind::Str | Kind::NStr => "string",
        }
    }
    fn sway_ty(&self) -> String {
        match self {
            Kind::Canary(_) => "u64".into(),
            Kind::Vec(t) => format!("StorageVec<{}>", t.sway()),
            Kind::Map(k, v) => format!("StorageMap<{}, {}>", k.sway(), v.sway()),
            Kind::NVec(t) => format!("StorageMap<u64, StorageVec<{}>>", t.sway()),
            Kind::Bytes => "StorageBytes".into(),
            Kind::Str => "StorageString".into(),
            Kind::NBytes => "StorageMap<u64, StorageBytes>".into(),
            Kind::NStr => "StorageMap<u64, StorageString>".into(),
        }
    }
    fn sway_init(&self) -> String {
        match self {
            Kind::Canary(v) => format!("{v}u64"),
            Kind::Vec(_) => "StorageVec {}".into(),
            Kind::Map(..) | Kind::NVec(_) | Kind::NBytes | Kind::NStr => "StorageMap {}".into(),
            Kind::Bytes => "StorageBytes {}".into(),
            Kind::Str => "StorageString {}".into(),
        }
    }
}

#[derive(Clone, Debug)]
pub struct Field {
    pub name: String,
    pub kind: Kind,
}

#[derive(Clone, Debug)]
pub struct Schema {
    pub fields: Vec<Field>,
    /// (signature, body) of every ABI method, in dispatcher order
    pub methods: Vec<(String, String)>,
    /// method name -> dispatcher index
    pub mid: BTreeMap<String, usize>,
}

impl Schema {
    fn new(fields: Vec<Field>) -> Schema {
        let methods: Vec<(String, String)> = fields.iter().flat_map(field_methods).collect();
        let mid = methods.iter().enumerate().map(|(i, (sig, _))| (sig.split('(').next().unwrap().to_string(), i)).collect();
        Schema { fields, methods, mid }
    }
}

pub fn gen_schema(rng: &mut StdRng) -> Schema {
    let elem = [Ty::U64, Ty::U8, Ty::B256, Ty::Rec];
    let mut kinds: Vec<Kind> = vec![];
    kinds.push(Kind::Vec(Ty::U64));
    kinds.push(Kind::Vec(elem[rng.gen_range(1..4)]));
    if rng.gen_bool(0.7) {
        kinds.push(Kind::Vec(elem[rng.gen_range(0..4)]));
    }
    kinds.push(Kind::Map(Ty::U64, Ty::U64));
    kinds.push(match rng.gen_range(0..4) {
        0 => Kind::Map(Ty::B256, Ty::Wide),
        1 => Kind::Map(Ty::U64, Ty::Rec),
        2 => Kind::Map(Ty::B256, Ty::U64),
        _ => Kind::Map(Ty::U64, Ty::U8),
    });
    kinds.push(Kind::NVec(if rng.gen_bool(0.7) { Ty::U64 } else { Ty::Rec }));
    kinds.push(Kind::Bytes);
    kinds.push(Kind::Str);
    kinds.push(match rng.gen_range(0..4) {
        0 => Kind::Bytes,
        1 => Kind::Str,
        2 => Kind::NBytes,
        _ => Kind::NStr,
    });
    // shuffle
    for i in (1..kinds.len()).rev() {
        let j = rng.gen_range(0..=i);
        kinds.swap(i, j);
    }
    // interleave canaries: one in front, one at the end, one or two inside
    let ncan = rng.gen_range(3..=4);
    let mut out: Vec<Kind> = vec![];
    let inner: BTreeSet<usize> = (0..ncan - 2).map(|_| rng.gen_range(1..kinds.len())).collect();
    out.push(Kind::Canary(rng.gen_range(1..u64::MAX)));
    for (i, k) in kinds.into_iter().enumerate() {
        if inner.contains(&i) {
            out.push(Kind::Canary(rng.gen_range(1..u64::MAX)));
        }
        out.push(k);
    }
    out.push(Kind::Canary(rng.gen_range(1..u64::MAX)));
    Schema::new(out.into_iter().enumerate().map(|(i, kind)| Field { name: format!("f{i}"), kind }).collect())
}

// ------------------------------------------------------------------------------------------
// contract source

fn vec_methods(f: &str, acc: &str, kp: &str, t: Ty, out: &mut Vec<(String, String)>) {
    let ty = t.sway();
    let tag = t.tag();
    let mut m = |sig: String, body: String| out.push((sig, body));
    let opt = |e: &str| format!("match {e} {{ Some(k) => log((seq, 1u64, k.read())), None => log((seq, 0u64)), }}");
    m(format!("{f}_push(seq: u64, {kp}v: u64)"), format!("{acc}.push(ex_{tag}(v)); log(seq);"));
    m(format!("{f}_pop(seq: u64, {kp}z: u64)"), format!("match {acc}.pop() {{ Some(v) => log((seq, 1u64, v)), None => log((seq, 0u64)), }}"));
    m(format!("{f}_get(seq: u64, {kp}i: u64)"), opt(&format!("{acc}.get(i)")));
    m(format!("{f}_set(seq: u64, {kp}i: u64, v: u64)"), format!("{acc}.set(i, ex_{tag}(v)); log(seq);"));
    m(format!("{f}_insert(seq: u64, {kp}i: u64, v: u64)"), format!("{acc}.insert(i, ex_{tag}(v)); log(seq);"));
    m(format!("{f}_remove(seq: u64, {kp}i: u64)"), format!("let r: {ty} = {acc}.remove(i); log((seq, r));"));
    m(format!("{f}_swap_remove(seq: u64, {kp}i: u64)"), format!("let r: {ty} = {acc}.swap_remove(i); log((seq, r));"));
    m(format!("{f}_swap(seq: u64, {kp}i: u64, j: u64)"), format!("{acc}.swap(i, j); log(seq);"));
    m(format!("{f}_len(seq: u64, {kp}z: u64)"), format!("log((seq, {acc}.len()));"));
    m(format!("{f}_is_empty(seq: u64, {kp}z: u64)"), format!("log((seq, {acc}.is_empty()));"));
    m(format!("{f}_first(seq: u64, {kp}z: u64)"), opt(&format!("{acc}.first()")));
    m(format!("{f}_last(seq: u64, {kp}z: u64)"), opt(&format!("{acc}.last()")));
    m(format!("{f}_reverse(seq: u64, {kp}z: u64)"), format!("{acc}.reverse(); log(seq);"));
    m(format!("{f}_fill(seq: u64, {kp}v: u64)"), format!("{acc}.fill(ex_{tag}(v)); log(seq);"));
    m(format!("{f}_resize(seq: u64, {kp}n: u64, v: u64)"), format!("{acc}.resize(n, ex_{tag}(v)); log(seq);"));
    m(format!("{f}_store(seq: u64, {kp}n: u64, s: u64)"), format!("{acc}.store_vec(mkvec_{tag}(n, s)); log(seq);"));
    m(format!("{f}_load(seq: u64, {kp}z: u64)"), format!("log((seq, {acc}.load_vec()));"));
    m(
        format!("{f}_iter(seq: u64, {kp}z: u64)"),
        format!("let mut out: Vec<{ty}> = Vec::new(); for k in {acc}.iter() {{ out.push(k.read()); }} log((seq, out));"),
    );
    m(format!("{f}_clear(seq: u64, {kp}z: u64)"), format!("let r: bool = {acc}.clear(); log((seq, r));"));
}

fn slice_methods(f: &str, acc: &str, kp: &str, string: bool, out: &mut Vec<(String, String)>) {
    let mk = if string { "mk_string" } else { "mk_bytes" };
    out.push((format!("{f}_write(seq: u64, {kp}n: u64, s: u64)"), format!("{acc}.write_slice({mk}(n, s)); log(seq);")));
    out.push((format!("{f}_read(seq: u64, {kp}z: u64)"), format!("match {acc}.read_slice() {{ Some(b) => log((seq, 1u64, b)), None => log((seq, 0u64)), }}")));
    // `x.clear()` resolves to the inherent `StorageKey::clear`; `tclear` reaches `StorableSlice::clear`
    out.push((format!("{f}_clear(seq: u64, {kp}z: u64)"), format!("let r: bool = {acc}.clear(); log((seq, r));")));
    let (t, st) = if string { ("String", "StorageString") } else { ("Bytes", "StorageBytes") };
    out.push((format!("{f}_tclear(seq: u64, {kp}z: u64)"), format!("let r: bool = tclear::<{t}, StorageKey<{st}>>({acc}); log((seq, r));")));
    out.push((format!("{f}_len(seq: u64, {kp}z: u64)"), format!("log((seq, {acc}.len()));")));
}

fn field_methods(fl: &Field) -> Vec<(String, String)> {
    let f = fl.name.as_str();
    let mut out = vec![];
    match &fl.kind {
        Kind::Canary(_) => {
            out.push((format!("{f}_read(seq: u64, z: u64)"), format!("log((seq, storage.{f}.read()));")));
            out.push((format!("{f}_write(seq: u64, v: u64)"), format!("storage.{f}.write(ex_u64(v)); log(seq);")));
        }
        Kind::Vec(t) => vec_methods(f, &format!("storage.{f}"), "", *t, &mut out),
        Kind::NVec(t) => vec_methods(f, &format!("storage.{f}.get(exk_u64(k))"), "k: u64, ", *t, &mut out),
        Kind::Map(k, v) => {
            let key = format!("exk_{}(k)", k.tag());
            let val = format!("ex_{}(v)", v.tag());
            out.push((format!("{f}_insert(seq: u64, k: u64, v: u64)"), format!("storage.{f}.insert({key}, {val}); log(seq);")));
            out.push((format!("{f}_remove(seq: u64, k: u64)"), format!("let r: bool = storage.{f}.remove({key}); log((seq, r));")));
            out.push((
                format!("{f}_try_insert(seq: u64, k: u64, v: u64)"),
                format!("match storage.{f}.try_insert({key}, {val}) {{ Ok(x) => log((seq, 1u64, x)), Err(StorageMapError::OccupiedError(x)) => log((seq, 0u64, x)), }}"),
            ));
            out.push((format!("{f}_get(seq: u64, k: u64)"), format!("match storage.{f}.get({key}).try_read() {{ Some(x) => log((seq, 1u64, x)), None => log((seq, 0u64)), }}")));
            out.push((format!("{f}_read(seq: u64, k: u64)"), format!("log((seq, storage.{f}.get({key}).read()));")));
            out.push((format!("{f}_kwrite(seq: u64, k: u64, v: u64)"), format!("storage.{f}.get({key}).write({val}); log(seq);")));
            out.push((format!("{f}_kclear(seq: u64, k: u64)"), format!("let r: bool = storage.{f}.get({key}).clear(); log((seq, r));")));
        }
        Kind::Bytes => slice_methods(f, &format!("storage.{f}"), "", false, &mut out),
        Kind::Str => slice_methods(f, &format!("storage.{f}"), "", true, &mut out),
        Kind::NBytes => slice_methods(f, &format!("storage.{f}.get(exk_u64(k))"), "k: u64, ", false, &mut out),
        Kind::NStr => slice_methods(f, &format!("storage.{f}.get(exk_u64(k))"), "k: u64, ", true, &mut out),
    }
    out
}

pub fn contract_src(schema: &Schema) -> String {
    let mut s = String::new();
    s.push_str("contract;\n\nuse std::storage::storage_vec::*;\nuse std::storage::storage_bytes::*;\nuse std::storage::storage_string::*;\nuse std::storage::storage_map::*;\nuse std::storage::storable_slice::*;\nuse std::storage::storage_key::StorageKey;\nuse std::bytes::Bytes;\nuse std::string::String;\nuse std::hash::*;\n\n");
    s.push_str("struct Rec {\n    a: u64,\n    b: u64,\n    c: u64,\n}\n\nstruct Wide {\n    a: u64,\n    b: b256,\n}\n\n");
    s.push_str("storage {\n");
    for f in &schema.fields {
        s.push_str(&format!("    {}: {} = {},\n", f.name, f.kind.sway_ty(), f.kind.sway_init()));
    }
    s.push_str("}\n\n");
    // code expanders (mirrored by ex_* / exk_* in the harness) and list builders
    s.push_str("fn ex_u64(c: u64) -> u64 {\n    if c < 2u64 {\n        c\n    } else if c == 2u64 {\n        18446744073709551615u64\n    } else if c == 3u64 {\n        9223372036854775808u64\n    } else if c == 4u64 {\n        72340172838076673u64\n    } else if c < 64u64 {\n        c\n    } else {\n        (c << 46) ^ (c << 23) ^ c\n    }\n}\n\n");
    s.push_str("fn ex_u8(c: u64) -> u8 {\n    let x: u64 = ex_u64(c) % 256u64;\n    x.try_as_u8().unwrap()\n}\n\n");
    s.push_str("fn ex_b256(c: u64) -> b256 {\n    if c == 0u64 {\n        b256::zero()\n    } else if c == 1u64 {\n        b256::from((0u64, 0u64, 0u64, 1u64))\n    } else if c == 2u64 {\n        b256::max()\n    } else if c == 3u64 {\n        b256::from((9223372036854775808u64, 0u64, 0u64, 0u64))\n    } else {\n        b256::from((ex_u64(c), ex_u64(c + 1u64), ex_u64(c + 2u64), ex_u64(c + 3u64)))\n    }\n}\n\n");
    s.push_str("fn ex_rec(c: u64) -> Rec {\n    Rec { a: ex_u64(c), b: ex_u64(c + 1u64), c: ex_u64(c + 2u64) }\n}\n\n");
    s.push_str("fn ex_wide(c: u64) -> Wide {\n    Wide { a: ex_u64(c), b: ex_b256(c + 1u64) }\n}\n\n");
    s.push_str(&format!("fn exk_u64(c: u64) -> u64 {{\n    if c < 3u64 {{\n        c\n    }} else if c == 3u64 {{\n        18446744073709551615u64\n    }} else if c == 4u64 {{\n        18446744073709551614u64\n    }} else {{\n        {}u64 + c\n    }}\n}}\n\n", KEY_BASE));
    s.push_str(&format!("fn exk_b256(c: u64) -> b256 {{\n    if c == 0u64 {{\n        b256::zero()\n    }} else if c == 1u64 {{\n        b256::from((0u64, 0u64, 0u64, 1u64))\n    }} else if c == 2u64 {{\n        b256::max()\n    }} else {{\n        b256::from(({}u64, {}u64, {}u64, c))\n    }}\n}}\n\n", KEY_WORDS[0], KEY_WORDS[1], KEY_WORDS[2]));
    let mut used: BTreeSet<Ty> = BTreeSet::new();
    for f in &schema.fields {
        if let Kind::Vec(t) | Kind::NVec(t) = &f.kind {
            used.insert(*t);
        }
    }
    for t in &used {
        let (ty, tag) = (t.sway(), t.tag());
        s.push_str(&format!(
            "fn mkvec_{tag}(n: u64, s: u64) -> Vec<{ty}> {{\n    let mut v: Vec<{ty}> = Vec::new();\n    let mut i = 0u64;\n    while i < n {{\n        v.push(ex_{tag}(s + i * 5u64));\n        i += 1u64;\n    }}\n    v\n}}\n\n"
        ));
    }
    s.push_str("#[storage(read, write)]\nfn tclear<T, S>(s: S) -> bool\nwhere\n    S: StorableSlice<T>,\n{\n    s.clear()\n}\n\n");
    s.push_str("fn mk_bytes(n: u64, s: u64) -> Bytes {\n    let mut b = Bytes::new();\n    let mut i = 0u64;\n    while i < n {\n        let x: u64 = (s + i * 7u64) % 256u64;\n        b.push(x.try_as_u8().unwrap());\n        i += 1u64;\n    }\n    b\n}\n\n");
    s.push_str("fn mk_string(n: u64, s: u64) -> String {\n    let mut b = Bytes::new();\n    let mut i = 0u64;\n    while i < n {\n        let x: u64 = 32u64 + (s + i * 7u64) % 95u64;\n        b.push(x.try_as_u8().unwrap());\n        i += 1u64;\n    }\n    String::from_ascii(b)\n}\n\n");
    let methods = &schema.methods;
    s.push_str("abi Gen {\n");
    for (sig, _) in methods {
        s.push_str(&format!("    #[storage(read, write)]\n    fn {sig};\n"));
    }
    s.push_str("}\n\nimpl Gen for Contract {\n");
    for (sig, body) in methods {
        s.push_str(&format!("    #[storage(read, write)]\n    fn {sig} {{\n        {body}\n    }}\n"));
    }
    s.push_str("}\n\n");
    // The tests issue every operation through this dispatcher: one contract-call site per ABI
    // method instead of one per operation (the compiler limits the data section of a program to
    // 4096 words and every contract-call site takes about two of them).
    s.push_str("#[inline(never)]\nfn d(id: b256, m: u64, seq: u64, a: u64, b: u64, x: u64) {\n    let c = abi(Gen, id);\n");
    for (i, (sig, _)) in methods.iter().enumerate() {
        let name = sig.split('(').next().unwrap();
        let nargs = sig.matches(':').count() - 1;
        let args = ["a", "b", "x"][..nargs].join(", ");
        s.push_str(&format!("    if m == {i}u64 {{\n        c.{name}(seq, {args});\n        return;\n    }}\n"));
    }
    s.push_str("    revert(4242u64);\n}\n");
    s
}

// ------------------------------------------------------------------------------------------
// histories

#[derive(Serialize, Deserialize, Clone, Debug)]
pub struct Expect {
    pub seq: u64,
    /// acceptable payloads after the 8-byte sequence number (hex); ignored when `any`
    pub accept: Vec<String>,
    pub any: bool,
    pub coll: String,
    pub op: String,
    /// "op" (the history's own operation), "sweep" (interference read after a write), "final" (read-back)
    pub phase: String,
    pub call: String,
}

#[derive(Clone, Debug, Default)]
pub struct HStats {
    /// (class, collection, op, phase)
    pub ops: Vec<(String, String, String, String)>,
    pub write_points: BTreeSet<String>,
    pub fields_touched: BTreeSet<usize>,
    pub keys_touched: BTreeSet<String>,
    pub sweeps: u64,
    pub sweep_reads: u64,
    pub final_reads: u64,
    pub slice_lens: Vec<u64>,
    pub max_vec_len: u64,
    pub none_reads: u64,
}

#[derive(Clone, Debug)]
pub struct History {
    pub name: String,
    pub body: String,
    pub expect: Vec<Expect>,
    /// the last call is documented to revert: (seq, coll, op, call)
    pub revert: Option<Expect>,
    pub stats: HStats,
}

#[derive(Clone, Debug)]
enum St {
    Canary(u64),
    Vec(Vec<Val>),
    Map { m: BTreeMap<Val, Val>, pool: Vec<Val>, touched: Vec<Val> },
    NVec { m: BTreeMap<u64, Vec<Val>>, pool: Vec<u64>, touched: Vec<u64> },
    Slice(Vec<u8>),
    NSlice { m: BTreeMap<u64, Vec<u8>>, pool: Vec<u64>, touched: Vec<u64> },
}

#[derive(Clone, Debug, PartialEq)]
enum Sub {
    None,
    K(Val),
    N(u64),
}

const VEC_CAP: usize = 13;
pub const BOUNDARY_LENS: [u64; 11] = [0, 1, 7, 8, 9, 31, 32, 33, 63, 64, 65];

fn p_u64(x: u64) -> Vec<u8> {
    x.to_be_bytes().to_vec()
}
fn p_bool(b: bool) -> Vec<u8> {
    vec![b as u8]
}
fn p_val(v: &Val) -> Vec<u8> {
    let mut o = vec![];
    v.enc(&mut o);
    o
}
fn p_opt(v: Option<&Val>) -> Vec<u8> {
    match v {
        Some(v) => {
            let mut o = p_u64(1);
            v.enc(&mut o);
            o
        }
        None => p_u64(0),
    }
}
fn p_vec(v: &[Val]) -> Vec<u8> {
    let mut o = p_u64(v.len() as u64);
    for x in v {
        x.enc(&mut o);
    }
    o
}
fn p_bytes(b: &[u8]) -> Vec<u8> {
    let mut o = p_u64(b.len() as u64);
    o.extend_from_slice(b);
    o
}

enum Acc {
    Exact(Vec<u8>),
    AnyOf(Vec<Vec<u8>>),
    Any,
}

struct Builder<'a> {
    schema: &'a Schema,
    rng: &'a mut StdRng,
    st: Vec<St>,
    lines: Vec<String>,
    expect: Vec<Expect>,
    seq: u64,
    rot: usize,
    stats: HStats,
    /// the fields this history concentrates its writes on (the others are bystanders that the
    /// sweeps keep reading), so that single collections get deep histories
    hot: Vec<usize>,
}

/// key codes (see `exk_u64` / `exk_b256`): the special keys, two adjacent keys, a random one
fn key_pool_u64(rng: &mut StdRng, n: usize) -> Vec<u64> {
    let base: u64 = rng.gen_range(5..MAX_CODE);
    let mut c = vec![0u64, 1, 2, 3, 4, base, base + 1, rng.gen_range(5..MAX_CODE)];
    let mut out = vec![];
    while out.len() < n && !c.is_empty() {
        let k = c.swap_remove(rng.gen_range(0..c.len()));
        if !out.contains(&k) {
            out.push(k);
        }
    }
    out
}

/// map keys are kept in the model as `Val::U64(code)`
fn key_pool(rng: &mut StdRng, _t: Ty, n: usize) -> Vec<Val> {
    key_pool_u64(rng, n).into_iter().map(Val::U64).collect()
}

fn klit(k: &Val) -> String {
    match k {
        Val::U64(c) => format!("{c}u64"),
        _ => unreachable!(),
    }
}

impl<'a> Builder<'a> {
    fn new(schema: &'a Schema, rng: &'a mut StdRng) -> Self {
        let mut st = vec![];
        for f in &schema.fields {
            st.push(match &f.kind {
                Kind::Canary(v) => St::Canary(*v),
                Kind::Vec(_) => St::Vec(vec![]),
                Kind::Map(k, _) => {
                    let n = rng.gen_range(3..=5);
                    St::Map { m: BTreeMap::new(), pool: key_pool(rng, *k, n), touched: vec![] }
                }
                Kind::NVec(_) => {
                    let n = rng.gen_range(2..=3);
                    St::NVec { m: BTreeMap::new(), pool: key_pool_u64(rng, n), touched: vec![] }
                }
                Kind::Bytes | Kind::Str => St::Slice(vec![]),
                Kind::NBytes | Kind::NStr => {
                    let n = rng.gen_range(2..=3);
                    St::NSlice { m: BTreeMap::new(), pool: key_pool_u64(rng, n), touched: vec![] }
                }
            });
        }
        let mut cand: Vec<usize> = schema.fields.iter().enumerate().filter(|(_, f)| !matches!(f.kind, Kind::Canary(_))).map(|(i, _)| i).collect();
        let nhot = rng.gen_range(2..=4).min(cand.len());
        let mut hot = vec![];
        for _ in 0..nhot {
            hot.push(cand.swap_remove(rng.gen_range(0..cand.len())));
        }
        Builder { schema, rng, st, lines: vec![], expect: vec![], seq: 0, rot: 0, stats: HStats::default(), hot }
    }

    /// emit one contract call; returns the Expect (already recorded unless `record` is false)
    fn call(&mut self, fi: usize, method: &str, args: Vec<String>, acc: Acc, phase: &str, record: bool) -> Expect {
        self.seq += 1;
        let seq = self.seq;
        let f = &self.schema.fields[fi];
        let name = format!("{}_{}", f.name, method);
        let mid = self.schema.mid[&name];
        let call = format!("{name}({seq}u64, {})", args.join(", "));
        let mut a = args;
        while a.len() < 3 {
            a.push("0u64".to_string());
        }
        self.lines.push(format!("    d(id, {mid}u64, {seq}u64, {}); // {call}", a.join(", ")));
        let (accept, any) = match acc {
            Acc::Exact(p) => (vec![hex::encode(p)], false),
            Acc::AnyOf(ps) => (ps.into_iter().map(hex::encode).collect(), false),
            Acc::Any => (vec![], true),
        };
        let e = Expect { seq, accept, any, coll: f.kind.coll(), op: method.to_string(), phase: phase.to_string(), call };
        if record {
            self.expect.push(e.clone());
            self.stats.ops.push((f.kind.class().to_string(), e.coll.clone(), e.op.clone(), e.phase.clone()));
        }
        e
    }

    fn sub_args(sub: &Sub) -> Vec<String> {
        match sub {
            Sub::None => vec![],
            Sub::K(v) => vec![klit(v)],
            Sub::N(k) => vec![format!("{k}u64")],
        }
    }

    fn get_vec(&self, fi: usize, sub: &Sub) -> Vec<Val> {
        match (&self.st[fi], sub) {
            (St::Vec(v), _) => v.clone(),
            (St::NVec { m, .. }, Sub::N(k)) => m.get(k).cloned().unwrap_or_default(),
            _ => unreachable!(),
        }
    }
    fn set_vec(&mut self, fi: usize, sub: &Sub, v: Vec<Val>) {
        self.stats.max_vec_len = self.stats.max_vec_len.max(v.len() as u64);
        match (&mut self.st[fi], sub) {
            (St::Vec(x), _) => *x = v,
            (St::NVec { m, touched, .. }, Sub::N(k)) => {
                m.insert(*k, v);
                if !touched.contains(k) {
                    touched.push(*k);
                }
            }
            _ => unreachable!(),
        }
    }
    fn get_slice(&self, fi: usize, sub: &Sub) -> Vec<u8> {
        match (&self.st[fi], sub) {
            (St::Slice(v), _) => v.clone(),
            (St::NSlice { m, .. }, Sub::N(k)) => m.get(k).cloned().unwrap_or_default(),
            _ => unreachable!(),
        }
    }
    fn set_slice(&mut self, fi: usize, sub: &Sub, v: Vec<u8>) {
        match (&mut self.st[fi], sub) {
            (St::Slice(x), _) => *x = v,
            (St::NSlice { m, touched, .. }, Sub::N(k)) => {
                m.insert(*k, v);
                if !touched.contains(k) {
                    touched.push(*k);
                }
            }
            _ => unreachable!(),
        }
    }
    fn elem_ty(&self, fi: usize) -> Ty {
        match &self.schema.fields[fi].kind {
            Kind::Vec(t) | Kind::NVec(t) => *t,
            _ => unreachable!(),
        }
    }
    fn pick_nested_key(&mut self, fi: usize) -> u64 {
        match &self.st[fi] {
            St::NVec { pool, .. } | St::NSlice { pool, .. } => pool[self.rng.gen_range(0..pool.len())],
            _ => unreachable!(),
        }
    }
    fn z() -> String {
        "0u64".to_string()
    }

    // ---- vec ------------------------------------------------------------------------------
    fn vec_write(&mut self, fi: usize, sub: &Sub) {
        let t = self.elem_ty(fi);
        let mut v = self.get_vec(fi, sub);
        let len = v.len();
        let ka = Self::sub_args(sub);
        let args = |rest: Vec<String>| {
            let mut a = ka.clone();
            a.extend(rest);
            a
        };
        let can_grow = len < VEC_CAP;
        // weights
        let mut choices: Vec<(&str, u32)> = vec![("pop", 4), ("reverse", 2), ("fill", 2), ("resize", 3), ("store", 3), ("clear", 1)];
        if can_grow {
            // short vectors mostly grow, so that histories get past the 4-words-per-slot boundaries
            choices.push(("push", if len < 6 { 24 } else { 10 }));
            choices.push(("insert", if len < 6 { 8 } else { 5 }));
        }
        if len > 0 {
            choices.extend([("set", 6), ("remove", 4), ("swap_remove", 4), ("swap", 4)]);
        }
        let total: u32 = choices.iter().map(|c| c.1).sum();
        let mut r = self.rng.gen_range(0..total);
        let mut op = choices[0].0;
        for &(name, w) in &choices {
            if r < w {
                op = name;
                break;
            }
            r -= w;
        }
        match op {
            "push" => {
                let (xl, x) = rand_val(t, self.rng);
                self.call(fi, "push", args(vec![xl.clone()]), Acc::Exact(vec![]), "op", true);
                v.push(x);
            }
            "pop" => {
                let r = v.pop();
                self.call(fi, "pop", args(vec![Self::z()]), Acc::Exact(p_opt(r.as_ref())), "op", true);
            }
            "set" => {
                let i = self.rng.gen_range(0..len);
                let (xl, x) = rand_val(t, self.rng);
                self.call(fi, "set", args(vec![format!("{i}u64"), xl.clone()]), Acc::Exact(vec![]), "op", true);
                v[i] = x;
            }
            "insert" => {
                let i = if self.rng.gen_bool(0.3) { len } else { self.rng.gen_range(0..=len) };
                let (xl, x) = rand_val(t, self.rng);
                self.call(fi, "insert", args(vec![format!("{i}u64"), xl.clone()]), Acc::Exact(vec![]), "op", true);
                v.insert(i, x);
            }
            "remove" => {
                let i = self.rng.gen_range(0..len);
                let x = v.remove(i);
                self.call(fi, "remove", args(vec![format!("{i}u64")]), Acc::Exact(p_val(&x)), "op", true);
            }
            "swap_remove" => {
                let i = if self.rng.gen_bool(0.25) { len - 1 } else { self.rng.gen_range(0..len) };
                let x = v.swap_remove(i);
                self.call(fi, "swap_remove", args(vec![format!("{i}u64")]), Acc::Exact(p_val(&x)), "op", true);
            }
            "swap" => {
                let i = self.rng.gen_range(0..len);
                let j = self.rng.gen_range(0..len);
                self.call(fi, "swap", args(vec![format!("{i}u64"), format!("{j}u64")]), Acc::Exact(vec![]), "op", true);
                v.swap(i, j);
            }
            "reverse" => {
                self.call(fi, "reverse", args(vec![Self::z()]), Acc::Exact(vec![]), "op", true);
                v.reverse();
            }
            "fill" => {
                let (xl, x) = rand_val(t, self.rng);
                self.call(fi, "fill", args(vec![xl.clone()]), Acc::Exact(vec![]), "op", true);
                for e in v.iter_mut() {
                    *e = x.clone();
                }
            }
            "resize" => {
                let n = self.rng.gen_range(0..=VEC_CAP);
                let (xl, x) = rand_val(t, self.rng);
                self.call(fi, "resize", args(vec![format!("{n}u64"), xl.clone()]), Acc::Exact(vec![]), "op", true);
                v.resize(n, x);
            }
            "store" => {
                let n = match self.rng.gen_range(0..4) {
                    0 => self.rng.gen_range(0..=1),
                    1 => self.rng.gen_range(3..=5),
                    _ => self.rng.gen_range(0..=VEC_CAP as u64),
                };
                let s: u64 = self.rng.gen_range(0..MAX_CODE);
                self.call(fi, "store", args(vec![format!("{n}u64"), format!("{s}u64")]), Acc::Exact(vec![]), "op", true);
                v = (0..n).map(|i| Val::formula(t, s, i)).collect();
            }
            _ => {
                // StorageKey::clear: returns whether the value existed; only promised to be true
                // for a vector that holds elements
                let acc = if len > 0 { Acc::Exact(p_bool(true)) } else { Acc::Any };
                self.call(fi, "clear", args(vec![Self::z()]), acc, "op", true);
                v.clear();
            }
        }
        self.set_vec(fi, sub, v);
    }

    /// form: 0 len, 1 get(rotating index < len), 2 get(len), 3 last, 4 first, 5 load, 6 iter, 7 is_empty, 8 get(far)
    fn vec_read(&mut self, fi: usize, sub: &Sub, form: usize, phase: &str) {
        let v = self.get_vec(fi, sub);
        let len = v.len();
        let mut a = Self::sub_args(sub);
        match form {
            0 => {
                a.push(Self::z());
                self.call(fi, "len", a, Acc::Exact(p_u64(len as u64)), phase, true);
            }
            1 | 2 | 8 => {
                let i: u64 = match form {
                    1 if len > 0 => (self.rot % len) as u64,
                    8 => *[len as u64 + 1, u64::MAX, len as u64 + 4].get(self.rot % 3).unwrap(),
                    _ => len as u64,
                };
                a.push(format!("{i}u64"));
                let e = if i < len as u64 { v.get(i as usize) } else { None };
                if e.is_none() {
                    self.stats.none_reads += 1;
                }
                self.call(fi, "get", a, Acc::Exact(p_opt(e)), phase, true);
            }
            3 => {
                a.push(Self::z());
                self.call(fi, "last", a, Acc::Exact(p_opt(v.last())), phase, true);
            }
            4 => {
                a.push(Self::z());
                self.call(fi, "first", a, Acc::Exact(p_opt(v.first())), phase, true);
            }
            5 => {
                a.push(Self::z());
                self.call(fi, "load", a, Acc::Exact(p_vec(&v)), phase, true);
            }
            6 => {
                a.push(Self::z());
                self.call(fi, "iter", a, Acc::Exact(p_vec(&v)), phase, true);
            }
            _ => {
                a.push(Self::z());
                self.call(fi, "is_empty", a, Acc::Exact(p_bool(len == 0)), phase, true);
            }
        }
    }

    fn vec_get_at(&mut self, fi: usize, sub: &Sub, i: usize, phase: &str) {
        let v = self.get_vec(fi, sub);
        let mut a = Self::sub_args(sub);
        a.push(format!("{i}u64"));
        self.call(fi, "get", a, Acc::Exact(p_opt(v.get(i))), phase, true);
    }

    // ---- map ------------------------------------------------------------------------------
    fn map_val_ty(&self, fi: usize) -> Ty {
        match &self.schema.fields[fi].kind {
            Kind::Map(_, v) => *v,
            _ => unreachable!(),
        }
    }
    fn map_write(&mut self, fi: usize) -> Sub {
        let vt = self.map_val_ty(fi);
        let (mut m, pool, mut touched) = match &self.st[fi] {
            St::Map { m, pool, touched } => (m.clone(), pool.clone(), touched.clone()),
            _ => unreachable!(),
        };
        // removals prefer present keys
        let present: Vec<Val> = m.keys().cloned().collect();
        let op = self.rng.gen_range(0..20);
        let k = if (12..17).contains(&op) && !present.is_empty() && self.rng.gen_bool(0.7) {
            present[self.rng.gen_range(0..present.len())].clone()
        } else {
            pool[self.rng.gen_range(0..pool.len())].clone()
        };
        match op {
            0..=7 => {
                let (xl, x) = rand_val(vt, self.rng);
                self.call(fi, "insert", vec![klit(&k), xl.clone()], Acc::Exact(vec![]), "op", true);
                m.insert(k.clone(), x);
            }
            8..=11 => {
                let (xl, x) = rand_val(vt, self.rng);
                let acc = match m.get(&k) {
                    Some(old) => {
                        let mut p = p_u64(0);
                        old.enc(&mut p);
                        Acc::Exact(p)
                    }
                    None => {
                        let mut p = p_u64(1);
                        x.enc(&mut p);
                        Acc::Exact(p)
                    }
                };
                self.call(fi, "try_insert", vec![klit(&k), xl.clone()], acc, "op", true);
                m.entry(k.clone()).or_insert(x);
            }
            12..=14 => {
                let had = m.remove(&k).is_some();
                self.call(fi, "remove", vec![klit(&k)], Acc::Exact(p_bool(had)), "op", true);
            }
            15..=16 => {
                let had = m.remove(&k).is_some();
                self.call(fi, "kclear", vec![klit(&k)], Acc::Exact(p_bool(had)), "op", true);
            }
            _ => {
                let (xl, x) = rand_val(vt, self.rng);
                self.call(fi, "kwrite", vec![klit(&k), xl.clone()], Acc::Exact(vec![]), "op", true);
                m.insert(k.clone(), x);
            }
        }
        if !touched.contains(&k) {
            touched.push(k.clone());
        }
        self.st[fi] = St::Map { m, pool, touched };
        Sub::K(k)
    }
    fn map_read(&mut self, fi: usize, k: &Val, phase: &str) {
        let cur = match &self.st[fi] {
            St::Map { m, .. } => m.get(k).cloned(),
            _ => unreachable!(),
        };
        if cur.is_none() {
            self.stats.none_reads += 1;
        }
        // `read()` only where a value is present (it is documented to revert otherwise)
        if cur.is_some() && self.rot % 4 == 3 {
            self.call(fi, "read", vec![klit(&k)], Acc::Exact(p_val(cur.as_ref().unwrap())), phase, true);
        } else {
            self.call(fi, "get", vec![klit(&k)], Acc::Exact(p_opt(cur.as_ref())), phase, true);
        }
    }

    // ---- slices ---------------------------------------------------------------------------
    fn is_string(&self, fi: usize) -> bool {
        matches!(self.schema.fields[fi].kind, Kind::Str | Kind::NStr)
    }
    fn slice_write(&mut self, fi: usize, sub: &Sub) {
        let cur = self.get_slice(fi, sub);
        let mut a = Self::sub_args(sub);
        if self.rng.gen_range(0..6) == 0 {
            // clear: the returned flag is only promised for stored, non-empty content
            a.push(Self::z());
            let acc = if cur.is_empty() { Acc::Any } else { Acc::Exact(p_bool(true)) };
            let which = if self.rng.gen_bool(0.5) { "clear" } else { "tclear" };
            self.call(fi, which, a, acc, "op", true);
            self.set_slice(fi, sub, vec![]);
            return;
        }
        let n: u64 = match self.rng.gen_range(0..10) {
            0..=6 => BOUNDARY_LENS[self.rng.gen_range(0..BOUNDARY_LENS.len())],
            7 => *[95u64, 96, 97, 127, 128, 129].get(self.rng.gen_range(0..6)).unwrap(),
            _ => self.rng.gen_range(0..=100),
        };
        let s: u64 = self.rng.gen_range(0..256);
        a.push(format!("{n}u64"));
        a.push(format!("{s}u64"));
        self.call(fi, "write", a, Acc::Exact(vec![]), "op", true);
        self.stats.slice_lens.push(n);
        let data = if self.is_string(fi) { string_formula(n, s) } else { bytes_formula(n, s) };
        self.set_slice(fi, sub, data);
    }
    /// form: 0 read_slice, 1 len
    fn slice_read(&mut self, fi: usize, sub: &Sub, form: usize, phase: &str) {
        let cur = self.get_slice(fi, sub);
        let mut a = Self::sub_args(sub);
        a.push(Self::z());
        if form == 0 {
            // an empty slice reads as `None`; `Some(empty)` would be equally consistent with the docs
            let acc = if cur.is_empty() {
                self.stats.none_reads += 1;
                let mut some_empty = p_u64(1);
                some_empty.extend(p_bytes(&[]));
                Acc::AnyOf(vec![p_u64(0), some_empty])
            } else {
                let mut p = p_u64(1);
                p.extend(p_bytes(&cur));
                Acc::Exact(p)
            };
            self.call(fi, "read", a, acc, phase, true);
        } else {
            self.call(fi, "len", a, Acc::Exact(p_u64(cur.len() as u64)), phase, true);
        }
    }

    // ---- generic --------------------------------------------------------------------------
    /// all points the model knows: (field, sub)
    fn points(&self) -> Vec<(usize, Sub)> {
        let mut out = vec![];
        for (fi, s) in self.st.iter().enumerate() {
            match s {
                St::Canary(_) | St::Vec(_) | St::Slice(_) => out.push((fi, Sub::None)),
                St::Map { pool, touched, .. } => {
                    if touched.is_empty() {
                        out.push((fi, Sub::K(pool[0].clone())));
                    }
                    for k in touched {
                        out.push((fi, Sub::K(k.clone())));
                    }
                }
                St::NVec { pool, touched, .. } | St::NSlice { pool, touched, .. } => {
                    if touched.is_empty() {
                        out.push((fi, Sub::N(pool[0])));
                    }
                    for k in touched {
                        out.push((fi, Sub::N(*k)));
                    }
                }
            }
        }
        out
    }

    fn read_point(&mut self, fi: usize, sub: &Sub, phase: &str) {
        self.rot += 1;
        let kind = self.schema.fields[fi].kind.clone();
        match (&kind, sub) {
            (Kind::Canary(_), _) => {
                let v = match &self.st[fi] {
                    St::Canary(v) => *v,
                    _ => unreachable!(),
                };
                self.call(fi, "read", vec![Self::z()], Acc::Exact(p_u64(v)), phase, true);
            }
            (Kind::Vec(_), _) | (Kind::NVec(_), _) => {
                let len = self.get_vec(fi, sub).len();
                let form = match self.rng.gen_range(0..16) {
                    0..=2 => 0,
                    3..=6 => 1,
                    7..=8 => 2,
                    9 => 3,
                    10 => 4,
                    11..=12 => {
                        if len <= 8 {
                            5
                        } else {
                            1
                        }
                    }
                    13 => {
                        if len <= 8 {
                            6
                        } else {
                            0
                        }
                    }
                    14 => 7,
                    _ => 8,
                };
                self.vec_read(fi, sub, form, phase);
            }
            (Kind::Map(..), Sub::K(k)) => self.map_read(fi, k, phase),
            (Kind::Bytes | Kind::Str | Kind::NBytes | Kind::NStr, _) => {
                let form = if self.rng.gen_bool(0.7) { 0 } else { 1 };
                self.slice_read(fi, sub, form, phase);
            }
            _ => unreachable!(),
        }
    }

    fn random_sub(&mut self, fi: usize) -> Sub {
        match &self.st[fi] {
            St::Map { pool, .. } => Sub::K(pool[self.rng.gen_range(0..pool.len())].clone()),
            St::NVec { .. } | St::NSlice { .. } => Sub::N(self.pick_nested_key(fi)),
            _ => Sub::None,
        }
    }

    fn random_field(&mut self, canary_weight: u32) -> usize {
        let w: Vec<u32> = self.schema.fields.iter().map(|f| if matches!(f.kind, Kind::Canary(_)) { canary_weight } else { 6 }).collect();
        let total: u32 = w.iter().sum();
        let mut r = self.rng.gen_range(0..total);
        for (i, x) in w.iter().enumerate() {
            if r < *x {
                return i;
            }
            r -= x;
        }
        0
    }

    /// one write followed by an interference sweep over other fields / keys
    fn write_and_sweep(&mut self) {
        let fi = if self.rng.gen_bool(0.75) { self.hot[self.rng.gen_range(0..self.hot.len())] } else { self.random_field(1) };
        let kind = self.schema.fields[fi].kind.clone();
        let sub = match kind {
            Kind::Canary(_) => {
                let c = rand_code(self.rng);
                let v = ex_u64(c);
                self.call(fi, "write", vec![format!("{c}u64")], Acc::Exact(vec![]), "op", true);
                self.st[fi] = St::Canary(v);
                Sub::None
            }
            Kind::Vec(_) => {
                self.vec_write(fi, &Sub::None);
                Sub::None
            }
            Kind::NVec(_) => {
                let s = Sub::N(self.pick_nested_key(fi));
                self.vec_write(fi, &s);
                s
            }
            Kind::Map(..) => self.map_write(fi),
            Kind::Bytes | Kind::Str => {
                self.slice_write(fi, &Sub::None);
                Sub::None
            }
            Kind::NBytes | Kind::NStr => {
                let s = Sub::N(self.pick_nested_key(fi));
                self.slice_write(fi, &s);
                s
            }
        };
        self.stats.write_points.insert(format!("{fi}:{sub:?}"));
        self.stats.fields_touched.insert(fi);
        if sub != Sub::None {
            self.stats.keys_touched.insert(format!("{fi}:{sub:?}"));
        }
        // sweep: a rotating subset of all OTHER points
        let pts = self.points();
        let want = self.rng.gen_range(2..=3);
        let mut done = 0;
        let mut tried = 0;
        self.stats.sweeps += 1;
        while done < want && tried < pts.len() {
            let (pf, ps) = pts[(self.rot + tried) % pts.len()].clone();
            tried += 1;
            if pf == fi && (ps == Sub::None || ps == sub) {
                continue;
            }
            self.read_point(pf, &ps, "sweep");
            self.stats.sweep_reads += 1;
            done += 1;
        }
        self.rot += tried;
    }

    fn random_read(&mut self) {
        let fi = self.random_field(2);
        let sub = self.random_sub(fi);
        self.read_point(fi, &sub, "op");
    }

    fn final_readback(&mut self) {
        let pts = self.points();
        let before = self.expect.len();
        for (fi, sub) in pts {
            let kind = self.schema.fields[fi].kind.clone();
            match &kind {
                Kind::Canary(_) => self.read_point(fi, &sub, "final"),
                Kind::Vec(_) | Kind::NVec(_) => {
                    let len = self.get_vec(fi, &sub).len();
                    self.vec_read(fi, &sub, 0, "final");
                    self.vec_read(fi, &sub, 5, "final");
                    for i in 0..=len {
                        self.vec_get_at(fi, &sub, i, "final");
                    }
                    if self.rng.gen_bool(0.3) {
                        self.vec_read(fi, &sub, 6, "final");
                    }
                }
                Kind::Map(..) => {
                    if let Sub::K(k) = &sub {
                        self.rot = 0; // `get`, not `read`
                        self.map_read(fi, k, "final");
                    }
                }
                _ => {
                    self.slice_read(fi, &sub, 1, "final");
                    self.slice_read(fi, &sub, 0, "final");
                }
            }
        }
        self.stats.final_reads += (self.expect.len() - before) as u64;
    }

    /// a call documented to revert, as the last operation of the history
    fn reverting_op(&mut self) -> Option<Expect> {
        // candidates: vec fields (plain / nested) and maps
        let cands: Vec<usize> = self.schema.fields.iter().enumerate().filter(|(_, f)| matches!(f.kind, Kind::Vec(_) | Kind::NVec(_) | Kind::Map(..))).map(|(i, _)| i).collect();
        let hot_cands: Vec<usize> = cands.iter().copied().filter(|i| self.hot.contains(i)).collect();
        let fi = if !hot_cands.is_empty() && self.rng.gen_bool(0.7) { hot_cands[self.rng.gen_range(0..hot_cands.len())] } else { cands[self.rng.gen_range(0..cands.len())] };
        match self.schema.fields[fi].kind.clone() {
            Kind::Map(..) => {
                let (m, pool, touched) = match &self.st[fi] {
                    St::Map { m, pool, touched } => (m.clone(), pool.clone(), touched.clone()),
                    _ => unreachable!(),
                };
                let absent: Vec<Val> = pool.iter().chain(touched.iter()).filter(|k| !m.contains_key(k)).cloned().collect();
                let k = absent.get(self.rng.gen_range(0..absent.len().max(1)))?.clone();
                Some(self.call(fi, "read", vec![klit(&k)], Acc::Any, "revert", false))
            }
            _ => {
                let t = self.elem_ty(fi);
                let sub = self.random_sub(fi);
                let len = self.get_vec(fi, &sub).len() as u64;
                let ka = Self::sub_args(&sub);
                let far = |rng: &mut StdRng, from: u64| -> u64 {
                    match rng.gen_range(0..4) {
                        0 | 1 => from,
                        2 => from + rng.gen_range(1..5),
                        _ => u64::MAX,
                    }
                };
                let (xl, _) = rand_val(t, self.rng);
                let (m, rest): (&str, Vec<String>) = match self.rng.gen_range(0..5) {
                    0 => ("set", vec![format!("{}u64", far(self.rng, len)), xl.clone()]),
                    1 => ("insert", vec![format!("{}u64", far(self.rng, len + 1)), xl.clone()]),
                    2 => ("remove", vec![format!("{}u64", far(self.rng, len))]),
                    3 => ("swap_remove", vec![format!("{}u64", far(self.rng, len))]),
                    _ => {
                        let bad = far(self.rng, len);
                        let ok = if len > 0 { self.rng.gen_range(0..len) } else { bad };
                        if self.rng.gen_bool(0.5) {
                            ("swap", vec![format!("{bad}u64"), format!("{ok}u64")])
                        } else {
                            ("swap", vec![format!("{ok}u64"), format!("{bad}u64")])
                        }
                    }
                };
                let mut a = ka;
                a.extend(rest);
                Some(self.call(fi, m, a, Acc::Any, "revert", false))
            }
        }
    }
}

pub fn gen_history(schema: &Schema, rng: &mut StdRng, name: &str, want_revert: bool) -> History {
    let mut b = Builder::new(schema, rng);
    let nops = if want_revert { b.rng.gen_range(3..=12) } else { b.rng.gen_range(18..=30) };
    for _ in 0..nops {
        if b.rng.gen_bool(0.7) {
            b.write_and_sweep();
        } else {
            b.random_read();
        }
    }
    let mut revert = None;
    if want_revert {
        revert = b.reverting_op();
    }
    if revert.is_none() {
        b.final_readback();
    }
    // (splitting a history into several helper functions was tried and made the build 2-3x
    // slower: the compile cost grows with the number of functions more than with their size)
    let mut body = String::new();
    body.push_str(&format!("#[test]\nfn {name}() {{\n    let id: b256 = CONTRACT_ID;\n"));
    for l in &b.lines {
        body.push_str(l);
        body.push('\n');
    }
    body.push_str("}\n");
    History { name: name.to_string(), body, expect: b.expect, revert, stats: b.stats }
}

pub struct Package {
    pub schema: Schema,
    pub src: String,
    pub histories: Vec<History>,
}

pub fn gen_package(rng: &mut StdRng, nhist: usize) -> Package {
    let schema = gen_schema(rng);
    let mut src = contract_src(&schema);
    let mut histories = vec![];
    for i in 0..nhist {
        let want_revert = i % 6 == 5;
        let h = gen_history(&schema, rng, &format!("h_{i:03}"), want_revert);
        src.push('\n');
        src.push_str(&h.body);
        histories.push(h);
    }
    Package { schema, src, histories }
}
