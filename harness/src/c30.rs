//! C30: dependency fetching is crash-safe.
//!
//! Fault enumeration over the REAL fetch path of forc-pkg (`source::git::{pin, fetch}`,
//! `impl Fetch for git::Pinned`), run in dedicated child processes with HOME redirected:
//!
//!  * a dry run of `swverif c30-fetch` under strace lists every file-system syscall the fetching
//!    thread issues; every (syscall, k-th invocation) that mutates the file system below
//!    `$HOME/.forc` is a crash point (strace `inject=<syscall>:signal=SIGKILL:when=k`) and an
//!    I/O failure point (`:error=EIO|ENOSPC:when=k`);
//!  * the H6 hook points inside `fetch` are abort points / failure points;
//!  * two concurrent fetchers on one HOME, the lock holder killed inside the critical section.
//!
//! After every fault a fresh, fault-free child builds the same consumer with the same HOME
//! ("the later build"). Oracle: that build must succeed, and the checkout directory it compiled
//! against must be byte-identical to the pinned commit's tree as read from the fixture
//! repository through git2 (+ a valid `.forc_index` naming that commit).
use crate::common::*;
use crate::{Plan, Prop};
use rand::Rng;
use serde_json::{json, Value};
use std::collections::{BTreeMap, BTreeSet};
use std::os::unix::fs::PermissionsExt;
use std::os::unix::process::{CommandExt, ExitStatusExt};
use std::path::{Path, PathBuf};
use std::time::{Duration, Instant};

pub static META: PropertyMeta = PropertyMeta {
    id: "C30",
    level: "fault_enumeration",
    rule: "one case = (git reference kind, fault) on a seed-determined local file:// repository (2 commits, 21-43 files of 0 B..0.9 MB, nested dirs, exec bit, symlink; the library package `deplib` at its root): fault = SIGKILL / EIO / ENOSPC at the k-th invocation of one file-system syscall of the fetching thread (enumerated from a strace dry run), abort or injected error at a named hook point inside fetch, or a killed lock holder with a concurrent waiter; each followed by a fault-free build in a new process. non-trivial = the fault really struck (tracee killed / syscall marked INJECTED / hook point reached) at or after the first file-system mutation below $HOME/.forc; distinct = (reference kind, fault kind, syscall, k | point)",
    assumptions: &[
        "a crash is a process kill (SIGKILL): what the kernel has accepted survives; power loss / un-synced page cache is not modelled",
        "strace's per-syscall `when=k` counter identifies the same invocation in the dry run and in the fault run (checked per case: the syscall name and path of the struck invocation are compared with the dry run and drifts are counted)",
        "only the thread that performs the fetch is traced (strace without -f); the dry run under `strace -f` confirms no other thread of the child issues file-system mutations below $HOME/.forc",
        "git2/libgit2 reads of the fixture repository made by the harness (expected tree) are trusted",
    ],
    floor_evaluations: 12,
    floor_nontrivial: 8,
    required_counters: &["baseline_ok", "fault_struck_kill", "hook_abort_struck", "hook_fail_struck", "recovery_runs", "recovery_refetched", "tree_compared_ok"],
};

pub static PROP: Prop = Prop {
    meta: &META,
    plan: |t| Plan { nshards: 16, budget_s: t.pick(70.0, 1380.0), mem_gib: 8 },
    shard,
    replay,
    extra,
    subcommand,
};

/// hook points of H6; `fetch.renamed` only exists once the checkout is moved into place by a
/// rename (proposed fix) - a point that is never reached is counted, not judged
const POINTS: [&str; 6] = ["fetch.locked", "fetch.head_set", "fetch.dir_created", "fetch.checked_out", "fetch.index_written", "fetch.renamed"];
const REF_KINDS: [&str; 4] = ["rev", "tag", "branch", "default"];
const DEP: &str = "deplib";
const RESULT_TAG: &str = "C30RESULT ";
/// per child watchdog (a normal run takes well under a second)
const CHILD_WATCHDOG: Duration = Duration::from_secs(90);

/// syscalls traced in the dry run (`?` = tolerate names unknown to this strace/arch): the
/// file-system mutating calls (+ flock) ...
const TRACE_SET_MUTATING: &str = "?open,?openat,?openat2,?creat,?mkdir,?mkdirat,?write,?pwrite64,?writev,?pwritev,?rename,?renameat,?renameat2,?unlink,?unlinkat,?rmdir,?link,?linkat,?symlink,?symlinkat,?chmod,?fchmod,?fchmodat,?truncate,?ftruncate,?fallocate,?fsync,?fdatasync,?utimensat,?flock";
/// ... and, in the thorough tier, the read side as well (targets of injected EIO)
const TRACE_SET_READ: &str = "?read,?pread64,?getdents64,?stat,?lstat,?fstat,?newfstatat,?statx,?access,?faccessat,?faccessat2,?readlink,?readlinkat,?lseek";

fn trace_set(tier: Tier) -> String {
    match tier {
        Tier::Quick => TRACE_SET_MUTATING.to_string(),
        Tier::Thorough => format!("{TRACE_SET_MUTATING},{TRACE_SET_READ}"),
    }
}

// ------------------------------------------------------------------------------------------
// The child: `swverif c30-fetch <home> <consumer_dir> [--fail-at P | --abort-at P | --hold-at P]`

fn subcommand(args: &[String]) -> Option<i32> {
    if args.first().map(|s| s.as_str()) != Some("c30-fetch") {
        return None;
    }
    Some(child_main(&args[1..]))
}

fn child_main(a: &[String]) -> i32 {
    use std::sync::{Arc, Mutex};
    use sway_types::verif_hooks::{install, Action, Kind};
    if a.len() < 2 {
        eprintln!("usage: c30-fetch <home> <consumer_dir> [--fail-at P|--abort-at P|--hold-at P]");
        return 2;
    }
    let home = PathBuf::from(&a[0]);
    let consumer = a[1].clone();
    if !home.starts_with(Path::new(VERIF).join("work")) {
        eprintln!("c30-fetch: refusing a HOME outside /verif/work");
        return 2;
    }
    // the parent sets HOME as well; set it here too so that a direct invocation is safe
    std::env::set_var("HOME", &home);
    std::env::remove_var("XDG_CONFIG_HOME");
    let (mut mode, mut at) = (String::new(), String::new());
    if a.len() >= 4 {
        mode = a[2].clone();
        at = a[3].clone();
    }
    // forc reports diagnostics through `tracing`; print them to the log of this child
    let _ = tracing::subscriber::set_global_default(LogSubscriber);
    let points: Arc<Mutex<Vec<String>>> = Arc::new(Mutex::new(vec![]));
    {
        let points = points.clone();
        let home = home.clone();
        install(Some(Arc::new(move |_k: Kind, name: &'static str, _d: &str| {
            points.lock().unwrap().push(name.to_string());
            if name == at {
                match mode.as_str() {
                    "--fail-at" => {
                        let _ = std::fs::write(home.join("c30.struck"), name);
                        return Action::Fail;
                    }
                    "--abort-at" => {
                        let _ = std::fs::write(home.join("c30.struck"), name);
                        unsafe {
                            libc::kill(libc::getpid(), libc::SIGKILL);
                        }
                        loop {
                            std::thread::sleep(Duration::from_secs(1));
                        }
                    }
                    "--hold-at" => {
                        let _ = std::fs::write(home.join("c30.held"), name);
                        loop {
                            std::thread::sleep(Duration::from_secs(1));
                        }
                    }
                    _ => {}
                }
            }
            Action::Continue
        })));
    }
    let mut out = json!({"ok": false, "phase": "plan", "error": Value::Null, "dep_dir": Value::Null, "commit": Value::Null});
    let opts = forc_pkg::PkgOpts { path: Some(consumer.clone()), offline: false, terse: true, locked: false, output_directory: None, ipfs_node: Default::default() };
    // exactly what `forc build` does first: BuildPlan::from_pkg_opts -> from_lock_and_manifests ->
    // fetch_graph -> source::Source::pin -> git::Source::pin + git::Pinned::fetch
    let r = catch(std::panic::AssertUnwindSafe(|| forc_pkg::BuildPlan::from_pkg_opts(&opts)));
    match r {
        Err((loc, msg)) => {
            out["error"] = json!(format!("panic at {loc}: {msg}"));
            out["panic"] = json!(true);
        }
        Ok(Err(e)) => out["error"] = json!(format!("{e:#}")),
        Ok(Ok(plan)) => {
            out["phase"] = json!("build");
            let graph = plan.graph();
            for n in graph.node_indices() {
                let p = &graph[n];
                if p.name == DEP {
                    if let forc_pkg::source::Pinned::Git(g) = &p.source {
                        out["commit"] = json!(g.commit_hash);
                    }
                    if let Some(m) = plan.manifest_map().get(&p.id()) {
                        use forc_pkg::manifest::GenericManifestFile;
                        out["dep_dir"] = json!(m.dir().display().to_string());
                    }
                }
            }
            let outputs: std::collections::HashSet<_> = plan.member_nodes().collect();
            let profile = forc_pkg::BuildProfile::debug();
            let b = catch(std::panic::AssertUnwindSafe(|| forc_pkg::build(&plan, sway_core::BuildTarget::default(), &profile, &outputs, &[], &[], None)));
            match b {
                Err((loc, msg)) => {
                    out["error"] = json!(format!("panic at {loc}: {msg}"));
                    out["panic"] = json!(true);
                }
                Ok(Err(e)) => out["error"] = json!(format!("{e:#}")),
                Ok(Ok(built)) => {
                    out["ok"] = json!(true);
                    out["built"] = json!(built.len());
                }
            }
        }
    }
    out["points"] = json!(*points.lock().unwrap());
    println!("{RESULT_TAG}{out}");
    0
}

/// Minimal `tracing` subscriber: prints every event's fields to stderr.
struct LogSubscriber;

struct LogVisitor(String);

impl tracing::field::Visit for LogVisitor {
    fn record_debug(&mut self, field: &tracing::field::Field, value: &dyn std::fmt::Debug) {
        if field.name() == "message" {
            self.0.push_str(&format!("{value:?}"));
        } else {
            self.0.push_str(&format!(" {}={value:?}", field.name()));
        }
    }
    fn record_str(&mut self, field: &tracing::field::Field, value: &str) {
        if field.name() == "message" {
            self.0.push_str(value);
        } else {
            self.0.push_str(&format!(" {}={value}", field.name()));
        }
    }
}

impl tracing::Subscriber for LogSubscriber {
    fn enabled(&self, m: &tracing::Metadata<'_>) -> bool {
        *m.level() <= tracing::Level::INFO
    }
    fn new_span(&self, _: &tracing::span::Attributes<'_>) -> tracing::span::Id {
        tracing::span::Id::from_u64(1)
    }
    fn record(&self, _: &tracing::span::Id, _: &tracing::span::Record<'_>) {}
    fn record_follows_from(&self, _: &tracing::span::Id, _: &tracing::span::Id) {}
    fn event(&self, event: &tracing::Event<'_>) {
        let mut v = LogVisitor(String::new());
        event.record(&mut v);
        eprintln!("[{}] {}", event.metadata().level(), v.0);
    }
    fn enter(&self, _: &tracing::span::Id) {}
    fn exit(&self, _: &tracing::span::Id) {}
}

// ------------------------------------------------------------------------------------------
// Fixture: a local git repository holding the library package `deplib`, and a consumer package

#[derive(Clone, Debug)]
struct Fixture {
    repo: PathBuf,
    url: String,
    /// first commit (tag v1.0.0, branch `rel`), second commit (branch `main`, HEAD)
    c1: String,
    c2: String,
    nfiles: usize,
    bytes: u64,
}

impl Fixture {
    fn pinned_commit(&self, kind: &str) -> &str {
        match kind {
            "default" => &self.c2,
            _ => &self.c1,
        }
    }
    fn dep_line(&self, kind: &str) -> String {
        match kind {
            "rev" => format!("{DEP} = {{ git = \"{}\", rev = \"{}\" }}", self.url, self.c1),
            "tag" => format!("{DEP} = {{ git = \"{}\", tag = \"v1.0.0\" }}", self.url),
            "branch" => format!("{DEP} = {{ git = \"{}\", branch = \"rel\" }}", self.url),
            _ => format!("{DEP} = {{ git = \"{}\" }}", self.url),
        }
    }
}

fn gen_files(seed: u64) -> BTreeMap<String, (Vec<u8>, bool)> {
    let mut rng = rng_for(seed, 0xC30, 0);
    let mut files: BTreeMap<String, (Vec<u8>, bool)> = BTreeMap::new();
    files.insert(
        "Forc.toml".into(),
        (format!("[project]\nauthors = [\"verif\"]\nentry = \"lib.sw\"\nlicense = \"Apache-2.0\"\nname = \"{DEP}\"\nimplicit-std = false\n\n[dependencies]\n").into_bytes(), false),
    );
    let k: u64 = rng.gen_range(1..1000);
    files.insert("src/lib.sw".into(), (format!("library;\n\nmod util;\nmod deep;\n\npub fn dep_value() -> u64 {{\n    __add(__add(util::base(), deep::inner::more()), {k})\n}}\n").into_bytes(), false));
    files.insert("src/util.sw".into(), (b"library;\n\npub fn base() -> u64 {\n    40\n}\n".to_vec(), false));
    files.insert("src/deep.sw".into(), (b"library;\n\npub mod inner;\n".to_vec(), false));
    files.insert("src/deep/inner.sw".into(), (b"library;\n\npub fn more() -> u64 {\n    2\n}\n".to_vec(), false));
    files.insert(".gitignore".into(), (b"out\ntarget\n".to_vec(), false));
    files.insert("README.md".into(), (format!("# deplib fixture {seed}\n").into_bytes(), false));
    // data files before and after `src/` in index order, nested directories
    let dirs = ["assets", "assets/img", "assets/img/raw/a/b", "docs", "docs/api", "scripts", "tests", "tests/data", "tests/data/x/y/z", "vendor/third/party", "zz"];
    let n: usize = rng.gen_range(8..=30);
    for i in 0..n {
        let d = dirs[rng.gen_range(0..dirs.len())];
        let len = match rng.gen_range(0..10) {
            0 => 0,
            1..=6 => rng.gen_range(1..2000),
            7..=8 => rng.gen_range(2000..20_000),
            _ => rng.gen_range(20_000..70_000),
        };
        let mut data = vec![0u8; len];
        rng.fill(&mut data[..]);
        files.insert(format!("{d}/f{i:02}.bin"), (data, false));
    }
    // a few large blobs (multi-page writes), one early and one late in index order
    for (p, lo, hi) in [("assets/big0.dat", 150_000, 400_000), ("zz/big1.dat", 300_000, 900_000), ("tests/big2.dat", 70_000, 140_000)] {
        let len = rng.gen_range(lo..hi);
        let mut data = vec![0u8; len];
        rng.fill(&mut data[..]);
        files.insert(p.into(), (data, false));
    }
    files.insert("scripts/run.sh".into(), (b"#!/bin/sh\necho fixture\n".to_vec(), true));
    files.insert("tests/empty.txt".into(), (vec![], false));
    files
}

fn make_fixture(root: &Path, seed: u64) -> Result<Fixture, String> {
    let e = |x: git2::Error| format!("git2: {x}");
    let repo_dir = root.join("deplib-origin");
    clean_dir(&repo_dir);
    let mut opts = git2::RepositoryInitOptions::new();
    opts.initial_head("main");
    let repo = git2::Repository::init_opts(&repo_dir, &opts).map_err(e)?;
    let files = gen_files(seed);
    let write_all = |files: &BTreeMap<String, (Vec<u8>, bool)>| -> Result<(), String> {
        for (p, (data, exec)) in files {
            let fp = repo_dir.join(p);
            std::fs::create_dir_all(fp.parent().unwrap()).map_err(|x| x.to_string())?;
            std::fs::write(&fp, data).map_err(|x| x.to_string())?;
            if *exec {
                std::fs::set_permissions(&fp, std::fs::Permissions::from_mode(0o755)).map_err(|x| x.to_string())?;
            }
        }
        Ok(())
    };
    write_all(&files)?;
    std::os::unix::fs::symlink("../README.md", repo_dir.join("docs/readme-link")).map_err(|x| x.to_string())?;
    let commit = |msg: &str, t: i64, parents: &[&git2::Commit]| -> Result<git2::Oid, String> {
        let mut index = repo.index().map_err(e)?;
        index.add_all(["*"].iter(), git2::IndexAddOption::FORCE, None).map_err(e)?;
        index.update_all(["*"].iter(), None).map_err(e)?;
        index.write().map_err(e)?;
        let tree = repo.find_tree(index.write_tree().map_err(e)?).map_err(e)?;
        let sig = git2::Signature::new("verif", "verif@example.invalid", &git2::Time::new(t, 0)).map_err(e)?;
        repo.commit(Some("HEAD"), &sig, &sig, msg, &tree, parents).map_err(e)
    };
    let c1 = commit("first", 1_700_000_000, &[])?;
    let c1c = repo.find_commit(c1).map_err(e)?;
    repo.tag_lightweight("v1.0.0", c1c.as_object(), true).map_err(e)?;
    repo.branch("rel", &c1c, true).map_err(e)?;
    // second commit on main: change, add and delete files so that the two trees differ
    let mut files2: BTreeMap<String, (Vec<u8>, bool)> = BTreeMap::new();
    files2.insert("src/util.sw".into(), (b"library;\n\npub fn base() -> u64 {\n    41\n}\n".to_vec(), false));
    files2.insert("docs/CHANGELOG.md".into(), (b"second commit\n".to_vec(), false));
    files2.insert("zz/big1.dat".into(), (vec![7u8; 123_457], false));
    write_all(&files2)?;
    std::fs::remove_file(repo_dir.join("tests/empty.txt")).map_err(|x| x.to_string())?;
    let c2 = commit("second", 1_700_000_100, &[&c1c])?;
    let bytes = files.values().map(|v| v.0.len() as u64).sum();
    Ok(Fixture { url: format!("file://{}", repo_dir.display()), repo: repo_dir, c1: c1.to_string(), c2: c2.to_string(), nfiles: files.len() + 1, bytes })
}

fn write_consumer(dir: &Path, fx: &Fixture, kind: &str) {
    clean_dir(dir);
    std::fs::create_dir_all(dir.join("src")).ok();
    let toml = format!("[project]\nauthors = [\"verif\"]\nentry = \"lib.sw\"\nlicense = \"Apache-2.0\"\nname = \"consumer\"\nimplicit-std = false\n\n[dependencies]\n{}\n", fx.dep_line(kind));
    std::fs::write(dir.join("Forc.toml"), toml).expect("write consumer manifest");
    std::fs::write(dir.join("src/lib.sw"), format!("library;\n\nuse {DEP}::dep_value;\n\npub fn consumer_value() -> u64 {{\n    __add(dep_value(), 1)\n}}\n")).expect("write consumer source");
}

// ------------------------------------------------------------------------------------------
// Trees

#[derive(Clone, Debug, PartialEq, Eq)]
enum Ent {
    File { sha: String, len: u64, exec: bool },
    Link(String),
}

fn commit_tree(repo_path: &Path, commit: &str) -> Result<BTreeMap<String, Ent>, String> {
    let e = |x: git2::Error| format!("git2: {x}");
    let repo = git2::Repository::open(repo_path).map_err(e)?;
    let c = repo.find_commit(git2::Oid::from_str(commit).map_err(e)?).map_err(e)?;
    let tree = c.tree().map_err(e)?;
    let mut out = BTreeMap::new();
    let mut err = None;
    tree.walk(git2::TreeWalkMode::PreOrder, |dir, entry| {
        if entry.kind() == Some(git2::ObjectType::Blob) {
            let name = match entry.name() {
                Some(n) => format!("{dir}{n}"),
                None => {
                    err = Some("non-utf8 name".to_string());
                    return git2::TreeWalkResult::Abort;
                }
            };
            match repo.find_blob(entry.id()) {
                Ok(b) => {
                    let mode = entry.filemode();
                    if mode == 0o120000 {
                        out.insert(name, Ent::Link(String::from_utf8_lossy(b.content()).to_string()));
                    } else {
                        out.insert(name, Ent::File { sha: sha_hex(b.content()), len: b.content().len() as u64, exec: mode & 0o111 != 0 });
                    }
                }
                Err(x) => {
                    err = Some(format!("git2: {x}"));
                    return git2::TreeWalkResult::Abort;
                }
            }
        }
        git2::TreeWalkResult::Ok
    })
    .map_err(e)?;
    match err {
        Some(x) => Err(x),
        None => Ok(out),
    }
}

/// (files and links below `dir` except the top-level `.forc_index`, empty directories)
fn dir_tree(dir: &Path) -> (BTreeMap<String, Ent>, Vec<String>) {
    let mut out = BTreeMap::new();
    let mut empty = vec![];
    for ent in walkdir::WalkDir::new(dir).follow_links(false).min_depth(1).into_iter().filter_map(|x| x.ok()) {
        let rel = ent.path().strip_prefix(dir).unwrap().to_string_lossy().to_string();
        let ft = ent.file_type();
        if ft.is_symlink() {
            let t = std::fs::read_link(ent.path()).map(|p| p.to_string_lossy().to_string()).unwrap_or_default();
            out.insert(rel, Ent::Link(t));
        } else if ft.is_dir() {
            if std::fs::read_dir(ent.path()).map(|mut d| d.next().is_none()).unwrap_or(false) {
                empty.push(rel);
            }
        } else {
            if rel == ".forc_index" {
                continue;
            }
            let data = std::fs::read(ent.path()).unwrap_or_default();
            let exec = ent.metadata().map(|m| m.permissions().mode() & 0o111 != 0).unwrap_or(false);
            out.insert(rel, Ent::File { sha: sha_hex(&data), len: data.len() as u64, exec });
        }
    }
    (out, empty)
}

#[derive(Clone, Debug, Default)]
struct TreeDiff {
    missing: Vec<String>,
    different: Vec<String>,
    extra: Vec<String>,
    /// "ok" | "missing" | "invalid" | "wrong-commit"
    index: String,
    present: usize,
    /// entries present in git's degraded representation (see `degraded_representation`)
    degraded: usize,
}

impl TreeDiff {
    fn tree_ok(&self) -> bool {
        self.missing.is_empty() && self.different.is_empty() && self.extra.is_empty()
    }
    fn ok(&self) -> bool {
        self.tree_ok() && self.index == "ok"
    }
    /// outcome class used in signatures (no file names, no counts): an incomplete tree
    /// (missing / truncated / extra entries) dominates; otherwise what is wrong with the index
    fn class(&self) -> String {
        if !self.tree_ok() {
            return "incomplete-tree".into();
        }
        match self.index.as_str() {
            "ok" => "ok",
            "missing" => "index-missing",
            "invalid" => "index-invalid",
            _ => "index-wrong-commit",
        }
        .into()
    }
    /// detail for counters
    fn detail(&self) -> Vec<&'static str> {
        let mut parts = vec![];
        if !self.missing.is_empty() {
            parts.push("missing-files");
        }
        if !self.different.is_empty() {
            parts.push("truncated-or-different-files");
        }
        if !self.extra.is_empty() {
            parts.push("extra-entries");
        }
        if self.index != "ok" {
            parts.push("bad-index");
        }
        parts
    }
    fn brief(&self) -> String {
        let f = |v: &Vec<String>| format!("{}{}", v.len(), v.first().map(|s| format!(" (e.g. {s})")).unwrap_or_default());
        format!("missing={} different={} extra={} index={} present={}", f(&self.missing), f(&self.different), f(&self.extra), self.index, self.present)
    }
}

/// git's documented representation of a tree on a file system it has probed as lacking
/// symlinks (`core.symlinks=false`: the link becomes a regular file holding the target path) or
/// lacking an executable bit (`core.filemode=false`). libgit2 makes these probes when the
/// temporary repository is initialised, and an injected I/O error can make a probe fail. The
/// content is complete and nothing is partially written, so this is not counted as a difference.
fn degraded_representation(expected: &Ent, actual: &Ent) -> bool {
    match (expected, actual) {
        (Ent::Link(t), Ent::File { sha, .. }) => *sha == sha_hex(t.as_bytes()),
        (Ent::File { sha: s1, len: l1, exec: true }, Ent::File { sha: s2, len: l2, exec: false }) => s1 == s2 && l1 == l2,
        _ => false,
    }
}

fn compare_checkout(dir: &Path, expected: &BTreeMap<String, Ent>, commit: &str) -> TreeDiff {
    let (actual, empty_dirs) = dir_tree(dir);
    let mut d = TreeDiff::default();
    for (p, e) in expected {
        match actual.get(p) {
            None => d.missing.push(p.clone()),
            Some(a) if a == e => d.present += 1,
            Some(a) if degraded_representation(e, a) => {
                d.present += 1;
                d.degraded += 1;
            }
            Some(_) => d.different.push(p.clone()),
        }
    }
    for p in actual.keys() {
        if !expected.contains_key(p) {
            d.extra.push(p.clone());
        }
    }
    for p in empty_dirs {
        d.extra.push(format!("{p}/"));
    }
    d.index = match std::fs::read_to_string(dir.join(".forc_index")) {
        Err(_) => "missing".into(),
        Ok(s) => match serde_json::from_str::<forc_pkg::source::git::SourceIndex>(&s) {
            Err(_) => "invalid".into(),
            Ok(ix) if ix.head_with_time.0 == commit => "ok".into(),
            Ok(_) => "wrong-commit".into(),
        },
    };
    d
}

/// State of the forc cache below `home` after a fault: (class, tmp leftovers, checkout dir if any)
fn classify_state(home: &Path, expected: &BTreeMap<String, Ent>, commit: &str) -> (String, bool, Option<PathBuf>) {
    let checkouts = home.join(".forc/git/checkouts");
    if !home.join(".forc").exists() {
        return ("nothing".into(), false, None);
    }
    let tmp_left = std::fs::read_dir(checkouts.join("tmp")).map(|mut d| d.next().is_some()).unwrap_or(false);
    let mut final_dir = None;
    let mut other_commit_dirs = 0;
    if let Ok(rd) = std::fs::read_dir(&checkouts) {
        for e in rd.filter_map(|e| e.ok()) {
            let name = e.file_name().to_string_lossy().to_string();
            if name.starts_with(&format!("{DEP}-")) {
                if let Ok(rd2) = std::fs::read_dir(e.path()) {
                    for c in rd2.filter_map(|c| c.ok()) {
                        if c.file_name().to_string_lossy() == commit {
                            final_dir = Some(c.path());
                        } else {
                            other_commit_dirs += 1;
                        }
                    }
                }
            }
        }
    }
    let class = match &final_dir {
        None => {
            if other_commit_dirs > 0 {
                "staging-only"
            } else if tmp_left {
                "tmp-only"
            } else {
                "no-checkout"
            }
            .to_string()
        }
        Some(dir) => {
            let d = compare_checkout(dir, expected, commit);
            if d.ok() {
                "final-dir:complete".into()
            } else if d.present == 0 && d.different.is_empty() && d.extra.is_empty() && d.index == "missing" {
                "final-dir:empty".into()
            } else if d.tree_ok() {
                format!("final-dir:complete-tree-{}", d.class())
            } else {
                "final-dir:partial".into()
            }
        }
    };
    (class, tmp_left, final_dir)
}

// ------------------------------------------------------------------------------------------
// Running children

#[derive(Clone, Debug, PartialEq)]
enum Exit {
    Code(i32),
    Signal(i32),
    Timeout,
    SpawnError(String),
}

#[derive(Clone, Debug)]
struct RunOut {
    exit: Exit,
    result: Option<Value>,
}

impl RunOut {
    fn ok(&self) -> bool {
        self.result.as_ref().map(|r| r["ok"] == json!(true)).unwrap_or(false)
    }
    fn error(&self) -> String {
        self.result.as_ref().and_then(|r| r["error"].as_str().map(|s| s.to_string())).unwrap_or_default()
    }
    fn points(&self) -> Vec<String> {
        self.result.as_ref().and_then(|r| serde_json::from_value(r["points"].clone()).ok()).unwrap_or_default()
    }
    fn refetched(&self) -> bool {
        self.points().iter().any(|p| p == "fetch.dir_created")
    }
}

struct Strace<'a> {
    trace_file: &'a Path,
    follow: bool,
    /// e.g. "openat:signal=SIGKILL:when=7"
    inject: Option<String>,
    /// trace set; for fault runs only the struck syscall needs tracing
    trace_set: String,
}

fn spawn_child(home: &Path, consumer: &Path, extra: &[String], st: Option<&Strace>, log: &Path) -> std::io::Result<std::process::Child> {
    let exe = std::env::current_exe()?;
    let mut cmd;
    if let Some(st) = st {
        cmd = std::process::Command::new("strace");
        cmd.arg("-o").arg(st.trace_file).arg("-y").arg("-s").arg("0").arg("-e").arg(format!("trace={}", st.trace_set));
        if st.follow {
            // only used without injection: signal injection does not work at seccomp stops
            cmd.arg("-f").arg("--seccomp-bpf");
        }
        if let Some(i) = &st.inject {
            cmd.arg("-e").arg(format!("inject={i}"));
        }
        cmd.arg(&exe);
    } else {
        cmd = std::process::Command::new(&exe);
    }
    cmd.arg("c30-fetch").arg(home).arg(consumer).args(extra);
    let out = std::fs::File::create(log)?;
    let err = out.try_clone()?;
    cmd.env("HOME", home)
        .env_remove("XDG_CONFIG_HOME")
        .env_remove("RUST_LOG")
        .env("GIT_CONFIG_NOSYSTEM", "1")
        .current_dir(consumer)
        .stdin(std::process::Stdio::null())
        .stdout(out)
        .stderr(err)
        .process_group(0);
    cmd.spawn()
}

fn kill_group(child: &mut std::process::Child) {
    unsafe {
        libc::kill(-(child.id() as i32), libc::SIGKILL);
    }
    let _ = child.kill();
    let _ = child.wait();
}

fn wait_child(mut child: std::process::Child, log: &Path, start: Instant) -> RunOut {
    let exit = loop {
        match child.try_wait() {
            Ok(Some(st)) => {
                break match (st.code(), st.signal()) {
                    (Some(c), _) => Exit::Code(c),
                    (None, Some(s)) => Exit::Signal(s),
                    _ => Exit::Code(-1),
                }
            }
            Ok(None) => {
                if start.elapsed() > CHILD_WATCHDOG {
                    kill_group(&mut child);
                    break Exit::Timeout;
                }
                std::thread::sleep(Duration::from_millis(3));
            }
            Err(e) => break Exit::SpawnError(e.to_string()),
        }
    };
    // make sure nothing of the group survives (e.g. a tracee whose tracer died)
    unsafe {
        libc::kill(-(child.id() as i32), libc::SIGKILL);
    }
    let text = std::fs::read_to_string(log).unwrap_or_default();
    let result = text.lines().rev().find_map(|l| l.find(RESULT_TAG).and_then(|i| serde_json::from_str::<Value>(&l[i + RESULT_TAG.len()..]).ok()));
    RunOut { exit, result }
}

fn run_child(home: &Path, consumer: &Path, extra: &[String], st: Option<&Strace>, log: &Path) -> RunOut {
    let start = Instant::now();
    match spawn_child(home, consumer, extra, st, log) {
        Ok(c) => wait_child(c, log, start),
        Err(e) => RunOut { exit: Exit::SpawnError(e.to_string()), result: None },
    }
}

// ------------------------------------------------------------------------------------------
// Trace parsing

#[derive(Clone, Debug)]
struct Call {
    name: String,
    /// rank among the calls with the same name of the same tracee (what strace's `when=` counts)
    k: u32,
    /// "core" = below $HOME/.forc but not inside the temporary git repository (checkout / staging
    /// directory, lock files, directory skeleton); "tmp" = inside `.git` of the temporary git
    /// repository below $HOME/.forc/git/checkouts/tmp; "outside"
    zone: &'static str,
    /// mutates the file system (by name, or by open flags)
    mutating: bool,
    /// compact description for evidence / drift detection (paths and hex ids normalised)
    what: String,
}

#[derive(Default)]
struct TraceInfo {
    /// calls of the main tracee (the process strace started), in order
    calls: Vec<Call>,
    /// per other tracee: syscall name -> number of calls
    others: BTreeMap<String, BTreeMap<String, u32>>,
    /// other tracees that mutate below $HOME/.forc
    others_mutating_cache: u64,
    killed: bool,
    injected: usize,
}

fn is_mutating(name: &str, line: &str) -> bool {
    match name {
        "open" | "openat" | "openat2" => line.contains("O_CREAT") || line.contains("O_WRONLY") || line.contains("O_RDWR") || line.contains("O_TRUNC"),
        "creat" | "mkdir" | "mkdirat" | "write" | "pwrite64" | "writev" | "pwritev" | "rename" | "renameat" | "renameat2" | "unlink" | "unlinkat" | "rmdir" | "link" | "linkat" | "symlink" | "symlinkat" | "chmod" | "fchmod" | "fchmodat" | "truncate" | "ftruncate" | "fallocate" | "fsync" | "fdatasync" | "utimensat" => true,
        _ => false,
    }
}

fn is_mutating_name(name: &str, what: &str) -> bool {
    is_mutating(name, what)
}

fn allocating(name: &str) -> bool {
    matches!(name, "open" | "openat" | "openat2" | "creat" | "mkdir" | "mkdirat" | "write" | "pwrite64" | "writev" | "pwritev" | "rename" | "renameat" | "renameat2" | "symlink" | "symlinkat" | "link" | "linkat" | "ftruncate" | "fallocate")
}

fn normalise_what(line: &str, home: &str, root: &str) -> String {
    // keep the call up to the result, shorten the path prefixes, collapse hex runs (fetch ids,
    // temp names, object ids)
    let l = line.split(" = ").next().unwrap_or(line).replace(" <unfinished ...>", "").replace(home, "~").replace(root, "@");
    let l = l.trim_end().trim_end_matches(')').to_string();
    let mut out = String::new();
    let mut run = String::new();
    let flush = |run: &mut String, out: &mut String| {
        if run.len() >= 8 && run.chars().all(|c| c.is_ascii_hexdigit()) {
            out.push('#');
        } else {
            out.push_str(run);
        }
        run.clear();
    };
    for c in l.chars() {
        if c.is_ascii_alphanumeric() {
            run.push(c);
        } else {
            flush(&mut run, &mut out);
            out.push(c);
        }
    }
    flush(&mut run, &mut out);
    out.chars().take(200).collect()
}

/// Parse an strace output file. `with_pid`: written with -f (every line starts with the pid).
fn parse_trace(path: &Path, home: &Path, with_pid: bool) -> TraceInfo {
    let text = std::fs::read_to_string(path).unwrap_or_default();
    let home_s = home.display().to_string();
    // the per-case directory that holds `home/` and `consumer/`
    let root_s = home.parent().unwrap_or(home).display().to_string();
    let cache = format!("{home_s}/.forc");
    let tmp = format!("{home_s}/.forc/git/checkouts/tmp");
    let mut info = TraceInfo::default();
    let mut ranks: BTreeMap<String, u32> = BTreeMap::new();
    let mut main_pid: Option<String> = None;
    let mut others_mut: BTreeSet<String> = BTreeSet::new();
    for raw in text.lines() {
        let (pid, line) = if with_pid {
            let mut it = raw.splitn(2, ' ');
            match (it.next(), it.next()) {
                (Some(p), Some(r)) => (p.to_string(), r.trim_start()),
                _ => continue,
            }
        } else {
            (String::new(), raw)
        };
        if main_pid.is_none() {
            main_pid = Some(pid.clone());
        }
        let is_main = main_pid.as_deref() == Some(pid.as_str());
        if line.starts_with("+++") {
            if line.contains("killed by SIGKILL") && is_main {
                info.killed = true;
            }
            continue;
        }
        if line.starts_with("---") || line.starts_with("<...") {
            continue;
        }
        let Some(p) = line.find('(') else { continue };
        let name = &line[..p];
        if name.is_empty() || !name.chars().all(|c| c.is_ascii_alphanumeric() || c == '_') {
            continue;
        }
        if raw.contains("(INJECTED)") {
            info.injected += 1;
        }
        // the temporary git repository = `.git` below checkouts/tmp/<id>-<name>-<hash>/; a staging
        // checkout directory below checkouts/tmp (if the code under test uses one) is "core"
        let zone = if line.contains(&tmp) && line.contains("/.git") {
            "tmp"
        } else if line.contains(&cache) {
            "core"
        } else {
            "outside"
        };
        let mutating = is_mutating(name, line);
        if is_main {
            let r = ranks.entry(name.to_string()).or_insert(0);
            *r += 1;
            info.calls.push(Call { name: name.to_string(), k: *r, zone, mutating, what: normalise_what(line, &home_s, &root_s) });
        } else {
            *info.others.entry(pid.clone()).or_default().entry(name.to_string()).or_insert(0) += 1;
            if mutating && zone != "outside" {
                others_mut.insert(pid);
            }
        }
    }
    info.others_mutating_cache = others_mut.len() as u64;
    info
}

// ------------------------------------------------------------------------------------------
// Cases

#[derive(Clone, Debug, serde::Serialize, serde::Deserialize, PartialEq, Eq, PartialOrd, Ord)]
struct Case {
    /// fixture seed
    seed: u64,
    /// rev | tag | branch | default
    kind: String,
    /// kill | eio | enospc | kill-twice | abort-at | fail-at | concurrent
    fault: String,
    /// syscall name (kill/eio/enospc/kill-twice) or hook point
    at: String,
    /// rank of the invocation (syscall faults), else 0
    k: u32,
    /// kill-twice: the second kill, struck during the recovery build
    #[serde(default)]
    at2: String,
    #[serde(default)]
    k2: u32,
    /// what the dry run saw at (at, k), for drift detection and for the reader
    #[serde(default)]
    expect_what: String,
    #[serde(default)]
    zone: String,
}

impl Case {
    fn fault_class(&self) -> &'static str {
        match self.fault.as_str() {
            "kill" | "kill-twice" | "abort-at" | "concurrent" => "crash",
            _ => "io-error",
        }
    }
    fn label(&self) -> String {
        if self.fault == "kill-twice" {
            format!("{}:{}:{}:{}+{}:{}", self.kind, self.fault, self.at, self.k, self.at2, self.k2)
        } else {
            format!("{}:{}:{}:{}", self.kind, self.fault, self.at, self.k)
        }
    }
    fn new(seed: u64, kind: &str, fault: &str, at: &str, k: u32) -> Case {
        Case { seed, kind: kind.into(), fault: fault.into(), at: at.into(), k, at2: String::new(), k2: 0, expect_what: String::new(), zone: String::new() }
    }
}

struct Env {
    fx: Fixture,
    /// scratch root for homes / consumers / logs
    root: PathBuf,
    expected: BTreeMap<String, BTreeMap<String, Ent>>,
}

impl Env {
    fn new(root: &Path, seed: u64) -> Result<Env, String> {
        std::fs::create_dir_all(root).map_err(|e| e.to_string())?;
        let fx = make_fixture(root, seed)?;
        let mut expected = BTreeMap::new();
        for c in [&fx.c1, &fx.c2] {
            expected.insert(c.clone(), commit_tree(&fx.repo, c)?);
        }
        if expected[&fx.c1] == expected[&fx.c2] {
            return Err("fixture: the two commits have the same tree".into());
        }
        Ok(Env { fx, root: root.to_path_buf(), expected })
    }
    fn expected_for(&self, kind: &str) -> (&str, &BTreeMap<String, Ent>) {
        let c = self.fx.pinned_commit(kind);
        (c, &self.expected[c])
    }
    /// fresh HOME + consumer below `<root>/<name>/`
    fn fresh(&self, name: &str, kind: &str) -> (PathBuf, PathBuf, PathBuf) {
        let base = self.root.join(name);
        clean_dir(&base);
        let home = base.join("home");
        std::fs::create_dir_all(&home).ok();
        let consumer = base.join("consumer");
        write_consumer(&consumer, &self.fx, kind);
        (base, home, consumer)
    }
}

/// Class of a failing later build, for signatures: what failed, without paths, ids or counts.
fn error_class(err: &str) -> String {
    let e = err.to_lowercase();
    let known = [
        ("failed to find package", "failed to find package"),
        ("failed to validate path from entry field", "entry file missing"),
        ("failed to compile", "compile error"),
        ("parsing", "dependency source does not parse"),
        ("injected failure", "injected failure surfaced"),
        ("panic at", "panic"),
    ];
    for (needle, class) in known {
        if e.contains(needle) {
            return class.to_string();
        }
    }
    // generic: strip paths, hex and digits
    let mut out = String::new();
    for w in err.split_whitespace().take(12) {
        if w.contains('/') {
            out.push_str("<path> ");
        } else {
            let w: String = w.chars().map(|c| if c.is_ascii_digit() { '#' } else { c }).collect();
            out.push_str(&w);
            out.push(' ');
        }
    }
    out.trim().chars().take(80).collect()
}

/// Baseline sanity for one reference kind: a fault-free fetch+build in a fresh HOME succeeds,
/// fetched, and its checkout equals the commit tree; a second build re-uses it.
fn baseline(env: &Env, kind: &str, res: &mut ShardResult) -> Result<(), String> {
    let (base, home, consumer) = env.fresh(&format!("baseline-{kind}"), kind);
    let (commit, expected) = env.expected_for(kind);
    let r = run_child(&home, &consumer, &[], None, &base.join("run1.log"));
    if !r.ok() {
        return Err(format!("baseline build ({kind}) failed: exit={:?} error={} log={}", r.exit, r.error(), base.join("run1.log").display()));
    }
    let res1 = r.result.clone().unwrap();
    if res1["commit"].as_str() != Some(commit) {
        return Err(format!("baseline ({kind}) pinned {} but the fixture says {commit}", res1["commit"]));
    }
    if !r.refetched() {
        return Err(format!("baseline ({kind}) did not pass the fetch hook points: {:?}", r.points()));
    }
    let dep_dir = PathBuf::from(res1["dep_dir"].as_str().unwrap_or(""));
    if !dep_dir.starts_with(&home) {
        return Err(format!("baseline ({kind}) compiled against {} which is outside the redirected HOME {}", dep_dir.display(), home.display()));
    }
    let d = compare_checkout(&dep_dir, expected, commit);
    if !d.ok() {
        return Err(format!("baseline ({kind}) checkout differs from the commit tree: {}", d.brief()));
    }
    let (class, _, _) = classify_state(&home, expected, commit);
    if class != "final-dir:complete" {
        return Err(format!("baseline ({kind}) state classified as {class}"));
    }
    // oracle self-test on real data: a damaged copy of the checkout must be told apart
    let victim = expected.iter().find(|(_, e)| matches!(e, Ent::File { len, .. } if *len > 10)).map(|(p, _)| p.clone());
    if let Some(v) = victim {
        let data = std::fs::read(dep_dir.join(&v)).unwrap_or_default();
        let _ = std::fs::write(dep_dir.join(&v), &data[..data.len() / 2]);
        let d2 = compare_checkout(&dep_dir, expected, commit);
        let _ = std::fs::write(dep_dir.join(&v), &data);
        if d2.ok() || d2.different.len() != 1 {
            return Err(format!("oracle self-test: a truncated file was not detected ({})", d2.brief()));
        }
        res.count("oracle_selftest_truncation_detected");
        // ... and so must a missing file, an extra file and a damaged index
        let _ = std::fs::rename(dep_dir.join(&v), dep_dir.join("c30-selftest-extra"));
        let d3 = compare_checkout(&dep_dir, expected, commit);
        let _ = std::fs::rename(dep_dir.join("c30-selftest-extra"), dep_dir.join(&v));
        let ix = std::fs::read(dep_dir.join(".forc_index")).unwrap_or_default();
        let _ = std::fs::write(dep_dir.join(".forc_index"), b"");
        let d4 = compare_checkout(&dep_dir, expected, commit);
        let _ = std::fs::write(dep_dir.join(".forc_index"), &ix);
        if d3.missing.len() != 1 || d3.extra.len() != 1 || d4.index != "invalid" || !compare_checkout(&dep_dir, expected, commit).ok() {
            return Err(format!("oracle self-test: missing/extra/index damage not detected ({} | {})", d3.brief(), d4.brief()));
        }
        res.count("oracle_selftest_missing_extra_index_detected");
    }
    let r2 = run_child(&home, &consumer, &[], None, &base.join("run2.log"));
    if !r2.ok() {
        return Err(format!("baseline ({kind}) second build failed: {}", r2.error()));
    }
    let d3 = compare_checkout(&dep_dir, expected, commit);
    if !d3.ok() {
        return Err(format!("baseline ({kind}) checkout after the second build differs from the commit tree: {}", d3.brief()));
    }
    // re-use of the cached checkout is the expected behaviour, but fetching again is allowed by the property
    res.count(if r2.refetched() { "baseline_second_build_refetched" } else { "baseline_second_build_reused" });
    res.count("baseline_ok");
    res.count(&format!("baseline_ok_{kind}"));
    res.max("max_fixture_tree_entries", expected.len() as u64);
    let _ = std::fs::remove_dir_all(&base);
    Ok(())
}

/// Dry run under `strace -f`: the calls of the fetching (main) thread, and what other threads do.
fn dry_run(env: &Env, kind: &str, tier: Tier, res: &mut ShardResult) -> Result<TraceInfo, String> {
    let (base, home, consumer) = env.fresh(&format!("dry-{kind}"), kind);
    let trace = base.join("trace.txt");
    let st = Strace { trace_file: &trace, follow: true, inject: None, trace_set: trace_set(tier) };
    let r = run_child(&home, &consumer, &[], Some(&st), &base.join("run.log"));
    if !r.ok() {
        return Err(format!("dry run under strace ({kind}) failed: exit={:?} error={} log={}", r.exit, r.error(), base.join("run.log").display()));
    }
    let info = parse_trace(&trace, &home, true);
    let n = info.calls.iter().filter(|c| c.mutating && c.zone != "outside").count();
    if n < 20 {
        return Err(format!("dry run ({kind}) saw only {} calls, {n} mutating in the cache: tracing does not work", info.calls.len()));
    }
    // libgit2 has time-dependent re-reads (racy timestamps): enumerate only ranks that exist in
    // two independent dry runs
    let (base2, home2, consumer2) = env.fresh(&format!("dry2-{kind}"), kind);
    let trace2 = base2.join("trace.txt");
    let st2 = Strace { trace_file: &trace2, follow: true, inject: None, trace_set: trace_set(tier) };
    let r2 = run_child(&home2, &consumer2, &[], Some(&st2), &base2.join("run.log"));
    if !r2.ok() {
        return Err(format!("second dry run under strace ({kind}) failed: exit={:?} error={}", r2.exit, r2.error()));
    }
    let info2 = parse_trace(&trace2, &home2, true);
    let mut count2: BTreeMap<String, u32> = BTreeMap::new();
    for c in &info2.calls {
        let e = count2.entry(c.name.clone()).or_insert(0);
        *e = (*e).max(c.k);
    }
    let mut info = info;
    let before = info.calls.len();
    info.calls.retain(|c| c.k <= count2.get(&c.name).copied().unwrap_or(0));
    res.add("dry_run_ranks_dropped_as_unstable", (before - info.calls.len()) as u64);
    if info.calls.len() != info2.calls.len() {
        res.count("dry_runs_differed_in_length");
    }
    let _ = std::fs::remove_dir_all(&base2);
    res.max("max_other_threads_mutating_cache", info.others_mutating_cache);
    if info.others_mutating_cache > 0 {
        res.inconclusive(format!("{} other threads of the child mutate the cache; only the main thread's calls are enumerated", info.others_mutating_cache));
    }
    let _ = std::fs::remove_dir_all(&base);
    Ok(info)
}

/// The oracle for "the later build" `r` that ran on `home`. Returns the outcome class and
/// Some(description) when the property is violated.
fn judge_later_build(env: &Env, kind: &str, home: &Path, r: &RunOut, res: &mut ShardResult) -> (String, Option<String>) {
    let (commit, expected) = env.expected_for(kind);
    match &r.exit {
        Exit::Timeout => return ("inconclusive:the later build hit the watchdog (hung?)".into(), None),
        Exit::SpawnError(e) => return (format!("inconclusive:spawn {e}"), None),
        Exit::Signal(s) => return (format!("inconclusive:later build died with signal {s}"), None),
        Exit::Code(_) => {}
    }
    let Some(result) = &r.result else {
        return ("inconclusive:no result line from the later build".into(), None);
    };
    if !r.ok() {
        let class = error_class(&r.error());
        return (format!("recovery-fails({class})"), Some(format!("the later build fails: {}", r.error().chars().take(300).collect::<String>())));
    }
    if result["commit"].as_str() != Some(commit) {
        return ("recovery-pins-other-commit".into(), Some(format!("the later build pinned {} instead of {commit}", result["commit"])));
    }
    let dep_dir = PathBuf::from(result["dep_dir"].as_str().unwrap_or(""));
    if !dep_dir.starts_with(home) {
        return ("inconclusive:dep dir outside HOME".into(), None);
    }
    let d = compare_checkout(&dep_dir, expected, commit);
    let how = if r.refetched() { "refetched" } else { "reused" };
    res.count(&format!("recovery_{how}"));
    if d.degraded > 0 {
        res.count("checkout_in_degraded_representation_no_symlink_or_filemode");
    }
    if d.ok() {
        res.count("tree_compared_ok");
        res.add("files_compared", expected.len() as u64);
        (format!("recovery-ok:{how}"), None)
    } else {
        for p in d.detail() {
            res.count(&format!("partial_checkout_used_{p}"));
        }
        (format!("recovery-{how}-partial-checkout({})", d.class()), Some(format!("the later build succeeded against a checkout that is not the pinned commit's tree: {}", d.brief())))
    }
}

/// One strace fault run. Returns (run, struck, description of the struck call).
fn syscall_fault_run(_env: &Env, case: &Case, fault: &str, at: &str, k: u32, home: &Path, consumer: &Path, base: &Path, tag: &str, res: &mut ShardResult) -> (RunOut, bool, String) {
    let trace = base.join(format!("trace-{tag}.txt"));
    let inj = match fault {
        "kill" => format!("{at}:signal=SIGKILL:when={k}"),
        "eio" => format!("{at}:error=EIO:when={k}"),
        _ => format!("{at}:error=ENOSPC:when={k}"),
    };
    // only the main thread is traced (no -f): the counter of `when=` is the main thread's
    let st = Strace { trace_file: &trace, follow: false, inject: Some(inj), trace_set: at.to_string() };
    let run = run_child(home, consumer, &[], Some(&st), &base.join(format!("fault-{tag}.log")));
    let info = parse_trace(&trace, home, false);
    let hit = info.calls.iter().find(|c| c.name == at && c.k == k);
    let struck = if fault == "kill" { info.killed && run.exit == Exit::Signal(libc::SIGKILL) && hit.is_some() } else { info.injected > 0 };
    let mut what = String::new();
    if let Some(h) = hit {
        what = h.what.clone();
        if struck && tag == "1" && !case.expect_what.is_empty() {
            if h.what == case.expect_what {
                res.count("struck_call_same_as_dry_run");
            } else {
                res.count("struck_call_differs_from_dry_run");
            }
        }
    }
    (run, struck, what)
}

fn run_case(env: &Env, case: &Case, slot: &str, res: &mut ShardResult) {
    res.evaluations += 1;
    let kind = case.kind.as_str();
    let (commit, expected) = env.expected_for(kind);
    let (base, home, consumer) = env.fresh(slot, kind);
    // ---- the fault run
    let mut struck;
    let mut struck_what = String::new();
    let fault_run: RunOut;
    let mut waiter: Option<RunOut> = None;
    match case.fault.as_str() {
        "kill" | "eio" | "enospc" => {
            let (r, s, w) = syscall_fault_run(env, case, &case.fault, &case.at, case.k, &home, &consumer, &base, "1", res);
            fault_run = r;
            struck = s;
            struck_what = w;
        }
        "kill-twice" => {
            let (r, s, w) = syscall_fault_run(env, case, "kill", &case.at, case.k, &home, &consumer, &base, "1", res);
            struck = s;
            struck_what = w;
            if r.exit == Exit::Timeout {
                fault_run = r;
            } else {
                // the first recovery attempt is killed as well
                let (r2, s2, w2) = syscall_fault_run(env, case, "kill", &case.at2, case.k2, &home, &consumer, &base, "2", res);
                if s2 {
                    res.count("second_kill_struck");
                    struck_what = format!("{struck_what} ; then {w2}");
                } else {
                    res.count("second_kill_not_struck");
                }
                struck = struck || s2;
                fault_run = r2;
            }
        }
        "abort-at" | "fail-at" => {
            let extra = vec![format!("--{}", case.fault), case.at.clone()];
            fault_run = run_child(&home, &consumer, &extra, None, &base.join("fault.log"));
            struck = home.join("c30.struck").exists();
            let _ = std::fs::remove_file(home.join("c30.struck"));
            if case.fault == "abort-at" && struck && fault_run.exit != Exit::Signal(libc::SIGKILL) {
                res.inconclusive(format!("{}: abort point struck but exit was {:?}", case.label(), fault_run.exit));
                return;
            }
        }
        "concurrent" => {
            // A holds inside the critical section; B (fault free) queues up on the lock; A is killed.
            let extra = vec!["--hold-at".to_string(), case.at.clone()];
            let start = Instant::now();
            let mut a = match spawn_child(&home, &consumer, &extra, None, &base.join("fault.log")) {
                Ok(c) => c,
                Err(e) => {
                    res.inconclusive(format!("{}: spawn: {e}", case.label()));
                    return;
                }
            };
            let held = loop {
                if home.join("c30.held").exists() {
                    break true;
                }
                if let Ok(Some(_)) = a.try_wait() {
                    break false;
                }
                if start.elapsed() > CHILD_WATCHDOG {
                    break false;
                }
                std::thread::sleep(Duration::from_millis(3));
            };
            if !held {
                let finished = matches!(a.try_wait(), Ok(Some(_)));
                kill_group(&mut a);
                if finished {
                    // the point does not exist in this tree: nothing was injected
                    res.count("fault_not_struck");
                    res.count("fault_not_struck_concurrent");
                    res.count("trivial_cases");
                } else {
                    res.inconclusive(format!("{}: the holder never reached the point", case.label()));
                }
                return;
            }
            let _ = std::fs::remove_file(home.join("c30.held"));
            // B is another project depending on the same repository
            let consumer_b = base.join("consumer-b");
            write_consumer(&consumer_b, &env.fx, kind);
            let bstart = Instant::now();
            let b = spawn_child(&home, &consumer_b, &[], None, &base.join("waiter.log"));
            // give B time to reach the lock (it cannot pass it while A lives)
            std::thread::sleep(Duration::from_millis(500));
            let mut b = match b {
                Ok(b) => b,
                Err(e) => {
                    kill_group(&mut a);
                    res.inconclusive(format!("{}: spawn waiter: {e}", case.label()));
                    return;
                }
            };
            match b.try_wait() {
                Ok(None) => res.count("concurrent_waiter_blocked_while_holder_alive"),
                _ => res.count("concurrent_waiter_finished_while_holder_alive"),
            }
            kill_group(&mut a);
            struck = true;
            fault_run = RunOut { exit: Exit::Signal(libc::SIGKILL), result: None };
            waiter = Some(wait_child(b, &base.join("waiter.log"), bstart));
        }
        other => {
            res.harness_fault = Some(format!("unknown fault kind {other}"));
            return;
        }
    }
    if fault_run.exit == Exit::Timeout {
        res.inconclusive(format!("{}: fault run hit the watchdog", case.label()));
        res.count("fault_run_timeouts");
        return;
    }
    if let Exit::SpawnError(e) = &fault_run.exit {
        res.inconclusive(format!("{}: spawn: {e}", case.label()));
        return;
    }
    if !struck {
        // the invocation did not occur in this run (sequence drifted) or the point was not reached
        res.count("fault_not_struck");
        res.count(&format!("fault_not_struck_{}", case.fault));
    } else {
        match case.fault.as_str() {
            "abort-at" => res.count("hook_abort_struck"),
            "fail-at" => res.count("hook_fail_struck"),
            "concurrent" => res.count("concurrent_holder_killed"),
            f => {
                res.count(&format!("fault_struck_{f}"));
                res.count(&format!("struck_at_{}", case.at));
                if !case.zone.is_empty() {
                    res.count(&format!("struck_zone_{}", case.zone));
                }
            }
        }
        if matches!(case.fault.as_str(), "eio" | "enospc" | "fail-at") {
            // how the faulted run itself ended (evidence only)
            if fault_run.ok() {
                res.count("io_error_tolerated_by_fetch");
            } else if fault_run.result.is_some() {
                res.count("io_error_reported_by_fetch");
            } else {
                res.count("io_error_run_died");
            }
        }
    }
    // ---- state after the fault
    let (state, tmp_left, _) = classify_state(&home, expected, commit);
    res.count(&format!("state_{state}"));
    if tmp_left {
        res.count("state_with_tmp_leftovers");
    }
    let nontrivial = struck && state != "nothing";
    if nontrivial {
        res.note_nontrivial(hash64(case.label().as_bytes()));
    } else {
        res.count("trivial_cases");
    }
    // ---- the later build(s)
    let mut verdicts: Vec<(String, String, Option<String>)> = vec![];
    if let Some(w) = &waiter {
        let (outcome, viol) = judge_later_build(env, kind, &home, w, res);
        res.count("concurrent_waiter_judged");
        verdicts.push(("the concurrent build that was waiting for the lock".into(), outcome, viol));
    }
    let rec = run_child(&home, &consumer, &[], None, &base.join("recovery.log"));
    res.count("recovery_runs");
    let (outcome, viol) = judge_later_build(env, kind, &home, &rec, res);
    verdicts.push(("a fresh build".into(), outcome, viol));
    let mut keep = false;
    for (who, outcome, viol) in verdicts {
        if let Some(rest) = outcome.strip_prefix("inconclusive:") {
            res.inconclusive(format!("{} ({who}): {rest}", case.label()));
            keep = true;
            continue;
        }
        res.count(&format!("outcome_{}", outcome.split('(').next().unwrap_or("")));
        if let Some(desc) = viol {
            let sig = format!("{}-leaves-{} -> {}", case.fault_class(), state, outcome);
            let description = format!(
                "{} during the fetch of a git dependency ({}; reference kind `{}`; {} at {}{}{}) left the forc cache in state `{}`; {}: {}",
                case.fault_class(),
                if case.fault_class() == "crash" { "process killed" } else { "a file-system call failed" },
                kind,
                case.fault,
                case.at,
                if case.k > 0 { format!(" #{}", case.k) } else { String::new() },
                if struck_what.is_empty() { String::new() } else { format!(" = {struck_what}") },
                state,
                who,
                desc
            );
            res.violation(sig, description, serde_json::to_value(case).unwrap());
            keep = true;
        }
    }
    res.sample(json!({"case": case.label(), "struck": struck, "struck_call": struck_what, "state_after_fault": state, "fault_run_exit": format!("{:?}", fault_run.exit), "recovery": rec.result.as_ref().map(|r| json!({"ok": r["ok"], "error": r["error"], "points": r["points"]}))}));
    if !keep {
        let _ = std::fs::remove_dir_all(&base);
    } else {
        // keep logs and traces, drop the bulky trees
        let _ = std::fs::remove_dir_all(home.join(".forc"));
    }
}

// ------------------------------------------------------------------------------------------
// Enumeration

/// Which reference kinds get the full syscall enumeration / only the hook points.
fn kinds_for(tier: Tier, seed: u64) -> (Vec<&'static str>, Vec<&'static str>) {
    match tier {
        Tier::Thorough => (REF_KINDS.to_vec(), vec![]),
        Tier::Quick => (vec![REF_KINDS[(seed % 4) as usize]], vec![REF_KINDS[((seed + 2) % 4) as usize]]),
    }
}

fn enumerate_cases(seed: u64, tier: Tier, kind: &str, dry: Option<&TraceInfo>, res: &mut ShardResult) -> Vec<Case> {
    let mut cases = vec![];
    // H6 points
    for p in POINTS {
        for f in ["abort-at", "fail-at"] {
            cases.push(Case::new(seed, kind, f, p, 0));
        }
    }
    let Some(info) = dry else { return cases };
    let thorough = tier == Tier::Thorough;
    let (mut n_core, mut n_tmp, mut n_read) = (0usize, 0usize, 0usize);
    let mut core_targets: Vec<&Call> = vec![];
    for c in &info.calls {
        if c.zone == "outside" {
            continue;
        }
        let mk = |fault: &str| {
            let mut x = Case::new(seed, kind, fault, &c.name, c.k);
            x.expect_what = c.what.clone();
            x.zone = c.zone.to_string();
            x
        };
        // would the same (syscall, k) exist in another thread? (only the main thread is traced in
        // fault runs, so this is informational)
        if info.others.values().any(|m| m.get(&c.name).copied().unwrap_or(0) >= c.k) {
            res.count("targets_whose_rank_is_also_reached_by_a_helper_thread");
        }
        if c.mutating && c.zone == "core" {
            // checkout directory, lock files, cache skeleton: every call is a crash point in both tiers
            n_core += 1;
            core_targets.push(c);
            cases.push(mk("kill"));
            if thorough || (n_core + seed as usize) % 4 == 0 {
                cases.push(mk("eio"));
            }
            if allocating(&c.name) && (thorough || (n_core + seed as usize) % 8 == 1) {
                cases.push(mk("enospc"));
            }
        } else if c.mutating {
            // the temporary git repository (init, pack download, refs, cleanup)
            n_tmp += 1;
            let pick = |stride: usize| (n_tmp + seed as usize) % stride == 0;
            if thorough || pick(16) {
                cases.push(mk("kill"));
            }
            if (thorough && pick(6)) || (!thorough && pick(48)) {
                cases.push(mk("eio"));
            }
            if allocating(&c.name) && thorough && pick(12) {
                cases.push(mk("enospc"));
            }
        } else if thorough {
            // read-side I/O failures (stat, open O_RDONLY, getdents, readlink, flock, read ...)
            n_read += 1;
            let stride = if c.zone == "core" { 8 } else { 32 };
            if (n_read + seed as usize) % stride == 0 {
                cases.push(mk("eio"));
            }
        }
    }
    res.max("max_tmp_repo_kill_stride", tier.pick(16, 1));
    res.max(&format!("max_core_mutating_calls_{kind}"), n_core as u64);
    res.max(&format!("max_tmp_repo_mutating_calls_{kind}"), n_tmp as u64);
    // two crashes in a row: the recovery build is killed too (seed-determined pairs of core calls)
    if !core_targets.is_empty() {
        let mut rng = rng_for(seed, 0xC30, 7 + REF_KINDS.iter().position(|k| *k == kind).unwrap_or(0) as u64);
        let n = tier.pick(4, 30);
        for _ in 0..n {
            let a = core_targets[rng.gen_range(0..core_targets.len())];
            let b = core_targets[rng.gen_range(0..core_targets.len())];
            let mut x = Case::new(seed, kind, "kill-twice", &a.name, a.k);
            x.at2 = b.name.clone();
            x.k2 = b.k;
            x.expect_what = a.what.clone();
            x.zone = "core".into();
            cases.push(x);
        }
    }
    // a killed lock holder with a waiter
    if thorough {
        for p in POINTS {
            cases.push(Case::new(seed, kind, "concurrent", p, 0));
        }
    } else {
        cases.push(Case::new(seed, kind, "concurrent", "fetch.dir_created", 0));
        cases.push(Case::new(seed, kind, "concurrent", "fetch.checked_out", 0));
    }
    cases.sort();
    cases.dedup();
    cases
}

fn case_key(c: &Case) -> String {
    format!("{}|{}|{}|{}|{}|{}", c.kind, c.fault, c.at, c.k, c.at2, c.k2)
}

fn shard(ctx: &ShardCtx) -> ShardResult {
    let mut res = ShardResult::default();
    let root = ctx.work();
    let env = match Env::new(&root, ctx.seed) {
        Ok(e) => e,
        Err(e) => {
            res.harness_fault = Some(format!("fixture: {e}"));
            return res;
        }
    };
    res.max("max_fixture_bytes", env.fx.bytes);
    res.max("max_fixture_files", env.fx.nfiles as u64);
    let (full, hooks_only) = kinds_for(ctx.tier, ctx.seed);
    eprintln!("[{:7.1}s] fixture ready", ctx.start.elapsed().as_secs_f64());
    let mut cases = vec![];
    for kind in full.iter().chain(hooks_only.iter()) {
        if let Err(e) = baseline(&env, kind, &mut res) {
            res.harness_fault = Some(e);
            return res;
        }
        let mut info = None;
        if full.contains(kind) {
            match dry_run(&env, kind, ctx.tier, &mut res) {
                Ok(i) => {
                    res.max(&format!("max_calls_traced_{kind}"), i.calls.len() as u64);
                    info = Some(i);
                }
                Err(e) => {
                    res.harness_fault = Some(e);
                    return res;
                }
            }
        }
        eprintln!("[{:7.1}s] baseline and dry runs for `{kind}` done", ctx.start.elapsed().as_secs_f64());
        let mut scratch = ShardResult::default();
        let r = if ctx.shard == 0 { &mut res } else { &mut scratch };
        cases.extend(enumerate_cases(ctx.seed, ctx.tier, kind, info.as_ref(), r));
    }
    // every shard enumerates on its own dry run; the enumerations should be identical. Publish a
    // digest (min and max over shards must agree) and assign cases by key so that a drift in one
    // shard cannot silently shift the assignment of all later cases.
    let keys: Vec<String> = cases.iter().map(case_key).collect();
    let digest = hash64(keys.join("\n").as_bytes()) & 0xffff_ffff;
    res.max("max_enumeration_digest", digest);
    res.max("max_neg_enumeration_digest", u32::MAX as u64 - digest);
    res.max("max_cases_enumerated", cases.len() as u64);
    res.max("max_kill_cases_enumerated", cases.iter().filter(|c| c.fault == "kill").count() as u64);
    for f in ["eio", "enospc", "kill-twice", "abort-at", "fail-at", "concurrent"] {
        res.max(&format!("max_{f}_cases_enumerated"), cases.iter().filter(|c| c.fault == f).count() as u64);
    }
    res.max("max_eio_read_side_cases_enumerated", cases.iter().filter(|c| c.fault == "eio" && !is_mutating_name(&c.at, &c.expect_what)).count() as u64);
    // long cases first would not help: keep the enumeration order, it interleaves early and late calls badly
    // for the time budget otherwise; shuffle deterministically instead
    let mut mine: Vec<&Case> = cases.iter().filter(|c| hash64(format!("{}|{}", ctx.seed, case_key(c)).as_bytes()) % ctx.nshards == ctx.shard).collect();
    mine.sort_by_key(|c| hash64(format!("order|{}|{}", ctx.seed, case_key(c)).as_bytes()));
    // the hook-point and concurrency cases first: they must not fall off the end of the budget
    // then the crash points (the `exhaustive` claim is about them), then the I/O failure points
    mine.sort_by_key(|c| match c.fault.as_str() {
        "kill" => 1,
        "kill-twice" => 2,
        "eio" | "enospc" => 3,
        _ => 0,
    });
    // calibration aid: C30_FOCUS=eio,enospc restricts the run to some fault kinds
    if let Ok(f) = std::env::var("C30_FOCUS") {
        let kinds: Vec<&str> = f.split(',').collect();
        let before = mine.len();
        mine.retain(|c| kinds.contains(&c.fault.as_str()));
        res.add("cases_filtered_out_by_C30_FOCUS", (before - mine.len()) as u64);
    }
    // ptrace round trips become very slow on an overloaded machine; a shard always runs a minimum
    // number of its cases so that the run still observes something (wall-clock is never a verdict)
    let min_cases = 5usize;
    for (i, case) in mine.iter().enumerate() {
        if !ctx.time_left() && i >= min_cases {
            res.count("cases_skipped_out_of_time");
            if case.fault == "kill" {
                res.count("kill_cases_skipped_out_of_time");
            }
            continue;
        }
        journal_current(ctx, &case.label());
        let t0 = Instant::now();
        run_case(&env, case, "case", &mut res);
        eprintln!("[{:7.1}s] case {} took {:.2}s", ctx.start.elapsed().as_secs_f64(), case.label(), t0.elapsed().as_secs_f64());
        res.count("cases_run");
        res.count(&format!("cases_run_{}", case.fault));
        if i % 25 == 0 {
            write_partial(ctx, &res);
        }
    }
    res
}

fn extra(res: &ShardResult) -> Value {
    let c = |k: &str| res.counters.get(k).copied().unwrap_or(0);
    let same_enumeration = c("max_enumeration_digest") == u32::MAX as u64 - c("max_neg_enumeration_digest");
    let all_kills = c("max_kill_cases_enumerated") > 0 && c("cases_run_kill") >= c("max_kill_cases_enumerated") && c("kill_cases_skipped_out_of_time") == 0 && c("fault_not_struck_kill") == 0;
    let all_kinds = c("baseline_ok_rev") > 0 && c("baseline_ok_tag") > 0 && c("baseline_ok_branch") > 0 && c("baseline_ok_default") > 0;
    // 5 hook points x {abort, fail} and 5 concurrent holders per reference kind
    let all_hooks = c("hook_abort_struck") >= 20 && c("hook_fail_struck") >= 20 && c("concurrent_holder_killed") >= 20;
    json!({
        "exhaustive": all_kinds && all_kills && all_hooks && c("max_tmp_repo_kill_stride") == 1 && c("cases_filtered_out_by_C30_FOCUS") == 0,
        "enumeration_identical_in_all_shards": same_enumeration,
        "cases_enumerated": c("max_cases_enumerated"),
        "cases_run": c("cases_run"),
        "cases_skipped_out_of_time": c("cases_skipped_out_of_time"),
        "kill_points_enumerated": c("max_kill_cases_enumerated"),
        "kill_points_run_and_struck": c("fault_struck_kill"),
        "kill_points_rank_not_reached_in_the_fault_run": c("fault_not_struck_kill"),
        "io_failure_points_run_and_struck": c("fault_struck_eio") + c("fault_struck_enospc"),
        "exhaustive_note": "exhaustive = for the enumerated repository and all four reference kinds, EVERY file-system-mutating call the fetching thread issues below $HOME/.forc (rank 1..N of every syscall, as listed by two strace dry runs) was used as a SIGKILL point and each kill really struck, and every hook point was used as abort point, as failure point and as the place where a lock holder is killed in front of a waiter. Both tiers enumerate every mutating call outside the temporary git repository; the quick tier only samples the calls inside the temporary git repository (every 16th) and one reference kind, so it is never marked exhaustive. I/O failure points (EIO/ENOSPC) are enumerated densely outside the temporary repository and sampled inside it; they are not part of the exhaustiveness claim.",
    })
}

fn replay(case: &Value) -> ShardResult {
    let mut res = ShardResult::default();
    let case: Case = match serde_json::from_value(case.clone()) {
        Ok(c) => c,
        Err(e) => {
            res.harness_fault = Some(format!("bad replay case: {e}"));
            return res;
        }
    };
    let root = work_dir("C30").join("replay");
    clean_dir(&root);
    let env = match Env::new(&root, case.seed) {
        Ok(e) => e,
        Err(e) => {
            res.harness_fault = Some(format!("fixture: {e}"));
            return res;
        }
    };
    if let Err(e) = baseline(&env, &case.kind, &mut res) {
        res.harness_fault = Some(e);
        return res;
    }
    run_case(&env, &case, "case", &mut res);
    for n in &res.inconclusive_notes {
        eprintln!("  inconclusive: {n}");
    }
    for s in &res.samples {
        eprintln!("  observed: {s}");
    }
    res
}
