//! C22: build order respects dependencies.
//! Oracle: independent reachability (own DFS) over randomly generated package graphs; the
//! real `forc_pkg::compilation_order` is run on every graph.
use crate::common::*;
use crate::{Plan, Prop};
use forc_pkg::{source, DepKind, Edge, Graph, Pinned};
use rand::Rng;
use serde_json::{json, Value};
use std::str::FromStr;

pub static META: PropertyMeta = PropertyMeta {
    id: "C22",
    level: "exploration",
    rule: "random package graphs (1..30 nodes; layered, random-DAG, chain, star, diamond shapes; parallel edges; library and contract edges), half of them with 1-3 injected back edges or self loops; acyclicity decided by the harness's own DFS; non-trivial = graph has >= 2 edges; distinct = hash of (node count, edge list)",
    assumptions: &["petgraph's StableGraph container is trusted to store what is added"],
    floor_evaluations: 1000,
    floor_nontrivial: 500,
    required_counters: &["acyclic_ok", "cyclic_rejected", "self_loops", "contract_edges"],
};

pub static PROP: Prop = Prop {
    meta: &META,
    plan: |t| Plan { nshards: t.pick(8, 16), budget_s: t.pick(10.0, 240.0), mem_gib: 4 },
    shard,
    replay,
    extra: crate::no_extra,
    subcommand: crate::no_subcommand,
};

#[derive(Clone, Debug)]
struct G {
    n: usize,
    /// (from, to, contract?)  from depends on to
    edges: Vec<(usize, usize, bool)>,
}

fn gen(rng: &mut rand::rngs::StdRng) -> G {
    let n = match rng.gen_range(0..10) {
        0 => rng.gen_range(1..=3),
        1..=6 => rng.gen_range(2..=12),
        _ => rng.gen_range(10..=30),
    };
    // hidden topological rank = a permutation
    let mut rank: Vec<usize> = (0..n).collect();
    for i in (1..n).rev() {
        let j = rng.gen_range(0..=i);
        rank.swap(i, j);
    }
    let mut edges = vec![];
    let shape = rng.gen_range(0..5);
    let mut add = |a: usize, b: usize, rng: &mut rand::rngs::StdRng| {
        // make it point from higher rank to lower rank
        if a == b {
            return;
        }
        let (hi, lo) = if rank[a] > rank[b] { (a, b) } else { (b, a) };
        edges.push((hi, lo, rng.gen_bool(0.3)));
    };
    match shape {
        0 => {
            // random DAG with density
            let p = rng.gen_range(0.05..0.6);
            for a in 0..n {
                for b in (a + 1)..n {
                    if rng.gen_bool(p) {
                        add(a, b, rng);
                    }
                }
            }
        }
        1 => {
            // chain
            let mut by_rank: Vec<usize> = (0..n).collect();
            by_rank.sort_by_key(|&i| rank[i]);
            for w in by_rank.windows(2) {
                add(w[0], w[1], rng);
            }
        }
        2 => {
            // star / fan
            let hub = rng.gen_range(0..n);
            for a in 0..n {
                if rng.gen_bool(0.8) {
                    add(hub, a, rng);
                }
            }
        }
        3 => {
            // layered
            let layers = rng.gen_range(2..=5).min(n.max(2));
            for a in 0..n {
                for b in 0..n {
                    if rank[a] % layers == (rank[b] % layers + 1) % layers && rng.gen_bool(0.35) {
                        add(a, b, rng);
                    }
                }
            }
        }
        _ => {
            // sparse random + parallel edges
            let m = rng.gen_range(0..=2 * n);
            for _ in 0..m {
                let a = rng.gen_range(0..n);
                let b = rng.gen_range(0..n);
                add(a, b, rng);
                if rng.gen_bool(0.15) {
                    add(a, b, rng);
                }
            }
        }
    }
    // inject cycles in half the cases
    if rng.gen_bool(0.5) {
        let k = rng.gen_range(1..=3);
        for _ in 0..k {
            match rng.gen_range(0..3) {
                0 => {
                    let a = rng.gen_range(0..n);
                    edges.push((a, a, rng.gen_bool(0.5)));
                }
                1 if !edges.is_empty() => {
                    // reverse copy of an existing edge => 2-cycle
                    let (a, b, _) = edges[rng.gen_range(0..edges.len())];
                    edges.push((b, a, rng.gen_bool(0.5)));
                }
                _ => {
                    let a = rng.gen_range(0..n);
                    let b = rng.gen_range(0..n);
                    edges.push((a, b, rng.gen_bool(0.5)));
                }
            }
        }
    }
    G { n, edges }
}

fn is_cyclic(g: &G) -> bool {
    // iterative colour DFS
    let mut adj = vec![vec![]; g.n];
    for &(a, b, _) in &g.edges {
        if a == b {
            return true;
        }
        adj[a].push(b);
    }
    let mut colour = vec![0u8; g.n];
    for s in 0..g.n {
        if colour[s] != 0 {
            continue;
        }
        let mut stack = vec![(s, 0usize)];
        colour[s] = 1;
        while let Some(&mut (v, ref mut i)) = stack.last_mut() {
            if *i < adj[v].len() {
                let w = adj[v][*i];
                *i += 1;
                if colour[w] == 1 {
                    return true;
                }
                if colour[w] == 0 {
                    colour[w] = 1;
                    stack.push((w, 0));
                }
            } else {
                colour[v] = 2;
                stack.pop();
            }
        }
    }
    false
}

fn build(g: &G) -> (Graph, Vec<forc_pkg::NodeIx>) {
    let mut graph = Graph::new();
    let mut ix = vec![];
    for i in 0..g.n {
        let source = source::Pinned::from_str("member").expect("member source");
        ix.push(graph.add_node(Pinned { name: format!("pkg{i}"), source }));
    }
    for &(a, b, c) in &g.edges {
        let kind = if c {
            let mut salt = [0u8; 32];
            salt[31] = (a as u8) ^ (b as u8);
            DepKind::Contract { salt: fuel_tx::Salt::new(salt) }
        } else {
            DepKind::Library
        };
        graph.add_edge(ix[a], ix[b], Edge::new(format!("pkg{b}"), kind));
    }
    (graph, ix)
}

fn check(g: &G, res: &mut ShardResult) {
    res.evaluations += 1;
    let (graph, ix) = build(g);
    let cyclic = is_cyclic(g);
    let case = json!({"n": g.n, "edges": g.edges});
    if g.edges.len() >= 2 {
        res.note_nontrivial(hash64(case.to_string().as_bytes()));
    }
    if g.edges.iter().any(|e| e.0 == e.1) {
        res.count("self_loops");
    }
    if g.edges.iter().any(|e| e.2) {
        res.count("contract_edges");
    }
    res.max("max_nodes", g.n as u64);
    res.max("max_edges", g.edges.len() as u64);
    let out = catch(std::panic::AssertUnwindSafe(|| forc_pkg::compilation_order(&graph)));
    match out {
        Err((loc, msg)) => {
            res.violation(panic_signature(&loc, &msg), format!("compilation_order panicked: {msg} at {loc}"), case);
        }
        Ok(Ok(order)) => {
            if cyclic {
                res.violation("order-for-cyclic-graph", "compilation_order returned Ok for a cyclic graph", case);
                return;
            }
            let mut pos = vec![usize::MAX; g.n];
            let mut dup = false;
            for (p, nix) in order.iter().enumerate() {
                let i = ix.iter().position(|x| x == nix);
                match i {
                    Some(i) => {
                        if pos[i] != usize::MAX {
                            dup = true;
                        }
                        pos[i] = p;
                    }
                    None => dup = true,
                }
            }
            if dup || order.len() != g.n || pos.iter().any(|&p| p == usize::MAX) {
                res.violation("order-not-a-permutation", format!("order lists {} entries for {} packages (missing or duplicate node)", order.len(), g.n), case);
                return;
            }
            for &(a, b, _) in &g.edges {
                if pos[b] >= pos[a] {
                    res.violation("dependent-before-dependency", format!("pkg{a} depends on pkg{b} but is ordered at {} before {}", pos[a], pos[b]), case);
                    return;
                }
            }
            res.count("acyclic_ok");
            res.add("edges_checked", g.edges.len() as u64);
            res.sample(json!({"graph": case, "order": pos}));
        }
        Ok(Err(e)) => {
            if !cyclic {
                res.violation("error-for-acyclic-graph", format!("compilation_order failed on an acyclic graph: {e}"), case);
                return;
            }
            res.count("cyclic_rejected");
        }
    }
}

fn shard(ctx: &ShardCtx) -> ShardResult {
    let mut res = ShardResult::default();
    let mut i = 0u64;
    while ctx.time_left() {
        let mut rng = ctx.rng(i);
        let g = gen(&mut rng);
        check(&g, &mut res);
        i += 1;
    }
    res
}

fn replay(case: &Value) -> ShardResult {
    let mut res = ShardResult::default();
    let n = case["n"].as_u64().unwrap_or(0) as usize;
    let edges: Vec<(usize, usize, bool)> = serde_json::from_value(case["edges"].clone()).unwrap_or_default();
    check(&G { n, edges }, &mut res);
    res
}
