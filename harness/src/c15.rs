//! C15: builds are deterministic.
//! Monitor: the same package is built several times, each time in a FRESH process (different
//! hash seeds, different thread timings: default, single rayon thread, pinned to one core, under
//! parallel load, different HOME); SHA-256 of bytecode, JSON ABI and storage-slots JSON (and the
//! derived contract id / predicate root) must be identical.
use crate::common::*;
use crate::e2e;
use crate::engine::*;
use crate::swrun::*;
use crate::{Plan, Prop};
use serde_json::{json, Value};
use std::path::Path;
use std::process::{Command, Stdio};

pub static META: PropertyMeta = PropertyMeta {
    id: "C15",
    level: "exploration",
    rule: "packages = e2e 'run' test programs (seed-rotated slice; contracts/configurable/storage users first in thorough) and SwGen programs written to disk; each built >= 3 times per profile in fresh child processes under perturbed conditions {default, RAYON_NUM_THREADS=1, taskset to one core, different HOME, concurrent with the other shards' builds}; compared: sha256 of bytecode, JSON ABI, storage slots JSON; an evaluation = one (package, profile); non-trivial = package whose bytecode is > 1 KiB and that was built in >= 3 distinct processes; distinct = hash of (package name/source, profile)",
    assumptions: &["per-process RandomState seeds and OS scheduling provide the variation; not every schedule inside hash containers can be forced"],
    floor_evaluations: 20,
    floor_nontrivial: 8,
    required_counters: &["builds_in_fresh_processes", "artifact_sets_compared", "condition.rayon1", "condition.onecore", "condition.home"],
};

pub static PROP: Prop = Prop {
    meta: &META,
    plan: |t| Plan { nshards: 16, budget_s: t.pick(60.0, 540.0), mem_gib: 6 },
    shard,
    replay,
    extra: crate::no_extra,
    subcommand,
};

/// child: `swverif c15-build <dir> <debug|release>` prints one JSON line with the artifact hashes
fn subcommand(args: &[String]) -> Option<i32> {
    if args.first().map(|s| s.as_str()) != Some("c15-build") {
        return None;
    }
    set_mem_limit_from_env();
    let dir = Path::new(&args[1]);
    let profile = if args[2] == "release" { Profile::Release } else { Profile::Debug };
    match plain_build(dir, profile) {
        Ok(p) => {
            let abi = match &p.program_abi {
                sway_core::asm_generation::ProgramABI::Fuel(a) => serde_json::to_string_pretty(a).unwrap_or_default(),
                _ => String::new(),
            };
            let slots = serde_json::to_string_pretty(&p.storage_slots).unwrap_or_default();
            let id = match p.tree_type {
                sway_core::language::parsed::TreeType::Contract => format!("{}", forc_pkg::contract_id(&p.bytecode.bytes, p.storage_slots.clone(), &fuel_tx::Salt::zeroed())),
                _ => String::new(),
            };
            println!(
                "C15RESULT {}",
                json!({"ok": true, "bytecode": sha_hex(&p.bytecode.bytes), "bytecode_len": p.bytecode.bytes.len(), "abi": sha_hex(abi.as_bytes()), "slots": sha_hex(slots.as_bytes()), "slots_n": p.storage_slots.len(), "contract_id": id})
            );
            Some(0)
        }
        Err(e) => {
            println!("C15RESULT {}", json!({"ok": false, "error": e.to_string()}));
            Some(0)
        }
    }
}

fn build_child(dir: &Path, profile: Profile, cond: &str, home: &Path, core: u64) -> Option<Value> {
    let exe = std::env::current_exe().ok()?;
    let mut cmd = if cond == "onecore" {
        let mut c = Command::new("taskset");
        c.arg("-c").arg(core.to_string()).arg(&exe);
        c
    } else {
        Command::new(&exe)
    };
    cmd.arg("c15-build").arg(dir).arg(profile.name()).stdin(Stdio::null()).stderr(Stdio::null());
    match cond {
        "rayon1" => {
            cmd.env("RAYON_NUM_THREADS", "1");
        }
        "home" => {
            std::fs::create_dir_all(home).ok();
            cmd.env("HOME", home);
        }
        _ => {}
    }
    let out = cmd.output().ok()?;
    let text = String::from_utf8_lossy(&out.stdout);
    let line = text.lines().find(|l| l.starts_with("C15RESULT "))?;
    serde_json::from_str(&line["C15RESULT ".len()..]).ok()
}

fn check_pkg(ctx: &ShardCtx, name: &str, dir: &Path, res: &mut ShardResult, builds: usize) {
    // the first build is always the default one; the perturbed conditions rotate with the
    // number of packages checked so far, so that a quick run (3 builds) sees all of them
    let rot = ctx.shard as usize + res.evaluations as usize;
    let perturbed = ["rayon1", "onecore", "home"];
    let conds: Vec<&str> = std::iter::once("default").chain((0..5).map(|k| if k == 3 { "default" } else { perturbed[(k + rot) % 3] })).collect();
    for profile in Profile::BOTH {
        res.evaluations += 1;
        let mut results: Vec<(String, Value)> = vec![];
        for (k, cond) in conds.iter().take(builds).enumerate() {
            let home = ctx.work().join(format!("home{k}"));
            match build_child(dir, profile, cond, &home, ctx.shard % 16) {
                Some(v) => {
                    res.count("builds_in_fresh_processes");
                    res.count(&format!("condition.{cond}"));
                    results.push((cond.to_string(), v));
                }
                None => res.inconclusive(format!("build child for {name} ({cond}) produced no result")),
            }
        }
        let ok: Vec<&(String, Value)> = results.iter().filter(|(_, v)| v["ok"] == true).collect();
        if ok.len() != results.len() {
            if ok.is_empty() {
                res.count("packages_not_buildable");
            } else {
                // builds of one package must at least agree on success
                res.violation(format!("build-success-differs:{name}:{}", profile.name()), format!("{name} ({}) builds in some processes and fails in others: {:?}", profile.name(), results.iter().map(|(c, v)| format!("{c}:{}", v["ok"])).collect::<Vec<_>>()), json!({"package": name, "dir": dir}));
            }
            continue;
        }
        if ok.len() < 2 {
            continue;
        }
        res.count("artifact_sets_compared");
        let first = &ok[0].1;
        for (cond, v) in ok.iter().skip(1) {
            for key in ["bytecode", "abi", "slots", "contract_id"] {
                if v[key] != first[key] {
                    res.violation(
                        format!("nondeterministic-{key}:{name}:{}", profile.name()),
                        format!("{name} ({}): {key} differs between a '{}' build and a '{cond}' build in fresh processes ({} vs {})", profile.name(), ok[0].0, first[key], v[key]),
                        json!({"package": name, "dir": dir}),
                    );
                }
            }
        }
        if first["bytecode_len"].as_u64().unwrap_or(0) > 1024 && ok.len() >= 3 {
            res.note_nontrivial(hash64(format!("{name}{}", profile.name()).as_bytes()));
        }
        if first["slots_n"].as_u64().unwrap_or(0) > 0 {
            res.count("packages_with_storage_slots");
        }
        res.max("max_bytecode_len", first["bytecode_len"].as_u64().unwrap_or(0));
        if res.samples.len() < 2 {
            res.sample(json!({"package": name, "profile": profile.name(), "conditions": ok.iter().map(|(c, _)| c.clone()).collect::<Vec<_>>(), "hashes": first}));
        }
    }
}

fn shard(ctx: &ShardCtx) -> ShardResult {
    let mut res = ShardResult::default();
    let builds = ctx.tier.pick(3, 5);
    let root = match e2e::prepare("C15") {
        Ok(r) => r,
        Err(e) => {
            res.harness_fault = Some(format!("e2e corpus copy failed: {e}"));
            return res;
        }
    };
    let all = e2e::list_run_tests(&root);
    let mine = e2e::slice_for(&all, ctx.seed, ctx.shard, ctx.nshards);
    let mut i = 0u64;
    let mut e2e_iter = mine.into_iter();
    while ctx.time_left() {
        // alternate generated programs and corpus packages
        if i % 2 == 0 {
            let mut scratch = ShardResult::default();
            let case = case_at(ctx.seed ^ 0x0c15, ctx.shard, i / 2, 1, &mut scratch);
            let dir = ctx.work().join(format!("gen{i}"));
            if write_pkg(&dir, "gencase", &case.src, true).is_ok() {
                res.count("generated_packages");
                check_pkg(ctx, &format!("generated:{:016x}", hash64(case.src.as_bytes())), &dir, &mut res, builds);
            }
            let _ = std::fs::remove_dir_all(&dir);
        } else if let Some(t) = e2e_iter.next() {
            res.count("e2e_packages");
            check_pkg(ctx, &t.name, &t.dir, &mut res, builds);
        }
        i += 1;
    }
    res
}

fn replay(v: &Value) -> ShardResult {
    let mut res = ShardResult::default();
    let ctx = ShardCtx { prop: "C15".into(), tier: Tier::Quick, seed: 0, shard: 99, nshards: 1, start: std::time::Instant::now(), budget: std::time::Duration::from_secs(600), first_index: 0 };
    let name = v["package"].as_str().unwrap_or("").to_string();
    if name.starts_with("generated:") {
        res.harness_fault = Some("generated packages are removed after the run; re-run the check with the same seed".into());
        return res;
    }
    match e2e::prepare("C15") {
        Ok(root) => {
            let dir = root.join("test_programs").join(&name);
            check_pkg(&ctx, &name, &dir, &mut res, 5);
        }
        Err(e) => res.harness_fault = Some(e),
    }
    res
}
