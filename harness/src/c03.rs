//! C03: every IR optimisation pass preserves program behaviour.
//! Monitor (hook H1): the same program compiled with the default (debug) pipeline and with a
//! pipeline that has extra registered passes inserted before the mandatory lowering passes;
//! both binaries run on the same inputs, observations compared; the result must also still be
//! accepted by the backend.
use crate::common::*;
use crate::engine::*;
use crate::irhook::*;
use crate::swrun::*;
use crate::{Plan, Prop};
use rand::Rng;
use serde_json::{json, Value};
use std::panic::AssertUnwindSafe;

pub static META: PropertyMeta = PropertyMeta {
    id: "C03",
    level: "exploration",
    rule: "SwGen programs x variants of the debug pass pipeline: each registered transform inserted alone, each preceded by inline / mem2reg, random sequences of 2..8 transforms, the whole release (O1) group (a difference is attributed by leaving one pass out at a time), and the O1 group with one pass removed, duplicated or two adjacent passes swapped - inserted at a random position before the mandatory Fuel lowering passes; baseline and variant binaries run on 10 input vectors; an evaluation = one (program, variant); non-trivial = an inserted pass modified the IR, the variant bytecode differs from the baseline and at least one execution returned normally; distinct = hash of (source, variant)",
    assumptions: &[
        "fuel-vm 0.66 is the trusted execution substrate",
        "removal of invalid arithmetic whose result is unobservable is tolerated (documented undefined behaviour), arbitrated by the reference interpreter",
        "a panic or verifier failure inside a pass is C04's subject and only counted here",
    ],
    floor_evaluations: 100,
    floor_nontrivial: 20,
    required_counters: &["variants_compared", "variant_bytecode_differs", "executions_compared", "inserted_pass_modified_ir"],
};

pub static PROP: Prop = Prop {
    meta: &META,
    plan: |t| Plan { nshards: 16, budget_s: t.pick(60.0, 540.0), mem_gib: 6 },
    shard,
    replay,
    extra: crate::no_extra,
    subcommand,
};

/// `swverif c03-bisect <file.sw> <hex script data>...`: compile the release pipeline with every
/// prefix of its pass list (rounds = 1) and with each single pass removed; prints the results.
fn subcommand(args: &[String]) -> Option<i32> {
    if args.first().map(|s| s.as_str()) != Some("c03-bisect") {
        return None;
    }
    let src = std::fs::read_to_string(&args[1]).expect("read source");
    let datas: Vec<Vec<u8>> = args[2..].iter().map(|h| hex::decode(h).expect("hex")).collect();
    let work = work_dir("bisect");
    clean_dir(&work);
    let mut am = Amortised::new(&work);
    let (r, log) = with_hook(HookCfg::default(), false, || am.compile("gencase", &src, Profile::Release));
    let default = log.default_list.clone();
    let show = |tag: &str, r: Result<Compiled, String>| match r {
        Ok(c) => println!("{tag}: {}", datas.iter().map(|d| run_script(&c.pkg.bytecode.bytes, d).short()).collect::<Vec<_>>().join(" | ")),
        Err(e) => println!("{tag}: compile failed: {e}"),
    };
    show("default (hooked)", r.map_err(|e| e.to_string()));
    println!("default list: {default:?}");
    let dump = std::env::var("BISECT_DUMP").is_ok();
    for k in 0..=default.len() {
        // the mandatory lowering passes at the tail must stay: find them by keeping the last 7 always
        let mut list: Vec<String> = default.iter().take(k).cloned().collect();
        if std::env::var("BISECT_ROUND2").is_ok() {
            // second round: the whole list, then a prefix of it
            let mut l2 = default.clone();
            l2.extend(list);
            list = l2;
        }
        let cfg = HookCfg { replace: Some(list.clone()), rounds: Some(1), ..Default::default() };
        let (r, log) = with_hook(cfg, dump, || am.compile("gencase", &src, Profile::Release));
        show(&format!("prefix {k} (+{})", list.last().cloned().unwrap_or_default()), r.map_err(|e| e.to_string()));
        if dump {
            if let Some(ir) = &log.final_ir {
                let _ = std::fs::write(work.join(format!("prefix{k:02}.ir")), ir);
            }
        }
    }
    for k in 0..default.len() {
        let mut list = default.clone();
        let removed = list.remove(k);
        let cfg = HookCfg { replace: Some(list), ..Default::default() };
        let (r, _) = with_hook(cfg, false, || am.compile("gencase", &src, Profile::Release));
        show(&format!("without [{k}] {removed}"), r.map_err(|e| e.to_string()));
    }
    Some(0)
}

const O1: [&str; 18] = ["mem2reg", "fn-dedup-release", "inline", "arg_pointee_mutability_tagger", "simplify-cfg", "globals-dce", "dce", "inline", "arg_pointee_mutability_tagger", "ccp", "const-folding", "simplify-cfg", "cse", "const-folding", "simplify-cfg", "globals-dce", "dce", "fn-dedup-release"];

fn gen_variant(rng: &mut rand::rngs::StdRng, k: u64, res: &mut ShardResult) -> (usize, Vec<String>) {
    let pick = |rng: &mut rand::rngs::StdRng| TRANSFORMS[rng.gen_range(1..TRANSFORMS.len())].to_string();
    // default debug list: lower-init-aggr, fn-dedup-debug, inline, globals-dce, dce, <mandatory...>
    let pos = rng.gen_range(1..=5);
    let extra = match k % 6 {
        5 => {
            // the whole release (O1) group inserted into the debug pipeline: every pass works on
            // the IR shapes its predecessors produce (e.g. ccp / cse after mem2reg); a difference
            // is attributed by leaving one pass out at a time
            res.count("variant.o1_full");
            return (1, O1.iter().map(|s| s.to_string()).collect());
        }
        0 => {
            res.count("variant.single");
            vec![pick(rng)]
        }
        1 => {
            res.count("variant.after_inline_or_mem2reg");
            vec![if rng.gen_bool(0.5) { "inline".to_string() } else { "mem2reg".to_string() }, pick(rng)]
        }
        2 | 3 => {
            res.count("variant.random_sequence");
            let n = rng.gen_range(2..=8);
            (0..n).map(|_| pick(rng)).collect()
        }
        _ => {
            res.count("variant.o1_perturbed");
            let mut o1: Vec<String> = O1.iter().map(|s| s.to_string()).collect();
            match rng.gen_range(0..3) {
                0 => {
                    let i = rng.gen_range(0..o1.len());
                    o1.remove(i);
                }
                1 => {
                    let i = rng.gen_range(0..o1.len());
                    let p = o1[i].clone();
                    o1.insert(i, p);
                }
                _ => {
                    let i = rng.gen_range(0..o1.len() - 1);
                    o1.swap(i, i + 1);
                }
            }
            o1
        }
    };
    (pos, extra)
}

pub struct Baseline {
    pub bytecode: Vec<u8>,
    pub obs: Vec<Observation>,
}

pub fn baseline(am: &mut Amortised, case: &Case) -> Option<Baseline> {
    let c = match catch(AssertUnwindSafe(|| am.compile("gencase", &case.src, Profile::Debug))) {
        Ok(Ok(c)) => c,
        _ => {
            let _ = std::fs::remove_dir_all(am.last_dir());
            return None;
        }
    };
    let obs = case.script_data.iter().map(|d| run_script(&c.pkg.bytecode.bytes, d)).collect();
    let b = Baseline { bytecode: c.pkg.bytecode.bytes.clone(), obs };
    am.remove(&c);
    Some(b)
}

fn run_variant(am: &mut Amortised, case: &Case, base: &Baseline, pos: usize, extra: &[String], res: &mut ShardResult) {
    res.evaluations += 1;
    let cfg = HookCfg { insert: Some((pos, extra.to_vec())), ..Default::default() };
    let (r, log) = with_hook(cfg, false, || catch(AssertUnwindSafe(|| am.compile("gencase", &case.src, Profile::Debug))));
    let replay = case.replay_json(json!({"pos": pos, "extra": extra}));
    let sig_src = hash64(format!("{}{pos}{extra:?}", case.src).as_bytes());
    let c = match r {
        Err(_) => {
            res.count("variant_pass_panicked_see_C04");
            let _ = std::fs::remove_dir_all(am.last_dir());
            return;
        }
        Ok(Err(_)) => {
            let _ = std::fs::remove_dir_all(am.last_dir());
            if log.ir_error.is_some() {
                res.count("variant_verifier_failure_see_C04");
            } else if log.invoked && log.current.is_none() {
                // all passes ran and verified, the backend rejected what the passes produced:
                // compile once more under the same pass list with the harness's own handler to
                // learn the backend's message (it names the class of the failure)
                let dir = am.write_unique(&case.src);
                let cfg2 = HookCfg { insert: Some((pos, extra.to_vec())), ..Default::default() };
                let (d, _) = with_hook(cfg2, false, || catch(AssertUnwindSafe(|| am.diagnose_dir(&dir, Profile::Debug))));
                let _ = std::fs::remove_dir_all(&dir);
                let msg = match d {
                    Ok(Ok((errs, _))) => errs.first().map(|e| format!("{e}")).unwrap_or_else(|| "no diagnostic".into()),
                    _ => "diagnostics unavailable".into(),
                };
                res.violation(format!("backend-rejects-variant:{}", bucket(&msg.chars().take(90).collect::<String>())), format!("the baseline pipeline is accepted but with passes {extra:?} inserted at {pos} the backend rejects the program: {}", msg.chars().take(200).collect::<String>()), replay);
            } else {
                res.count("variant_not_compiled_other");
            }
            return;
        }
        Ok(Ok(c)) => c,
    };
    res.count("variants_compared");
    // which inserted passes modified the IR
    let ran_mod: Vec<&(String, bool)> = log.ran.iter().filter(|(p, m)| *m && extra.contains(p)).collect();
    if !ran_mod.is_empty() {
        res.count("inserted_pass_modified_ir");
    }
    for (p, _) in &ran_mod {
        res.count(&format!("modified.{p}"));
    }
    for p in extra {
        res.count(&format!("inserted.{p}"));
    }
    let differs = c.pkg.bytecode.bytes != base.bytecode;
    if differs {
        res.count("variant_bytecode_differs");
    }
    let mut any_returned = false;
    for (k, data) in case.script_data.iter().enumerate() {
        let v = run_script(&c.pkg.bytecode.bytes, data);
        let b = &base.obs[k];
        res.count("executions_compared");
        if !b.outcome.reverted() {
            any_returned = true;
        }
        if b.same_behaviour(&v) {
            continue;
        }
        if matches!(compare_case(case, k, b), Cmp::OobNoRevert) || matches!(compare_case(case, k, &v), Cmp::OobNoRevert) {
            // consequence of the listed C01 finding (unchecked run-time index): layout dependent
            res.violation(crate::c01::OOB_SIG, format!("[input {k}] an unchecked out-of-bounds index makes baseline and variant differ: baseline {} / variant {}", b.short(), v.short()), replay.clone());
            continue;
        }
        if b.outcome.reverted() != v.outcome.reverted() {
            let non_reverting = if b.outcome.reverted() { &v } else { b };
            match compare_case(case, k, non_reverting) {
                Cmp::DeadUbTolerated => {
                    res.count("dead_invalid_arithmetic_removed_tolerated");
                    continue;
                }
                Cmp::Inconclusive(n) => {
                    res.inconclusive(n);
                    continue;
                }
                _ => {}
            }
        }
        // which side does the reference interpreter support?
        let side = match (compare_case(case, k, b), compare_case(case, k, &v)) {
            (Cmp::Agree, _) => "the variant is wrong according to the reference interpreter",
            (_, Cmp::Agree) => "the baseline is wrong according to the reference interpreter",
            _ => "neither side matches the reference interpreter",
        };
        // attribution: which single pass, left out of the list, restores the baseline behaviour?
        let mut culprits: Vec<String> = vec![];
        if extra.len() >= 4 {
            let mut distinct: Vec<&String> = vec![];
            for p in extra {
                if !distinct.contains(&p) {
                    distinct.push(p);
                }
            }
            for p in distinct {
                let without: Vec<String> = extra.iter().filter(|q| *q != p).cloned().collect();
                let cfg = HookCfg { insert: Some((pos, without)), ..Default::default() };
                let (r2, _) = with_hook(cfg, false, || catch(AssertUnwindSafe(|| am.compile("gencase", &case.src, Profile::Debug))));
                if let Ok(Ok(c2)) = r2 {
                    if run_script(&c2.pkg.bytecode.bytes, data).same_behaviour(b) {
                        culprits.push(p.clone());
                    }
                    am.remove(&c2);
                } else {
                    let _ = std::fs::remove_dir_all(am.last_dir());
                }
            }
        }
        res.violation(format!("pass-changes-behaviour:{sig_src:016x}"), format!("[input {k}] passes {extra:?} inserted at {pos}: baseline {} / variant {} ({side}); leaving out one of {culprits:?} restores the baseline behaviour", b.short(), v.short()), replay);
        break;
    }
    if differs && any_returned && !ran_mod.is_empty() {
        res.note_nontrivial(sig_src);
    }
    if res.samples.len() < 2 {
        res.sample(json!({"inserted_at": pos, "passes": extra, "list_run": log.list_run, "modified": log.ran.iter().filter(|(_, m)| *m).map(|(p, _)| p.clone()).collect::<Vec<_>>(), "source_head": case.src.lines().take(10).collect::<Vec<_>>()}));
    }
    am.remove(&c);
}

fn shard(ctx: &ShardCtx) -> ShardResult {
    let mut res = ShardResult::default();
    let mut am = Amortised::new(&ctx.work());
    if let Err(e) = am.warm() {
        res.harness_fault = Some(format!("std does not compile: {e}"));
        return res;
    }
    let per_program = ctx.tier.pick(6u64, 16u64);
    let mut i = ctx.first_index;
    let mut cur: Option<(u64, Case, Option<Baseline>)> = None;
    let clock = ctx.clock();
    while clock.left() {
        let pi = i / per_program;
        if cur.as_ref().map(|c| c.0) != Some(pi) {
            let mut scratch = ShardResult::default();
            let case = case_at(ctx.seed ^ 0x0c03, ctx.shard, pi, 10, &mut scratch);
            ctx.begin_case(i, &format!("// origin: {:?} (baseline)\n{}", case.origin, case.src), &res);
            let base = baseline(&mut am, &case);
            ctx.end_case();
            if base.is_none() {
                res.count("baseline_not_compiled");
            }
            cur = Some((pi, case, base));
        }
        let (_, case, base) = cur.as_ref().unwrap();
        if let Some(base) = base {
            let mut rng = ctx.rng(i ^ 0x5eed_0000);
            let (pos, extra) = gen_variant(&mut rng, i, &mut res);
            ctx.begin_case(i, &format!("// origin: {:?} insert {extra:?} at {pos}\n{}", case.origin, case.src), &res);
            run_variant(&mut am, case, base, pos, &extra, &mut res);
            ctx.end_case();
        }
        i += 1;
    }
    res
}

fn replay(v: &Value) -> ShardResult {
    let mut res = ShardResult::default();
    let work = work_dir("C03").join("replay");
    clean_dir(&work);
    let mut am = Amortised::new(&work);
    let Some(case) = case_from_replay(v) else {
        res.harness_fault = Some("the generator no longer reproduces the recorded program".into());
        return res;
    };
    let pos = v["extra"]["pos"].as_u64().unwrap_or(1) as usize;
    let extra: Vec<String> = serde_json::from_value(v["extra"]["extra"].clone()).unwrap_or_default();
    match baseline(&mut am, &case) {
        Some(b) => run_variant(&mut am, &case, &b, pos, &extra, &mut res),
        None => res.inconclusive("baseline does not compile"),
    }
    res
}
