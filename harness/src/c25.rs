//! C25: dirty-file flags are never lost between processes.
//!
//! Process stepper (DESIGN 3.6). Real actor processes (`swverif c25-actor <home> <lockname>`, own
//! pids, shared redirected HOME) run the real `forc_util::fs_locking` operations; the verif hook
//! callback stops them at every hook point until the coordinator answers `go`, so the
//! coordinator owns a total order of file-system steps across processes. The coordinator
//! enumerates interleavings (DFS over "which actor steps next"), injects crashes (SIGKILL +
//! reap) and samples longer random scripts. The oracle looks only at call/return/kill events;
//! an independent file-system model of the trace is used (a) to cross-check the contents the
//! real code reports having read and (b) to name the cause of a lost flag (signature).
use crate::common::*;
use crate::{Plan, Prop};
use rand::Rng;
use serde::{Deserialize, Serialize};
use serde_json::{json, Value};
use std::collections::BTreeMap;
use std::io::{BufRead, Write};
use std::path::{Path, PathBuf};
use std::sync::mpsc::{Receiver, RecvTimeoutError};
use std::time::Duration;

#[path = "c25_model.rs"]
mod model;
use model::*;

pub static META: PropertyMeta = PropertyMeta {
    id: "C25",
    level: "fault_enumeration",
    rule: "one evaluation = one controlled execution (one interleaving / crash point / sampled schedule) of 2-3 real processes over one flag file, ending with an is_dirty probe from every live process; non-trivial = the run contains at least one is_dirty observation classified must-true or must-false (not only unconstrained ones); distinct = hash of (setup, scripts, kill victim, full schedule)",
    assumptions: &[
        "hook points in fs_locking.rs sit between the file-system operations (cross-checked: every content the real code reports having read equals the content predicted by the harness's own file-system model of the coordinator's total order)",
        "steps that touch no shared state (points followed by no file-system operation; `ps` when no process is killed in the run; fsync) are not scheduling points: they commute with every other step",
        "the call of an operation is placed immediately before its first file-system step, its return immediately after its last one",
        "pid reuse is not forced (a dead pid that is alive again at the end of a run makes the run inconclusive)",
        "one flag file per HOME; HOME redirected to /verif/work/C25/shard<N>/home",
        "`ps` (spawned by is_pid_active) is the system's procps in the crash-point runs and in replays; in the enumerated and sampled runs a stand-in with procps' output format that answers from /proc/<pid> (checked against the system's ps on a live, a dead and a zombie pid at every shard start), because procps costs 40-400 ms per call on a loaded machine; C25_REAL_PS=1 uses the system's ps everywhere",
        "the oracle's intervals are conservative: a call is recorded before the command is sent, a return after the actor reported it, a kill after the victim was reaped",
    ],
    floor_evaluations: 150,
    floor_nontrivial: 60,
    required_counters: &[
        "obs_must_true",
        "obs_must_false",
        "obs_unconstrained",
        "crash_points_enumerated",
        "dfs_units_completed",
        "crash_configs_completed",
        "sampled_runs",
        "model_reads_checked",
    ],
};

pub static PROP: Prop = Prop {
    meta: &META,
    plan: |t| Plan { nshards: 16, budget_s: t.pick(70.0, 1000.0), mem_gib: 0 },
    shard,
    replay,
    extra,
    subcommand,
};

const LOCKNAME: &str = "flagged_file.sw";
const WATCHDOG: Duration = Duration::from_secs(20);

// ------------------------------------------------------------------------------------------
// Actor process

fn subcommand(args: &[String]) -> Option<i32> {
    if args.first().map(|s| s.as_str()) != Some("c25-actor") {
        return None;
    }
    if args.len() < 3 {
        eprintln!("usage: c25-actor <home> <lockname>");
        return Some(2);
    }
    Some(actor_main(&args[1], &args[2]))
}

fn actor_read_line() -> Option<String> {
    let mut s = String::new();
    match std::io::stdin().lock().read_line(&mut s) {
        Ok(0) | Err(_) => None,
        Ok(_) => Some(s.trim().to_string()),
    }
}

fn actor_say(s: &str) {
    let out = std::io::stdout();
    let mut o = out.lock();
    let _ = writeln!(o, "{s}");
    let _ = o.flush();
}

fn actor_main(home: &str, lockname: &str) -> i32 {
    use forc_util::fs_locking::{is_file_dirty, PidFileLocking};
    unsafe {
        libc::prctl(libc::PR_SET_PDEATHSIG, libc::SIGKILL);
    }
    std::env::set_var("HOME", home);
    // sanity: the lock directory must resolve below the redirected home
    if !forc_util::user_forc_directory().starts_with(home) {
        eprintln!("c25-actor: user_forc_directory() = {:?} is not below {home}", forc_util::user_forc_directory());
        return 3;
    }
    // constructed before the hook is installed (runs an uncontrolled cleanup on the empty directory)
    let mut obj = PidFileLocking::lsp(lockname);
    sway_types::verif_hooks::install(Some(std::sync::Arc::new(|_kind, name, detail| {
        actor_say(&format!("POINT {name} {}", hex::encode(detail.as_bytes())));
        match actor_read_line() {
            Some(l) if l == "go" => sway_types::verif_hooks::Action::Continue,
            _ => std::process::exit(0),
        }
    })));
    actor_say(&format!("READY {}", std::process::id()));
    loop {
        let Some(cmd) = actor_read_line() else { return 0 };
        let r = std::panic::catch_unwind(std::panic::AssertUnwindSafe(|| match cmd.as_str() {
            "lock" => match obj.lock() {
                Ok(()) => "ok".to_string(),
                Err(e) => format!("err:{}", hex::encode(e.to_string())),
            },
            "release" => match obj.release() {
                Ok(()) => "ok".to_string(),
                Err(e) => format!("err:{}", hex::encode(e.to_string())),
            },
            "is_dirty" => format!("{}", is_file_dirty(lockname)),
            "cleanup" => match PidFileLocking::cleanup_stale_files() {
                Ok(v) => format!("ok:{}", v.len()),
                Err(e) => format!("err:{}", hex::encode(e.to_string())),
            },
            "new" => {
                obj = PidFileLocking::lsp(lockname);
                "ok".to_string()
            }
            "exit" => std::process::exit(0),
            other => format!("unknown:{}", hex::encode(other)),
        }));
        match r {
            Ok(s) => actor_say(&format!("DONE {cmd} {s}")),
            Err(_) => actor_say(&format!("DONE {cmd} panic")),
        }
    }
}

// ------------------------------------------------------------------------------------------
// Coordinator side: actor handles

struct ActorProc {
    child: std::process::Child,
    stdin: std::process::ChildStdin,
    rx: Receiver<String>,
    pid: u32,
}

enum Line {
    Point(String, String),
    Done(String, String),
}

impl ActorProc {
    fn spawn(home: &Path, ps_dir: Option<&Path>) -> Result<ActorProc, String> {
        Self::spawn_traced(home, ps_dir, None)
    }

    /// `strace_log`: run the actor under `strace -f` writing to that file.
    fn spawn_traced(home: &Path, ps_dir: Option<&Path>, strace_log: Option<&Path>) -> Result<ActorProc, String> {
        let exe = std::env::current_exe().map_err(|e| e.to_string())?;
        let mut cmd = match strace_log {
            None => std::process::Command::new(exe),
            Some(log) => {
                let mut c = std::process::Command::new("strace");
                c.arg("-f").arg("-qq").arg("-s").arg("80").arg("-e").arg("trace=openat,open,unlink,unlinkat,rename,renameat,renameat2,write,getdents64").arg("-o").arg(log).arg(exe);
                c
            }
        };
        if let Some(d) = ps_dir {
            cmd.env("PATH", format!("{}:{}", d.display(), std::env::var("PATH").unwrap_or_else(|_| "/usr/bin:/bin".into())));
        }
        let mut child = cmd
            .arg("c25-actor")
            .arg(home)
            .arg(LOCKNAME)
            .env("HOME", home)
            .stdin(std::process::Stdio::piped())
            .stdout(std::process::Stdio::piped())
            .stderr(std::process::Stdio::inherit())
            .spawn()
            .map_err(|e| format!("spawn actor: {e}"))?;
        let stdin = child.stdin.take().unwrap();
        let stdout = child.stdout.take().unwrap();
        let (tx, rx) = std::sync::mpsc::channel();
        std::thread::spawn(move || {
            let rd = std::io::BufReader::new(stdout);
            for l in rd.lines() {
                match l {
                    Ok(l) => {
                        if tx.send(l).is_err() {
                            break;
                        }
                    }
                    Err(_) => break,
                }
            }
        });
        let mut a = ActorProc { child, stdin, rx, pid: 0 };
        let l = a.raw_line()?;
        let pid = l.strip_prefix("READY ").and_then(|p| p.parse::<u32>().ok()).ok_or_else(|| format!("actor said {l:?} instead of READY"))?;
        if pid != a.child.id() && strace_log.is_none() {
            return Err("actor pid mismatch".into());
        }
        a.pid = pid;
        Ok(a)
    }
    fn raw_line(&mut self) -> Result<String, String> {
        match self.rx.recv_timeout(WATCHDOG) {
            Ok(l) => Ok(l),
            Err(RecvTimeoutError::Timeout) => Err(format!("watchdog: actor {} silent for {} s", self.pid, WATCHDOG.as_secs())),
            Err(RecvTimeoutError::Disconnected) => Err(format!("actor {} closed its pipe (crashed helper)", self.pid)),
        }
    }
    fn line(&mut self) -> Result<Line, String> {
        let l = self.raw_line()?;
        let mut it = l.splitn(3, ' ');
        let (k, a, b) = (it.next().unwrap_or(""), it.next().unwrap_or(""), it.next().unwrap_or(""));
        match k {
            "POINT" => {
                let d = hex::decode(b).map_err(|_| format!("bad detail in {l:?}"))?;
                Ok(Line::Point(a.to_string(), String::from_utf8_lossy(&d).into_owned()))
            }
            "DONE" => {
                let r = if let Some(h) = b.strip_prefix("err:") {
                    format!("err:{}", String::from_utf8_lossy(&hex::decode(h).unwrap_or_default()))
                } else {
                    b.to_string()
                };
                Ok(Line::Done(a.to_string(), r))
            }
            _ => Err(format!("unexpected actor line {l:?}")),
        }
    }
    fn send(&mut self, s: &str) -> Result<(), String> {
        writeln!(self.stdin, "{s}").and_then(|_| self.stdin.flush()).map_err(|e| format!("write to actor {}: {e}", self.pid))
    }
    /// SIGKILL and reap: afterwards the pid is really dead.
    fn kill(mut self) {
        unsafe {
            libc::kill(self.pid as i32, libc::SIGKILL);
        }
        let _ = self.child.wait();
    }
}

/// A pid that was alive a moment ago and is dead (and reaped) now.
fn fresh_dead_pid() -> Result<u32, String> {
    unsafe {
        let pid = libc::fork();
        if pid < 0 {
            return Err("fork failed".into());
        }
        if pid == 0 {
            libc::_exit(0);
        }
        let mut st = 0;
        libc::waitpid(pid, &mut st, 0);
        Ok(pid as u32)
    }
}

fn pid_alive(pid: u32) -> bool {
    unsafe { libc::kill(pid as i32, 0) == 0 || *libc::__errno_location() != libc::ESRCH }
}

// ------------------------------------------------------------------------------------------
// Run specification

#[derive(Clone, Debug, Serialize, Deserialize, PartialEq, Eq)]
pub struct RunSpec {
    pub setup: Setup,
    /// one script per actor (op names)
    pub scripts: Vec<Vec<Op>>,
    /// actor that the pseudo-actor K (id = scripts.len()) kills when scheduled
    pub kill: Option<usize>,
    /// actors for which EVERY hook point is a scheduling point (crash-point enumeration)
    pub all_points: Vec<usize>,
    /// scheduled choices (actor ids; scripts.len() = kill); after the prefix: lowest enabled id
    pub schedule: Vec<usize>,
}

enum Policy<'a> {
    Lowest,
    Random(&'a mut rand::rngs::StdRng),
}

struct Coordinator {
    home: PathBuf,
    lock_dir: PathBuf,
    lock_path: PathBuf,
    pool: Vec<Option<ActorProc>>,
    /// how `lock()` publishes the pid (detected on the real code at start-up)
    variant: LockVariant,
    /// directory put in front of the actors' PATH holding the `ps` stand-in (None = the system's ps)
    ps_dir: Option<PathBuf>,
}

/// `ps -p <pid>` stand-in with procps' output format: header, plus one line iff /proc/<pid>
/// exists (which, like ps, includes zombies). The system's `ps` reads all of /proc and costs
/// 40-400 ms per call on a loaded machine; `is_pid_active` itself (spawn "ps", look for
/// "<pid> " in its stdout) runs unchanged.
const PS_STANDIN: &str = r#"#!/bin/sh
echo "    PID TTY          TIME CMD"
if [ "$1" = "-p" ] && [ -r "/proc/$2/stat" ]; then
  read -r _ comm _ < "/proc/$2/stat"
  printf '%7s ?        00:00:00 %s\n' "$2" "$comm"
fi
"#;

fn real_ps_forced() -> bool {
    std::env::var("C25_REAL_PS").map(|v| v == "1").unwrap_or(false)
}

/// Does `ps -p pid` (found through `path`) print something containing "<pid> "? (the predicate of is_pid_active)
fn ps_says_active(path_env: &str, pid: u32) -> Option<bool> {
    let out = std::process::Command::new("ps").env("PATH", path_env).arg("-p").arg(pid.to_string()).output().ok()?;
    Some(String::from_utf8_lossy(&out.stdout).contains(&format!("{pid} ")))
}

struct Executed {
    rec: RunRecord,
    choices: Vec<usize>,
    enabled: Vec<Vec<usize>>,
}

enum ExecErr {
    /// the schedule prefix asked for an actor that is not enabled (empty work unit)
    Infeasible,
    Inconclusive(String),
}

impl Coordinator {
    fn new(home: PathBuf, real_ps: bool) -> Result<Coordinator, String> {
        std::fs::create_dir_all(&home).map_err(|e| e.to_string())?;
        let ps_dir = if real_ps || real_ps_forced() {
            None
        } else {
            use std::os::unix::fs::PermissionsExt;
            let d = home.parent().unwrap_or(&home).join("bin");
            std::fs::create_dir_all(&d).map_err(|e| e.to_string())?;
            let f = d.join("ps");
            std::fs::write(&f, PS_STANDIN).map_err(|e| e.to_string())?;
            std::fs::set_permissions(&f, std::fs::Permissions::from_mode(0o755)).map_err(|e| e.to_string())?;
            // the stand-in must agree with the system's ps on a live, a dead and a zombie pid
            let sys_path = std::env::var("PATH").unwrap_or_else(|_| "/usr/bin:/bin".into());
            let my_path = format!("{}:{sys_path}", d.display());
            let dead = fresh_dead_pid()?;
            let zombie = unsafe {
                let z = libc::fork();
                if z == 0 {
                    libc::_exit(0);
                }
                z
            };
            std::thread::sleep(Duration::from_millis(20));
            let mut agree = true;
            for pid in [std::process::id(), dead, zombie as u32] {
                let a = ps_says_active(&sys_path, pid);
                let b = ps_says_active(&my_path, pid);
                if a.is_none() || a != b {
                    agree = false;
                }
            }
            if zombie > 0 {
                let mut st = 0;
                unsafe { libc::waitpid(zombie, &mut st, 0) };
            }
            if !agree {
                return Err("the ps stand-in disagrees with the system's ps".into());
            }
            Some(d)
        };
        let lock_dir = home.join(".forc").join(".lsp-locks");
        std::fs::create_dir_all(&lock_dir).map_err(|e| e.to_string())?;
        let mut c = Coordinator { home, lock_dir, lock_path: PathBuf::new(), pool: vec![], variant: LockVariant::CreateThenWrite, ps_dir };
        c.detect()?;
        Ok(c)
    }

    fn ls(&self) -> Vec<PathBuf> {
        let mut v: Vec<PathBuf> = std::fs::read_dir(&self.lock_dir).map(|rd| rd.filter_map(|e| e.ok()).map(|e| e.path()).collect()).unwrap_or_default();
        v.sort();
        v
    }

    fn reset_fs(&self) {
        for p in self.ls() {
            let _ = std::fs::remove_file(p);
        }
    }

    fn ensure(&mut self, n: usize) -> Result<(), String> {
        while self.pool.len() < n {
            self.pool.push(None);
        }
        for i in 0..n {
            if self.pool[i].is_none() {
                self.pool[i] = Some(ActorProc::spawn(&self.home, self.ps_dir.as_deref())?);
            }
        }
        Ok(())
    }

    fn kill_all(&mut self) {
        for a in self.pool.drain(..).flatten() {
            a.kill();
        }
    }

    /// Find the lock file's path and how lock() publishes the pid, by stepping one real lock().
    fn detect(&mut self) -> Result<(), String> {
        self.reset_fs();
        self.ensure(1)?;
        let a = self.pool[0].as_mut().unwrap();
        a.send("lock")?;
        let mut at_created: Option<Vec<PathBuf>> = None;
        loop {
            match a.line()? {
                Line::Point(p, _) => {
                    if p == "lock.created" {
                        let mut v: Vec<PathBuf> = std::fs::read_dir(&self.lock_dir).map_err(|e| e.to_string())?.filter_map(|e| e.ok()).map(|e| e.path()).collect();
                        v.sort();
                        at_created = Some(v);
                    }
                    a.send("go")?;
                }
                Line::Done(_, r) => {
                    if r != "ok" {
                        return Err(format!("probe lock() failed: {r}"));
                    }
                    break;
                }
            }
        }
        let after = self.ls();
        let locks: Vec<&PathBuf> = after.iter().filter(|p| p.extension().map(|e| e == "lock").unwrap_or(false)).collect();
        if locks.len() != 1 || after.len() != 1 {
            return Err(format!("probe lock() left {after:?}"));
        }
        self.lock_path = locks[0].clone();
        let content = std::fs::read_to_string(&self.lock_path).unwrap_or_default();
        if content.trim() != self.pool[0].as_ref().unwrap().pid.to_string() {
            return Err(format!("probe lock() wrote {content:?}"));
        }
        let at_created = at_created.ok_or("probe lock() never reached lock.created")?;
        self.variant = if at_created.contains(&self.lock_path) { LockVariant::CreateThenWrite } else { LockVariant::TempThenRename };
        self.reset_fs();
        Ok(())
    }
}

// ------------------------------------------------------------------------------------------
// Executing one run

struct ARun {
    next_op: usize,
    blocked: Option<(String, String)>,
    alive: bool,
    cur_op: Option<Op>,
}

impl Coordinator {
    fn actor(&mut self, i: usize) -> &mut ActorProc {
        self.pool[i].as_mut().expect("live actor")
    }

    /// Run actor i's operation to completion, releasing every point at once.
    fn run_auto(&mut self, i: usize, op: Op, probe: bool, events: &mut Vec<Ev>) -> Result<(), String> {
        events.push(Ev::Call { a: i, op, probe });
        self.actor(i).send(op.name())?;
        loop {
            match self.actor(i).line()? {
                Line::Point(p, d) => {
                    events.push(Ev::Exec { a: i, point: p, detail: d });
                    self.actor(i).send("go")?;
                }
                Line::Done(o, r) => {
                    if o != op.name() {
                        return Err(format!("actor answered DONE {o} to {}", op.name()));
                    }
                    events.push(Ev::Ret { a: i, op, res: r, probe });
                    return Ok(());
                }
            }
        }
    }

    /// One step of actor i: (call +) release from its point, then run to the next scheduling
    /// point or to the end of the operation.
    fn step(&mut self, i: usize, spec: &RunSpec, st: &mut [ARun], events: &mut Vec<Ev>) -> Result<(), String> {
        let all_points = spec.all_points.contains(&i);
        let kills = spec.kill.is_some();
        let variant = self.variant;
        let mut pass_first;
        if let Some((p, d)) = st[i].blocked.take() {
            events.push(Ev::Exec { a: i, point: p, detail: d });
            self.actor(i).send("go")?;
            pass_first = false;
        } else {
            let op = spec.scripts[i][st[i].next_op];
            st[i].next_op += 1;
            st[i].cur_op = Some(op);
            events.push(Ev::Call { a: i, op, probe: false });
            self.actor(i).send(op.name())?;
            // the call is placed immediately before the operation's first file-system step
            pass_first = !all_points;
        }
        loop {
            match self.actor(i).line()? {
                Line::Point(p, d) => {
                    let sig = all_points || significant(&p, &d, kills, variant);
                    if sig && !pass_first {
                        st[i].blocked = Some((p, d));
                        return Ok(());
                    }
                    if sig {
                        pass_first = false;
                    }
                    events.push(Ev::Exec { a: i, point: p, detail: d });
                    self.actor(i).send("go")?;
                }
                Line::Done(o, r) => {
                    let op = st[i].cur_op.take().ok_or("DONE without operation")?;
                    if o != op.name() {
                        return Err(format!("actor answered DONE {o} to {}", op.name()));
                    }
                    events.push(Ev::Ret { a: i, op, res: r, probe: false });
                    return Ok(());
                }
            }
        }
    }

    fn execute(&mut self, spec: &RunSpec, mut policy: Policy) -> Result<Executed, ExecErr> {
        let r = self.execute_inner(spec, &mut policy);
        if !matches!(r, Ok(_)) {
            // unknown actor state: start over with fresh processes
            self.kill_all();
        }
        r
    }

    fn execute_inner(&mut self, spec: &RunSpec, policy: &mut Policy) -> Result<Executed, ExecErr> {
        let inc = ExecErr::Inconclusive;
        let n = spec.scripts.len();
        self.ensure(n).map_err(inc)?;
        self.reset_fs();
        let mut events = vec![];
        let mut dead_pid = None;
        match spec.setup {
            Setup::NoFile => events.push(Ev::SetupFile { content: None }),
            Setup::OwnedBy(i) => {
                events.push(Ev::SetupFile { content: None });
                self.run_auto(i, Op::Lock, false, &mut events).map_err(inc)?;
            }
            Setup::DeadPid => {
                let d = fresh_dead_pid().map_err(inc)?;
                dead_pid = Some(d);
                std::fs::write(&self.lock_path, d.to_string()).map_err(|e| inc(e.to_string()))?;
                events.push(Ev::SetupFile { content: Some(d.to_string()) });
            }
            Setup::Empty => {
                std::fs::write(&self.lock_path, "").map_err(|e| inc(e.to_string()))?;
                events.push(Ev::SetupFile { content: Some(String::new()) });
            }
            Setup::Garbage => {
                std::fs::write(&self.lock_path, "not-a-pid").map_err(|e| inc(e.to_string()))?;
                events.push(Ev::SetupFile { content: Some("not-a-pid".into()) });
            }
        }
        let pids: Vec<u32> = (0..n).map(|i| self.actor(i).pid).collect();
        let mut st: Vec<ARun> = (0..n).map(|_| ARun { next_op: 0, blocked: None, alive: true, cur_op: None }).collect();
        let mut killed = false;
        let mut choices = vec![];
        let mut enabled_log = vec![];
        loop {
            let mut enabled: Vec<usize> = (0..n).filter(|&i| st[i].alive && (st[i].blocked.is_some() || st[i].next_op < spec.scripts[i].len())).collect();
            if let Some(v) = spec.kill {
                if !killed && st[v].alive {
                    enabled.push(n);
                }
            }
            if enabled.is_empty() {
                break;
            }
            let k = choices.len();
            let c = if k < spec.schedule.len() {
                let c = spec.schedule[k];
                if !enabled.contains(&c) {
                    // let everybody finish so that the actors can be reused
                    self.drain(&mut st, spec, &mut events).map_err(inc)?;
                    return Err(ExecErr::Infeasible);
                }
                c
            } else {
                match policy {
                    Policy::Lowest => enabled[0],
                    Policy::Random(rng) => enabled[rng.gen_range(0..enabled.len())],
                }
            };
            choices.push(c);
            enabled_log.push(enabled);
            if c == n {
                let v = spec.kill.unwrap();
                if let Some(a) = self.pool[v].take() {
                    a.kill();
                }
                st[v].alive = false;
                killed = true;
                events.push(Ev::Kill { a: v });
            } else {
                self.step(c, spec, &mut st, &mut events).map_err(inc)?;
            }
        }
        // final probes on the quiescent end state: one live process that does not hold the
        // flag looks at it; if two or more processes hold it, each of them looks too (each
        // must see the other's flag); if every live process holds it, all of them look
        let fin = final_states(&pids, &events);
        let live: Vec<usize> = (0..n).filter(|&i| st[i].alive).collect();
        let holders: Vec<usize> = live.iter().copied().filter(|&i| fin[i] == St::Holding).collect();
        let mut probers: Vec<usize> = live.iter().copied().filter(|&i| fin[i] != St::Holding).take(1).collect();
        if holders.len() >= 2 || probers.is_empty() {
            probers.extend(holders.iter().copied());
        }
        for i in probers {
            self.run_auto(i, Op::IsDirty, true, &mut events).map_err(inc)?;
        }
        // pid reuse guard
        if let Some(d) = dead_pid {
            if pid_alive(d) {
                return Err(inc(format!("pid {d} used as a dead pid is alive again (pid reuse)")));
            }
        }
        if let Some(v) = spec.kill {
            if killed && pid_alive(pids[v]) {
                return Err(inc(format!("pid {} of the killed actor is alive again (pid reuse)", pids[v])));
            }
        }
        Ok(Executed { rec: RunRecord { pids, dead_pid, events }, choices, enabled: enabled_log })
    }

    fn drain(&mut self, st: &mut [ARun], spec: &RunSpec, events: &mut Vec<Ev>) -> Result<(), String> {
        for i in 0..st.len() {
            while st[i].alive && st[i].blocked.is_some() {
                // release and keep releasing until the operation ends
                let (p, d) = st[i].blocked.take().unwrap();
                events.push(Ev::Exec { a: i, point: p, detail: d });
                self.actor(i).send("go")?;
                loop {
                    match self.actor(i).line()? {
                        Line::Point(..) => self.actor(i).send("go")?,
                        Line::Done(..) => break,
                    }
                }
            }
        }
        let _ = spec;
        Ok(())
    }
}

impl Drop for Coordinator {
    fn drop(&mut self) {
        self.kill_all();
    }
}

// ------------------------------------------------------------------------------------------
// Judging a run

fn spec_label(spec: &RunSpec) -> String {
    let scripts: Vec<String> = spec.scripts.iter().map(|s| s.iter().map(|o| o.name()).collect::<Vec<_>>().join(",")).collect();
    format!("{}:{}", spec.setup.name(), scripts.join("|"))
}

enum Judged {
    Infeasible,
    Inconclusive,
    Done(Executed, Analysis),
}

/// Execute + analyse one run and book its observations.
fn run_and_judge(co: &mut Coordinator, spec: &RunSpec, policy: Policy, kind: &str, res: &mut ShardResult) -> Judged {
    let ex = match co.execute(spec, policy) {
        Ok(ex) => ex,
        Err(ExecErr::Infeasible) => return Judged::Infeasible,
        Err(ExecErr::Inconclusive(why)) => {
            res.inconclusive(format!("{} [{}]: {why}", spec_label(spec), kind));
            res.count("runs_inconclusive");
            return Judged::Inconclusive;
        }
    };
    let an = analyze(&ex.rec, co.variant);
    res.evaluations += 1;
    res.count(&format!("runs_{kind}"));
    res.count(if co.ps_dir.is_none() { "runs_with_system_ps" } else { "runs_with_ps_standin" });
    if let Some(why) = &an.inconclusive {
        res.inconclusive(format!("{}: {why}", spec_label(spec)));
        return Judged::Done(ex, an);
    }
    if let Some(mm) = &an.model_mismatch {
        // the real code did not read what the model of the total order predicts: the hook
        // order does not explain the execution -> no verdict from this run
        res.inconclusive(format!("{} schedule {:?}: file-system model mismatch: {mm}", spec_label(spec), ex.choices));
        res.count("model_mismatch_runs");
        return Judged::Done(ex, Analysis { violation: None, ..an });
    }
    res.add("model_reads_checked", an.reads_checked);
    let mut full = spec.clone();
    full.schedule = ex.choices.clone();
    let mut nontrivial = false;
    for o in &an.obs {
        let k = match o.class {
            Class::MustTrue => "obs_must_true",
            Class::MustFalse => "obs_must_false",
            Class::Free => "obs_unconstrained",
        };
        res.count(k);
        if o.class != Class::Free {
            nontrivial = true;
        }
        if o.probe {
            res.count("obs_final_probes");
        } else {
            res.count("obs_scripted_is_dirty");
        }
        res.count(if o.result { "is_dirty_true" } else { "is_dirty_false" });
    }
    res.add("release_refused_while_other_holds", an.nonowner_release_err);
    if an.double_holders {
        res.count("runs_with_two_holders");
    }
    for ev in &ex.rec.events {
        match ev {
            Ev::Call { op, probe: false, .. } => res.count(&format!("op_{}", op.name())),
            Ev::Kill { .. } => res.count("kills"),
            Ev::Ret { op: Op::Lock, res: r, .. } => res.count(if r == "ok" { "lock_ok" } else { "lock_refused" }),
            _ => {}
        }
    }
    res.max("max_steps_in_run", ex.choices.len() as u64);
    if nontrivial {
        res.note_nontrivial(hash64(serde_json::to_string(&full).unwrap().as_bytes()));
    }
    if let Some((sig, desc)) = &an.violation {
        res.count("runs_with_lost_or_stale_flag");
        res.violation(sig.clone(), format!("{} schedule {:?}: {desc}", spec_label(spec), ex.choices), json!({"spec": full, "trace": trace_text(&ex.rec)}));
    }
    Judged::Done(ex, an)
}

fn trace_text(rec: &RunRecord) -> Vec<String> {
    rec.events
        .iter()
        .enumerate()
        .map(|(t, e)| match e {
            Ev::SetupFile { content } => format!("{t}: setup file = {content:?}"),
            Ev::Call { a, op, probe } => format!("{t}: actor{a}(pid {}) CALL {}{}", rec.pids[*a], op.name(), if *probe { " [final probe]" } else { "" }),
            Ev::Exec { a, point, detail } => format!("{t}: actor{a} passes {point}{}", if detail.is_empty() && !point.ends_with(".read") { String::new() } else { format!(" [{detail:?}]") }),
            Ev::Ret { a, op, res, .. } => format!("{t}: actor{a} RETURN {} = {res}", op.name()),
            Ev::Kill { a } => format!("{t}: actor{a}(pid {}) SIGKILLed and reaped", rec.pids[*a]),
        })
        .collect()
}

// ------------------------------------------------------------------------------------------
// Work plan: DFS units (pairs, triples, concurrent crashes), crash-point units, samples

#[derive(Clone, Debug)]
struct DfsConfig {
    /// evidence key, e.g. "pair[nofile:lock|is_dirty]"
    key: String,
    spec: RunSpec,
    /// actors (and the kill pseudo-actor) that can appear in a schedule prefix
    movers: Vec<usize>,
}

fn single_op_spec(setup: Setup, ops: &[Op], bystander: bool, kill: Option<usize>) -> RunSpec {
    let mut scripts: Vec<Vec<Op>> = ops.iter().map(|o| vec![*o]).collect();
    if bystander {
        scripts.push(vec![]);
    }
    RunSpec { setup, scripts, kill, all_points: vec![], schedule: vec![] }
}

fn ops_label(ops: &[Op]) -> String {
    ops.iter().map(|o| o.name()).collect::<Vec<_>>().join("|")
}

/// All DFS configurations of a tier, most relevant first.
fn dfs_configs(tier: Tier) -> Vec<DfsConfig> {
    let mut out: Vec<DfsConfig> = vec![];
    let push_pair = |out: &mut Vec<DfsConfig>, setup: Setup, a: Op, b: Op, bystander: bool| {
        let sname = if bystander { "owned_by_idle_third".to_string() } else { setup.name() };
        let key = format!("pair[{sname}:{}]", ops_label(&[a, b]));
        if out.iter().any(|c| c.key == key) {
            return;
        }
        out.push(DfsConfig { key, spec: single_op_spec(setup, &[a, b], bystander, None), movers: vec![0, 1] });
    };
    use Op::*;
    // 1. the pairs around lock() and release() that matter most (quick and thorough)
    for (setup, a, b) in [
        (Setup::NoFile, Lock, Cleanup),
        (Setup::NoFile, Lock, New),
        (Setup::NoFile, Lock, IsDirty),
        (Setup::NoFile, Lock, Lock),
        (Setup::NoFile, Lock, Release),
        (Setup::OwnedBy(0), Release, IsDirty),
        (Setup::OwnedBy(0), Release, Lock),
        (Setup::OwnedBy(0), Lock, IsDirty),
        (Setup::OwnedBy(0), Lock, Cleanup),
        (Setup::OwnedBy(0), IsDirty, Release),
        (Setup::OwnedBy(0), New, Lock),
        (Setup::DeadPid, Lock, IsDirty),
        (Setup::DeadPid, Lock, Cleanup),
        (Setup::DeadPid, Lock, Lock),
        (Setup::Empty, Lock, IsDirty),
        (Setup::Empty, Lock, Cleanup),
        (Setup::Garbage, Lock, New),
    ] {
        push_pair(&mut out, setup, a, b, false);
    }
    // a live third process owns the flag and stays idle: nobody may make it invisible
    for (a, b) in [(IsDirty, Cleanup), (IsDirty, Release), (IsDirty, Lock), (Release, New), (Lock, Cleanup)] {
        push_pair(&mut out, Setup::OwnedBy(2), a, b, true);
    }
    if tier == Tier::Thorough {
        // 2. every pair on every set-up (unordered pairs where the set-up is symmetric)
        for setup in [Setup::NoFile, Setup::DeadPid, Setup::Empty, Setup::Garbage] {
            for (i, a) in Op::ALL.iter().enumerate() {
                for b in &Op::ALL[i..] {
                    push_pair(&mut out, setup, *a, *b, false);
                }
            }
        }
        for a in Op::ALL {
            for b in Op::ALL {
                push_pair(&mut out, Setup::OwnedBy(0), a, b, false);
            }
        }
        for (i, a) in Op::ALL.iter().enumerate() {
            for b in &Op::ALL[i..] {
                push_pair(&mut out, Setup::OwnedBy(2), *a, *b, true);
            }
        }
        // 3. crash of the owner as a schedulable event, concurrent with an observer
        for (setup, a, b) in [
            (Setup::NoFile, Lock, IsDirty),
            (Setup::OwnedBy(0), Release, IsDirty),
            (Setup::OwnedBy(0), IsDirty, IsDirty),
            (Setup::OwnedBy(0), Cleanup, Lock),
            (Setup::DeadPid, Lock, IsDirty),
            (Setup::NoFile, Lock, Cleanup),
        ] {
            out.push(DfsConfig {
                key: format!("crashpair[{}:{}:kill0]", setup.name(), ops_label(&[a, b])),
                spec: single_op_spec(setup, &[a, b], false, Some(0)),
                movers: vec![0, 1, 2],
            });
        }
        // 4. triples
        for (setup, ops) in [
            (Setup::NoFile, [Lock, New, IsDirty]),
            (Setup::NoFile, [Lock, Cleanup, IsDirty]),
            (Setup::DeadPid, [Lock, Cleanup, IsDirty]),
            (Setup::OwnedBy(0), [Release, Lock, IsDirty]),
            (Setup::Empty, [Lock, New, IsDirty]),
        ] {
            out.push(DfsConfig { key: format!("triple[{}:{}]", setup.name(), ops_label(&ops)), spec: single_op_spec(setup, &ops, false, None), movers: vec![0, 1, 2] });
        }
    } else {
        out.push(DfsConfig {
            key: format!("crashpair[nofile:{}:kill0]", ops_label(&[Lock, IsDirty])),
            spec: single_op_spec(Setup::NoFile, &[Lock, IsDirty], false, Some(0)),
            movers: vec![0, 1, 2],
        });
        out.push(DfsConfig {
            key: format!("triple[nofile:{}]", ops_label(&[Lock, New, IsDirty])),
            spec: single_op_spec(Setup::NoFile, &[Lock, New, IsDirty], false, None),
            movers: vec![0, 1, 2],
        });
    }
    out
}

#[derive(Clone, Debug)]
struct DfsUnit {
    cfg: usize,
    prefix: Vec<usize>,
}

const PREFIX_LEN: usize = 2;

fn dfs_units(cfgs: &[DfsConfig], tier: Tier) -> Vec<DfsUnit> {
    let mut units = vec![];
    for (ci, c) in cfgs.iter().enumerate() {
        // the quick tier does not have the time for a whole triple: it takes a fixed slice of it
        let depth = if c.movers.len() == 3 { 3 } else { PREFIX_LEN };
        let mut prefixes: Vec<Vec<usize>> = vec![vec![]];
        for _ in 0..depth {
            prefixes = prefixes.into_iter().flat_map(|p| c.movers.iter().map(move |m| { let mut q = p.clone(); q.push(*m); q })).collect();
        }
        for p in prefixes {
            units.push(DfsUnit { cfg: ci, prefix: p });
        }
        let _ = tier;
    }
    units
}

fn units_per_config(c: &DfsConfig) -> u64 {
    let depth = if c.movers.len() == 3 { 3 } else { PREFIX_LEN };
    (c.movers.len() as u64).pow(depth as u32)
}

/// Enumerate every schedule that extends `unit.prefix`. Returns true if the enumeration completed.
fn run_dfs_unit(co: &mut Coordinator, cfg: &DfsConfig, unit: &DfsUnit, deadline: &dyn Fn() -> bool, res: &mut ShardResult) -> bool {
    let fixed = unit.prefix.len();
    let mut sched = unit.prefix.clone();
    let mut first = true;
    loop {
        if !deadline() {
            return false;
        }
        let mut spec = cfg.spec.clone();
        spec.schedule = sched.clone();
        match run_and_judge(co, &spec, Policy::Lowest, "enumerated", res) {
            Judged::Infeasible => {
                if first {
                    // nothing extends this prefix: the unit is (vacuously) complete
                    return true;
                }
                res.inconclusive(format!("{}: schedule {:?} not reproducible (set of enabled actors changed between runs)", cfg.key, sched));
                return false;
            }
            Judged::Inconclusive => return false,
            Judged::Done(ex, _) => {
                first = false;
                res.count(&format!("{}.interleavings", cfg.key));
                if ex.choices.len() < fixed {
                    // the whole run is shorter than the prefix: it belongs to the unit whose
                    // prefix is its padding with the lowest mover
                    return true;
                }
                let mut next = None;
                for i in (fixed..ex.choices.len()).rev() {
                    if let Some(&alt) = ex.enabled[i].iter().find(|&&e| e > ex.choices[i]) {
                        let mut s = ex.choices[..i].to_vec();
                        s.push(alt);
                        next = Some(s);
                        break;
                    }
                }
                match next {
                    Some(s) => sched = s,
                    None => return true,
                }
            }
        }
    }
}

#[derive(Clone, Debug)]
struct CrashConfig {
    key: String,
    spec: RunSpec,
}

fn crash_configs(tier: Tier) -> Vec<CrashConfig> {
    use Op::*;
    let mut out = vec![];
    let survivors: Vec<(&str, Vec<Vec<Op>>)> = vec![
        ("check,check", vec![vec![IsDirty, IsDirty]]),
        ("cleanup,check", vec![vec![Cleanup, IsDirty]]),
        ("lock;check", vec![vec![Lock], vec![IsDirty]]),
        ("release,check", vec![vec![Release, IsDirty]]),
    ];
    let victims: Vec<(Setup, Op)> = vec![
        (Setup::NoFile, Lock),
        (Setup::OwnedBy(0), Release),
        (Setup::OwnedBy(0), Lock),
        (Setup::DeadPid, Lock),
        (Setup::Empty, Lock),
        (Setup::Garbage, Lock),
        (Setup::OwnedBy(1), Lock),
        (Setup::NoFile, Release),
        (Setup::DeadPid, Release),
        (Setup::OwnedBy(1), Release),
    ];
    for (vi, (setup, vop)) in victims.iter().enumerate() {
        for (si, (sname, sscripts)) in survivors.iter().enumerate() {
            if tier == Tier::Quick && !(vi < 3 || (vi < 7 && si == 0)) {
                continue;
            }
            let mut scripts = vec![vec![*vop]];
            scripts.extend(sscripts.iter().cloned());
            out.push(CrashConfig {
                key: format!("crash[{}:{}@every-point;survivors:{sname}]", setup.name(), vop.name()),
                spec: RunSpec { setup: *setup, scripts, kill: Some(0), all_points: vec![0], schedule: vec![] },
            });
        }
    }
    out
}

/// Kill the victim (actor 0) after k of its hook points, k = 0, 1, ... until the operation is over.
fn run_crash_config(co: &mut Coordinator, cfg: &CrashConfig, deadline: &dyn Fn() -> bool, res: &mut ShardResult) -> bool {
    let k_id = cfg.spec.scripts.len();
    for k in 0..64usize {
        if !deadline() {
            return false;
        }
        let mut spec = cfg.spec.clone();
        spec.schedule = vec![0; k];
        spec.schedule.push(k_id);
        match run_and_judge(co, &spec, Policy::Lowest, "crash_point", res) {
            // the victim's operation has fewer than k points
            Judged::Infeasible => {
                // one more: crash after the operation returned
                return true;
            }
            Judged::Inconclusive => return false,
            Judged::Done(ex, _) => {
                res.count("crash_points_enumerated");
                res.count(&format!("{}.points", cfg.key));
                // which point was the victim at?
                let at = ex.rec.events.iter().rev().skip_while(|e| !matches!(e, Ev::Kill { .. })).find_map(|e| match e {
                    Ev::Exec { a: 0, point, .. } => Some(point.clone()),
                    _ => None,
                });
                res.count(&format!("killed_after_{}", at.unwrap_or_else(|| "nothing".into())));
            }
        }
    }
    true
}

fn random_spec(rng: &mut rand::rngs::StdRng, tier: Tier) -> RunSpec {
    use Op::*;
    let n = if rng.gen_bool(0.5) { 2 } else { 3 };
    let weighted = [Lock, Lock, Lock, Release, Release, IsDirty, IsDirty, IsDirty, Cleanup, New];
    let scripts: Vec<Vec<Op>> = (0..n)
        .map(|_| {
            let len = rng.gen_range(tier.pick(2, 3)..=4);
            (0..len).map(|_| *choose(rng, &weighted)).collect()
        })
        .collect();
    let setup = match rng.gen_range(0..8) {
        0 | 1 => Setup::NoFile,
        2 | 3 => Setup::OwnedBy(rng.gen_range(0..n)),
        4 | 5 => Setup::DeadPid,
        6 => Setup::Empty,
        _ => Setup::Garbage,
    };
    let kill = if rng.gen_bool(0.35) { Some(rng.gen_range(0..n)) } else { None };
    RunSpec { setup, scripts, kill, all_points: vec![], schedule: vec![] }
}

// ------------------------------------------------------------------------------------------
// Shard driver

fn shard(ctx: &ShardCtx) -> ShardResult {
    let mut res = ShardResult::default();
    let home = ctx.work().join("home");
    // crash points: liveness is what is being tested -> the system's ps
    let mut co = match Coordinator::new(home.clone(), true) {
        Ok(c) => c,
        Err(e) => {
            res.harness_fault = Some(format!("cannot start the process stepper: {e}"));
            return res;
        }
    };
    res.count(match co.variant {
        LockVariant::CreateThenWrite => "shards_lock_variant_create_then_write",
        LockVariant::TempThenRename => "shards_lock_variant_temp_then_rename",
    });
    let frac = |f: f64| {
        let start = ctx.start;
        let lim = ctx.budget.mul_f64(f);
        move || start.elapsed() < lim
    };
    // phase 1: crash points (cheap, sequential)
    let ccfgs = crash_configs(ctx.tier);
    let crash_deadline = frac(0.30);
    for (i, c) in ccfgs.iter().enumerate() {
        if i as u64 % ctx.nshards != ctx.shard {
            continue;
        }
        journal_current(ctx, &c.key);
        if run_crash_config(&mut co, c, &crash_deadline, &mut res) {
            res.count("crash_configs_completed");
        } else {
            res.count("crash_configs_incomplete");
        }
    }
    eprintln!("shard {}: crash phase done at {:.1}s, {} runs", ctx.shard, ctx.start.elapsed().as_secs_f64(), res.evaluations);
    drop(co);
    let mut co = match Coordinator::new(home, false) {
        Ok(c) => c,
        Err(e) => {
            res.harness_fault = Some(format!("cannot start the process stepper: {e}"));
            return res;
        }
    };
    res.count("shards_ps_standin_agrees_with_system_ps");
    // phase 2: exhaustive interleavings, split into units by schedule prefix
    let cfgs = dfs_configs(ctx.tier);
    let units = dfs_units(&cfgs, ctx.tier);
    let dfs_deadline = frac(0.85);
    for u in units.iter() {
        let c = &cfgs[u.cfg];
        // pseudo-random but fixed spread of the units over the shards (a round-robin would put
        // the same prefix of every configuration on the same shard)
        if hash64(format!("{}{:?}", c.key, u.prefix).as_bytes()) % ctx.nshards != ctx.shard {
            continue;
        }
        journal_current(ctx, &format!("{} prefix {:?}", c.key, u.prefix));
        if run_dfs_unit(&mut co, c, u, &dfs_deadline, &mut res) {
            res.count("dfs_units_completed");
            res.count(&format!("{}.units_done", c.key));
        } else {
            res.count("dfs_units_incomplete");
        }
    }
    eprintln!("shard {}: dfs phase done at {:.1}s, {} runs", ctx.shard, ctx.start.elapsed().as_secs_f64(), res.evaluations);
    if ctx.shard == 0 {
        drop(co);
        strace_crosscheck(ctx, &mut res);
        co = match Coordinator::new(ctx.work().join("home"), false) {
            Ok(c) => c,
            Err(e) => {
                res.harness_fault = Some(format!("cannot restart the process stepper: {e}"));
                return res;
            }
        };
    }
    // phase 3: sampled longer scripts until the budget is used (at least a few)
    let mut i = 0u64;
    let min_samples = 2;
    while ctx.time_left() || i < min_samples {
        let mut rng = ctx.rng(i);
        let spec = random_spec(&mut rng, ctx.tier);
        journal_current(ctx, &format!("sample {i} {}", spec_label(&spec)));
        if let Judged::Done(ex, an) = run_and_judge(&mut co, &spec, Policy::Random(&mut rng), "sampled", &mut res) {
            res.count("sampled_runs");
            if i < 2 && ctx.shard == 0 {
                let mut full = spec.clone();
                full.schedule = ex.choices.clone();
                res.sample(json!({"spec": full, "trace": trace_text(&ex.rec), "observations": an.obs.iter().map(|o| format!("actor{} is_dirty@{}..{} = {} [{:?}]", o.actor, o.call, o.ret, o.result, o.class)).collect::<Vec<_>>()}));
            }
        }
        i += 1;
        if i > 5_000_000 {
            break;
        }
    }
    eprintln!("shard {}: sampling done at {:.1}s, {} runs, {} samples", ctx.shard, ctx.start.elapsed().as_secs_f64(), res.evaluations, i);
    res
}

fn extra(res: &ShardResult) -> Value {
    // reassemble the per-configuration table from the counters
    let mut table: BTreeMap<String, serde_json::Map<String, Value>> = BTreeMap::new();
    let mut expected: BTreeMap<String, u64> = BTreeMap::new();
    for tier in [Tier::Quick, Tier::Thorough] {
        for c in dfs_configs(tier) {
            expected.insert(c.key.clone(), units_per_config(&c));
        }
    }
    for (k, v) in &res.counters {
        for suffix in [".interleavings", ".units_done", ".points"] {
            if let Some(key) = k.strip_suffix(suffix) {
                table.entry(key.to_string()).or_default().insert(suffix[1..].to_string(), json!(v));
            }
        }
    }
    let mut pairs_exhaustive = 0;
    let mut rows = vec![];
    for (key, mut m) in table {
        if key.starts_with("crash[") {
            m.insert("config".into(), json!(key));
            rows.push(Value::Object(m));
            continue;
        }
        let done = m.get("units_done").and_then(|v| v.as_u64()).unwrap_or(0);
        let total = expected.get(&key).copied().unwrap_or(u64::MAX);
        let ex = done == total;
        if ex {
            pairs_exhaustive += 1;
        }
        m.insert("units_total".into(), json!(total));
        m.insert("exhaustive".into(), json!(ex));
        m.insert("config".into(), json!(key));
        rows.push(Value::Object(m));
    }
    json!({
        "configurations": rows,
        "configurations_exhaustive": pairs_exhaustive,
        "is_dirty_observations": {
            "must_true": res.counters.get("obs_must_true").copied().unwrap_or(0),
            "must_false": res.counters.get("obs_must_false").copied().unwrap_or(0),
            "unconstrained": res.counters.get("obs_unconstrained").copied().unwrap_or(0),
        },
        "crash_points_enumerated": res.counters.get("crash_points_enumerated").copied().unwrap_or(0),
    })
}

fn replay(case: &Value) -> ShardResult {
    let mut res = ShardResult::default();
    let spec: RunSpec = match serde_json::from_value(case["spec"].clone()) {
        Ok(s) => s,
        Err(e) => {
            res.harness_fault = Some(format!("bad replay case: {e}"));
            return res;
        }
    };
    let home = work_dir("C25").join("replay").join("home");
    let mut co = match Coordinator::new(home, true) {
        Ok(c) => c,
        Err(e) => {
            res.harness_fault = Some(format!("cannot start the process stepper: {e}"));
            return res;
        }
    };
    match run_and_judge(&mut co, &spec, Policy::Lowest, "replayed", &mut res) {
        Judged::Done(ex, _) => {
            for l in trace_text(&ex.rec) {
                eprintln!("  {l}");
            }
        }
        Judged::Infeasible => res.harness_fault = Some("recorded schedule is not feasible any more".into()),
        Judged::Inconclusive => res.harness_fault = Some(format!("replay inconclusive: {:?}", res.inconclusive_notes)),
    }
    res
}

// ------------------------------------------------------------------------------------------
// Cross-check with strace: between two consecutive hook points an actor issues exactly the
// file-system calls on the flag file that the stepper (and the model) attribute to that point.

fn strace_expected(point: &str, variant: LockVariant) -> &'static [&'static str] {
    match (point, variant) {
        ("pid.before_open", _) => &["open_r"],
        ("cleanup.before_open", _) => &["open_r"],
        ("pid.dead_before_remove", _) | ("release.before_remove", _) | ("cleanup.dead_before_remove", _) | ("cleanup.unparsable_before_remove", _) => &["unlink"],
        ("cleanup.begin", _) => &["open_dir"],
        ("lock.before_create", LockVariant::CreateThenWrite) => &["open_w"],
        ("lock.before_create", LockVariant::TempThenRename) => &["open_w_tmp"],
        ("lock.created", _) => &["write_pid"],
        ("lock.written", LockVariant::TempThenRename) => &["rename"],
        _ => &[],
    }
}

fn strace_crosscheck(ctx: &ShardCtx, res: &mut ShardResult) {
    let base = ctx.work().join("strace");
    clean_dir(&base);
    let home = base.join("home");
    let run = || -> Result<(u64, Vec<String>), String> {
        let mut co = Coordinator::new(home.clone(), false)?;
        co.kill_all();
        let logs = [base.join("actor0.strace"), base.join("actor1.strace")];
        for l in &logs {
            co.pool.push(Some(ActorProc::spawn_traced(&co.home, co.ps_dir.as_deref(), Some(l))?));
        }
        let pids: Vec<u32> = (0..2).map(|i| co.actor(i).pid).collect();
        let mut ev = vec![];
        // a tour through every hook point
        co.reset_fs();
        co.run_auto(0, Op::Lock, false, &mut ev)?;
        co.run_auto(1, Op::IsDirty, false, &mut ev)?;
        co.run_auto(1, Op::Lock, false, &mut ev)?;
        co.run_auto(1, Op::Release, false, &mut ev)?;
        co.run_auto(0, Op::Lock, false, &mut ev)?;
        co.run_auto(0, Op::Release, false, &mut ev)?;
        let d = fresh_dead_pid()?;
        std::fs::write(&co.lock_path, d.to_string()).map_err(|e| e.to_string())?;
        co.run_auto(1, Op::Cleanup, false, &mut ev)?;
        std::fs::write(&co.lock_path, d.to_string()).map_err(|e| e.to_string())?;
        co.run_auto(1, Op::Release, false, &mut ev)?;
        std::fs::write(&co.lock_path, "").map_err(|e| e.to_string())?;
        co.run_auto(0, Op::New, false, &mut ev)?;
        std::fs::write(&co.lock_path, "not-a-pid").map_err(|e| e.to_string())?;
        co.run_auto(1, Op::IsDirty, false, &mut ev)?;
        co.run_auto(1, Op::Lock, false, &mut ev)?;
        for i in 0..2 {
            let _ = co.actor(i).send("exit");
        }
        for a in co.pool.drain(..).flatten() {
            let mut a = a;
            let _ = a.child.wait();
        }
        let lock = co.lock_path.to_string_lossy().into_owned();
        let dir = co.lock_dir.to_string_lossy().into_owned();
        let mut checked = 0u64;
        let mut bad = vec![];
        for (i, l) in logs.iter().enumerate() {
            let text = std::fs::read_to_string(l).map_err(|e| format!("strace log: {e}"))?;
            let me = format!("{} ", pids[i]);
            let mut cur: Option<(String, Vec<&'static str>)> = None;
            let close = |cur: &mut Option<(String, Vec<&'static str>)>, checked: &mut u64, bad: &mut Vec<String>| {
                if let Some((p, seen)) = cur.take() {
                    let exp = strace_expected(&p, co.variant);
                    if seen.as_slice() == exp {
                        *checked += 1;
                    } else {
                        bad.push(format!("actor{i} after {p}: strace saw {seen:?}, expected {exp:?}"));
                    }
                }
            };
            for line in text.lines() {
                let Some(rest) = line.strip_prefix(&me) else { continue };
                let rest = rest.trim_start();
                if rest.starts_with("write(1, \"POINT ") {
                    close(&mut cur, &mut checked, &mut bad);
                    let name = rest["write(1, \"POINT ".len()..].split(' ').next().unwrap_or("").to_string();
                    cur = Some((name, vec![]));
                    continue;
                }
                if rest.starts_with("write(1, \"DONE ") {
                    close(&mut cur, &mut checked, &mut bad);
                    continue;
                }
                let Some((_, seen)) = cur.as_mut() else { continue };
                let quoted_lock = format!("\"{lock}\"");
                let quoted_dir = format!("\"{dir}\"");
                if rest.starts_with("openat(") || rest.starts_with("open(") {
                    if rest.contains(&quoted_lock) {
                        seen.push(if rest.contains("O_CREAT") { "open_w" } else { "open_r" });
                    } else if rest.contains(&format!("\"{lock}.tmp")) {
                        seen.push("open_w_tmp");
                    } else if rest.contains(&quoted_dir) && rest.contains("O_DIRECTORY") {
                        seen.push("open_dir");
                    }
                } else if rest.starts_with("unlink") {
                    if rest.contains(&quoted_lock) {
                        seen.push("unlink");
                    }
                } else if rest.starts_with("rename") {
                    if rest.contains(&quoted_lock) {
                        seen.push("rename");
                    }
                } else if rest.starts_with("write(") && !rest.starts_with("write(1,") && !rest.starts_with("write(2,") {
                    if rest.contains(&format!("\"{}\"", pids[i])) {
                        seen.push("write_pid");
                    }
                }
            }
            close(&mut cur, &mut checked, &mut bad);
        }
        Ok((checked, bad))
    };
    match run() {
        Ok((checked, bad)) => {
            res.add("strace_segments_consistent_with_hooks", checked);
            for b in bad.iter().take(5) {
                res.inconclusive(format!("strace cross-check: {b}"));
            }
            res.add("strace_segments_inconsistent", bad.len() as u64);
        }
        Err(e) => {
            eprintln!("strace cross-check skipped: {e}");
            res.count("strace_crosscheck_unavailable");
        }
    }
}
