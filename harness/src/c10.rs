//! C10: the trivial-encoding fast path is sound.
//!
//! Same generator and evaluator as C09 (crate::c09::abi), biased to the padding cases. Per type
//! the generated script logs `is_encode_trivial::<T>()`, `is_decode_trivial::<T>()`,
//! `__size_of::<T>()`, the raw memory image of a value and `encode(v)`:
//!   * classified trivially encodable (resp. decodable) => memory image == canonical bytes;
//!   * independent of the classification `encode(v)` == canonical bytes (both reference codecs).
//! Decode side: canonical encodings with ONE bool byte or enum discriminant replaced by an
//! invalid pattern (anywhere in the tree) must make the run revert on every decode route
//! (`abi_decode::<T>`, script data through a carrier enum, script data of `main(T..)`); for types
//! where every bit pattern is a value, random byte strings must decode and re-encode to
//! themselves (this covers all types classified trivially decodable).
use crate::c09::abi::*;
use crate::common::*;
use crate::{Plan, Prop};
use serde_json::Value;

pub static META: PropertyMeta = PropertyMeta {
    id: "C10",
    level: "exploration",
    rule: "one evaluation = one VM execution of a generated script in one profile that was checked: an info run (classification, size, memory image, encode(v) against the canonical bytes), a decode of a canonical encoding, a decode of an encoding with one invalid bool byte / enum discriminant (must revert), or a decode of a random image of an all-patterns-valid type; non-trivial = the type tree has depth >= 2; distinct = hash of (type tree, value or corrupted bytes)",
    assumptions: &[
        "fuel-vm 0.66 is the trusted execution substrate; a Panic receipt and a Revert receipt both count as reverted",
        "invalid patterns are only demanded to revert for bool bytes outside {0,1} and enum discriminants >= number of variants; str bytes, lengths and truncated buffers are not corrupted",
        "below std::codec::TrivialEnum the validation of discriminants is deferred to `unwrap` by design, so no corruption is applied there; TrivialBool accepts any u64 by design",
    ],
    floor_evaluations: 2000,
    floor_nontrivial: 100,
    required_counters: &[
        "types_encode_trivial",
        "types_encode_nontrivial",
        "types_decode_trivial",
        "types_decode_nontrivial",
        "aggregate_types_encode_trivial",
        "aggregate_types_decode_trivial",
        "memory_image_equals_canonical",
        "invalid_bool_tried",
        "invalid_tag_tried",
        "invalid_patterns_reverted",
        "random_images_decoded_trivially",
        "entry_decode_trivial_path",
        "entry_encode_trivial_path",
        "pad_u8_next_to_word",
        "pad_bool_next_to_word",
        "pad_unit_only_enum",
        "pad_zero_sized_variant_among_payloads",
        "pad_array_of_small_scalars",
        "pad_strn_unaligned_in_aggregate",
    ],
};

pub static PROP: Prop = Prop {
    meta: &META,
    plan: |t| Plan { nshards: 16, budget_s: t.pick(60.0, 960.0), mem_gib: 6 },
    shard: |ctx| crate::c09::shard_loop(ctx, true),
    replay,
    extra: crate::no_extra,
    subcommand: crate::no_subcommand,
};

fn replay(case: &Value) -> ShardResult {
    crate::c09::replay_spec(case, "C10")
}
