//! Shared ABI machinery of C09 / C10: type trees, values, generator, Sway printer, canonical
//! reference encoder (written from the ABI specification), bridge to fuels-core driven by the
//! JSON ABI the build emitted, program builder and the evaluator of one generated program.
//! Part 1: types, values, reference encoder, fuels bridge.

use crate::common::*;
use crate::engine::*;
use rand::{rngs::StdRng, Rng};
use serde_json::json;
use std::panic::AssertUnwindSafe;
use fuel_abi_types::abi::unified_program::{UnifiedProgramABI, UnifiedTypeDeclaration};
use fuels_core::codec::{ABIDecoder, ABIEncoder};
use fuels_core::types::param_types::ParamType;
use fuels_core::types::{StaticStringToken, Token, U256};
use serde::{Deserialize, Serialize};
use std::collections::HashMap;

#[derive(Clone, Debug, PartialEq, Eq, Hash, Serialize, Deserialize)]
pub enum Ty {
    Unit,
    Bool,
    U8,
    U16,
    U32,
    U64,
    U256,
    B256,
    StrN(usize),
    Str,
    Array(Box<Ty>, usize),
    Tuple(Vec<Ty>),
    /// `generic`: index of the field declared with the type parameter `T` (generic declaration)
    Struct { name: String, fields: Vec<Ty>, generic: Option<usize> },
    Enum { name: String, variants: Vec<Ty>, generic: Option<usize> },
    Option(Box<Ty>),
    Result(Box<Ty>, Box<Ty>),
    Vec(Box<Ty>),
    Bytes,
    String,
    /// std::codec::TrivialBool (C10 only)
    TrivialBool,
    /// std::codec::TrivialEnum<E> (C10 only)
    TrivialEnum(Box<Ty>),
    /// raw_slice: harness-internal (log payloads), never generated
    RawSlice,
}

#[derive(Clone, Debug, PartialEq, Eq, Hash, Serialize, Deserialize)]
pub enum Val {
    Unit,
    Bool(bool),
    Uint(u64),
    Big([u8; 32]),
    Text(String),
    Blob(Vec<u8>),
    Seq(Vec<Val>),
    Variant(usize, Box<Val>),
}

impl Ty {
    pub fn ctor(&self) -> &'static str {
        match self {
            Ty::Unit => "unit",
            Ty::Bool => "bool",
            Ty::U8 => "u8",
            Ty::U16 => "u16",
            Ty::U32 => "u32",
            Ty::U64 => "u64",
            Ty::U256 => "u256",
            Ty::B256 => "b256",
            Ty::StrN(_) => "strN",
            Ty::Str => "str",
            Ty::Array(..) => "array",
            Ty::Tuple(_) => "tuple",
            Ty::Struct { generic: None, .. } => "struct",
            Ty::Struct { .. } => "gstruct",
            Ty::Enum { generic: None, .. } => "enum",
            Ty::Enum { .. } => "genum",
            Ty::Option(_) => "option",
            Ty::Result(..) => "result",
            Ty::Vec(_) => "vec",
            Ty::Bytes => "bytes",
            Ty::String => "string",
            Ty::TrivialBool => "tbool",
            Ty::TrivialEnum(_) => "tenum",
            Ty::RawSlice => "rawslice",
        }
    }

    pub fn children(&self) -> Vec<&Ty> {
        match self {
            Ty::Array(t, _) | Ty::Option(t) | Ty::Vec(t) | Ty::TrivialEnum(t) => vec![t],
            Ty::Result(a, b) => vec![a, b],
            Ty::Tuple(ts) | Ty::Struct { fields: ts, .. } | Ty::Enum { variants: ts, .. } => ts.iter().collect(),
            _ => vec![],
        }
    }

    pub fn depth(&self) -> usize {
        1 + self.children().iter().map(|c| c.depth()).max().unwrap_or(0)
    }

    /// number of leaves of a value of this type (arrays multiply, Vec counted as 3 elements)
    pub fn weight(&self) -> usize {
        match self {
            Ty::Array(t, n) => 1 + t.weight() * *n,
            Ty::Vec(t) => 1 + 3 * t.weight(),
            _ => 1 + self.children().iter().map(|c| c.weight()).sum::<usize>(),
        }
    }

    /// encodes to zero bytes
    pub fn zero_sized(&self) -> bool {
        match self {
            Ty::Unit => true,
            Ty::Array(t, n) => *n == 0 || t.zero_sized(),
            Ty::Tuple(ts) | Ty::Struct { fields: ts, .. } => ts.iter().all(|t| t.zero_sized()),
            _ => false,
        }
    }

    /// `==` is available in Sway for the whole tree (std impls + the impls the generator writes)
    pub fn has_eq(&self) -> bool {
        match self {
            Ty::TrivialBool | Ty::TrivialEnum(_) | Ty::RawSlice => false,
            Ty::Tuple(ts) => ts.len() <= 3 && ts.iter().all(|t| t.has_eq()),
            _ => self.children().iter().all(|c| c.has_eq()),
        }
    }

    /// every byte string of the canonical length is the encoding of a value (fixed size, no
    /// bool, no discriminant, no length prefix); str[N] is excluded (text)
    pub fn total(&self) -> bool {
        match self {
            Ty::U8 | Ty::U16 | Ty::U32 | Ty::U64 | Ty::U256 | Ty::B256 | Ty::Unit => true,
            Ty::Array(t, _) => t.total(),
            Ty::Tuple(ts) | Ty::Struct { fields: ts, .. } => ts.iter().all(|t| t.total()),
            _ => false,
        }
    }

    pub fn contains(&self, f: &dyn Fn(&Ty) -> bool) -> bool {
        f(self) || self.children().iter().any(|c| c.contains(f))
    }

    /// Sway type name
    pub fn sway(&self) -> String {
        match self {
            Ty::Unit => "()".into(),
            Ty::Bool => "bool".into(),
            Ty::U8 => "u8".into(),
            Ty::U16 => "u16".into(),
            Ty::U32 => "u32".into(),
            Ty::U64 => "u64".into(),
            Ty::U256 => "u256".into(),
            Ty::B256 => "b256".into(),
            Ty::StrN(n) => format!("str[{n}]"),
            Ty::Str => "str".into(),
            Ty::Array(t, n) => format!("[{}; {n}]", t.sway()),
            Ty::Tuple(ts) => {
                if ts.is_empty() {
                    "()".into()
                } else {
                    format!("({},)", ts.iter().map(|t| t.sway()).collect::<Vec<_>>().join(", "))
                }
            }
            Ty::Struct { name, fields: ts, generic } | Ty::Enum { name, variants: ts, generic } => match generic {
                Some(g) => format!("{name}<{}>", ts[*g].sway()),
                None => name.clone(),
            },
            Ty::Option(t) => format!("Option<{}>", t.sway()),
            Ty::Result(a, b) => format!("Result<{}, {}>", a.sway(), b.sway()),
            Ty::Vec(t) => format!("Vec<{}>", t.sway()),
            Ty::Bytes => "Bytes".into(),
            Ty::String => "String".into(),
            Ty::TrivialBool => "TrivialBool".into(),
            Ty::TrivialEnum(t) => format!("TrivialEnum<{}>", t.sway()),
            Ty::RawSlice => "raw_slice".into(),
        }
    }
}

/// (name, number of variants, variant types) view of the enum-like types
pub fn enum_view(ty: &Ty) -> Option<Vec<Ty>> {
    match ty {
        Ty::Enum { variants, .. } => Some(variants.clone()),
        Ty::Option(t) => Some(vec![Ty::Unit, (**t).clone()]),
        Ty::Result(a, b) => Some(vec![(**a).clone(), (**b).clone()]),
        _ => None,
    }
}

// ------------------------------------------------------------------------------------------
// Reference codec 1: canonical encoder written from the ABI specification (encoding v1):
// big-endian fixed-width scalars, bool/u8 one byte, str[N] N bytes unpadded, u64 discriminant +
// payload, u64 length + elements/bytes, concatenation for aggregates.

#[derive(Clone, Copy, Debug, PartialEq, Eq, Serialize, Deserialize)]
pub enum LeafKind {
    Bool,
    /// discriminant of an enum with n variants
    Tag(u64),
    Len,
    Data,
}

#[derive(Clone, Debug)]
pub struct Leaf {
    pub off: usize,
    pub len: usize,
    pub path: String,
    pub kind: LeafKind,
    /// below a TrivialEnum wrapper (validation is deferred to `unwrap` by design)
    pub deferred: bool,
}

pub struct Canon {
    pub bytes: Vec<u8>,
    pub leaves: Vec<Leaf>,
    path: Vec<&'static str>,
    deferred: u32,
}

impl Canon {
    fn leaf(&mut self, data: &[u8], kind: LeafKind, what: &'static str) {
        let mut p = self.path.join(">");
        if !what.is_empty() {
            if !p.is_empty() {
                p.push('>');
            }
            p.push_str(what);
        }
        self.leaves.push(Leaf { off: self.bytes.len(), len: data.len(), path: p, kind, deferred: self.deferred > 0 });
        self.bytes.extend_from_slice(data);
    }

    fn go(&mut self, ty: &Ty, v: &Val) -> Result<(), String> {
        self.path.push(ty.ctor());
        let r = self.go_inner(ty, v);
        self.path.pop();
        r
    }

    fn go_inner(&mut self, ty: &Ty, v: &Val) -> Result<(), String> {
        let bad = || Err(format!("value {v:?} does not fit type {}", ty.sway()));
        match (ty, v) {
            (Ty::Unit, Val::Unit) => {}
            (Ty::Bool, Val::Bool(b)) => self.leaf(&[*b as u8], LeafKind::Bool, ""),
            (Ty::U8, Val::Uint(x)) => self.leaf(&[*x as u8], LeafKind::Data, ""),
            (Ty::U16, Val::Uint(x)) => self.leaf(&(*x as u16).to_be_bytes(), LeafKind::Data, ""),
            (Ty::U32, Val::Uint(x)) => self.leaf(&(*x as u32).to_be_bytes(), LeafKind::Data, ""),
            (Ty::U64, Val::Uint(x)) => self.leaf(&x.to_be_bytes(), LeafKind::Data, ""),
            (Ty::U256, Val::Big(b)) | (Ty::B256, Val::Big(b)) => self.leaf(b, LeafKind::Data, ""),
            (Ty::StrN(n), Val::Text(s)) => {
                if s.len() != *n {
                    return bad();
                }
                if *n > 0 {
                    self.leaf(s.as_bytes(), LeafKind::Data, "")
                }
            }
            (Ty::Str, Val::Text(s)) | (Ty::String, Val::Text(s)) => {
                self.leaf(&(s.len() as u64).to_be_bytes(), LeafKind::Len, "len");
                if !s.is_empty() {
                    self.leaf(s.as_bytes(), LeafKind::Data, "data");
                }
            }
            (Ty::Bytes, Val::Blob(b)) | (Ty::RawSlice, Val::Blob(b)) => {
                self.leaf(&(b.len() as u64).to_be_bytes(), LeafKind::Len, "len");
                if !b.is_empty() {
                    self.leaf(b, LeafKind::Data, "data");
                }
            }
            (Ty::Array(t, n), Val::Seq(xs)) => {
                if xs.len() != *n {
                    return bad();
                }
                for x in xs {
                    self.go(t, x)?;
                }
            }
            (Ty::Vec(t), Val::Seq(xs)) => {
                self.leaf(&(xs.len() as u64).to_be_bytes(), LeafKind::Len, "len");
                for x in xs {
                    self.go(t, x)?;
                }
            }
            (Ty::Tuple(ts), Val::Seq(xs)) | (Ty::Struct { fields: ts, .. }, Val::Seq(xs)) => {
                if xs.len() != ts.len() {
                    return bad();
                }
                for (t, x) in ts.iter().zip(xs) {
                    self.go(t, x)?;
                }
            }
            (Ty::Tuple(ts), Val::Unit) if ts.is_empty() => {}
            (Ty::Enum { .. }, Val::Variant(k, x)) | (Ty::Option(_), Val::Variant(k, x)) | (Ty::Result(..), Val::Variant(k, x)) => {
                let vs = enum_view(ty).unwrap();
                if *k >= vs.len() {
                    return bad();
                }
                self.leaf(&(*k as u64).to_be_bytes(), LeafKind::Tag(vs.len() as u64), "tag");
                self.go(&vs[*k], x)?;
            }
            (Ty::TrivialBool, Val::Bool(b)) => self.leaf(&(*b as u64).to_be_bytes(), LeafKind::Data, ""),
            (Ty::TrivialEnum(e), x) => {
                self.deferred += 1;
                let r = self.go(e, x);
                self.deferred -= 1;
                r?;
            }
            _ => return bad(),
        }
        Ok(())
    }
}

pub fn canon(ty: &Ty, v: &Val) -> Result<Canon, String> {
    let mut c = Canon { bytes: vec![], leaves: vec![], path: vec![], deferred: 0 };
    c.go(ty, v)?;
    Ok(c)
}

pub fn canon_bytes(ty: &Ty, v: &Val) -> Result<Vec<u8>, String> {
    canon(ty, v).map(|c| c.bytes)
}

/// constructor path of the leaf at the first position where `observed` departs from the
/// canonical bytes (used in signatures: names the type shape, not the seed)
pub fn diff_path(ty: &Ty, v: &Val, observed: &[u8]) -> String {
    let Ok(c) = canon(ty, v) else { return "?".into() };
    let n = c.bytes.len().min(observed.len());
    let first = (0..n).find(|&i| c.bytes[i] != observed[i]);
    match first {
        Some(off) => c.leaves.iter().find(|l| off >= l.off && off < l.off + l.len).map(|l| l.path.clone()).unwrap_or_else(|| "?".into()),
        None if observed.len() > c.bytes.len() => format!("{}>trailing-bytes", ty.ctor()),
        None if observed.len() < c.bytes.len() => {
            let l = c.leaves.iter().find(|l| n >= l.off && n < l.off + l.len);
            format!("{}>truncated", l.map(|l| l.path.clone()).unwrap_or_else(|| ty.ctor().into()))
        }
        None => "equal".into(),
    }
}

// ------------------------------------------------------------------------------------------
// Reference codec 2: fuels-core driven by the JSON ABI of the build

pub struct AbiView {
    pub encoding_version: String,
    /// main's inputs and output
    pub inputs: Vec<Result<ParamType, String>>,
    pub output: Result<ParamType, String>,
    pub logged: HashMap<u64, Result<ParamType, String>>,
}

pub fn abi_view(abi: &sway_core::asm_generation::ProgramABI) -> Result<AbiView, String> {
    let sway_core::asm_generation::ProgramABI::Fuel(p) = abi else { return Err("not a Fuel ABI".into()) };
    let u = UnifiedProgramABI::from_counterpart(p).map_err(|e| format!("UnifiedProgramABI: {e}"))?;
    let lookup: HashMap<usize, UnifiedTypeDeclaration> = u.types.iter().map(|t| (t.type_id, t.clone())).collect();
    let main = u.functions.iter().find(|f| f.name == "main").ok_or("no main in the JSON ABI")?;
    let conv = |a| ParamType::try_from_type_application(a, &lookup).map_err(|e| e.to_string());
    let inputs = main.inputs.iter().map(conv).collect();
    let output = conv(&main.output);
    let mut logged = HashMap::new();
    for l in u.logged_types.iter().flatten() {
        if let Ok(id) = l.log_id.parse::<u64>() {
            logged.insert(id, conv(&l.application));
        }
    }
    Ok(AbiView { encoding_version: u.encoding_version.0.clone(), inputs, output, logged })
}

/// Build the fuels-core token of `v` following BOTH the harness's type tree and the ParamType
/// derived from the JSON ABI; Err = the JSON ABI describes a different type.
pub fn to_token(ty: &Ty, v: &Val, pt: &ParamType) -> Result<Token, String> {
    let mismatch = || Err(format!("JSON ABI describes {} where the program has {}", short_pt(pt), ty.sway()));
    Ok(match (ty, v, pt) {
        (Ty::Unit, Val::Unit, ParamType::Unit) => Token::Unit,
        (Ty::Tuple(ts), Val::Unit, ParamType::Unit) if ts.is_empty() => Token::Unit,
        (Ty::Bool, Val::Bool(b), ParamType::Bool) => Token::Bool(*b),
        (Ty::U8, Val::Uint(x), ParamType::U8) => Token::U8(*x as u8),
        (Ty::U16, Val::Uint(x), ParamType::U16) => Token::U16(*x as u16),
        (Ty::U32, Val::Uint(x), ParamType::U32) => Token::U32(*x as u32),
        (Ty::U64, Val::Uint(x), ParamType::U64) => Token::U64(*x),
        (Ty::U256, Val::Big(b), ParamType::U256) => Token::U256(U256::from(*b)),
        (Ty::B256, Val::Big(b), ParamType::B256) => Token::B256(*b),
        (Ty::StrN(n), Val::Text(s), ParamType::StringArray(m)) if n == m => Token::StringArray(StaticStringToken::new(s.clone(), Some(*n))),
        (Ty::Str, Val::Text(s), ParamType::StringSlice) => Token::StringSlice(StaticStringToken::new(s.clone(), None)),
        (Ty::String, Val::Text(s), ParamType::String) => Token::String(s.clone()),
        (Ty::Bytes, Val::Blob(b), ParamType::Bytes) => Token::Bytes(b.clone()),
        (Ty::RawSlice, Val::Blob(b), ParamType::RawSlice) => Token::RawSlice(b.clone()),
        (Ty::Array(t, n), Val::Seq(xs), ParamType::Array(p, m)) if n == m => Token::Array(xs.iter().map(|x| to_token(t, x, p)).collect::<Result<_, _>>()?),
        (Ty::Vec(t), Val::Seq(xs), ParamType::Vector(p)) => Token::Vector(xs.iter().map(|x| to_token(t, x, p)).collect::<Result<_, _>>()?),
        (Ty::Tuple(ts), Val::Seq(xs), ParamType::Tuple(ps)) if ts.len() == ps.len() && xs.len() == ts.len() => {
            Token::Tuple(ts.iter().zip(xs).zip(ps).map(|((t, x), p)| to_token(t, x, p)).collect::<Result<_, _>>()?)
        }
        (Ty::Struct { fields: ts, .. }, Val::Seq(xs), ParamType::Struct { fields: ps, .. }) if ts.len() == ps.len() && xs.len() == ts.len() => {
            for (i, (n, _)) in ps.iter().enumerate() {
                if n != &format!("f{i}") {
                    return Err(format!("JSON ABI lists field `{n}` at position {i} of {}", ty.sway()));
                }
            }
            Token::Struct(ts.iter().zip(xs).zip(ps).map(|((t, x), (_, p))| to_token(t, x, p)).collect::<Result<_, _>>()?)
        }
        (Ty::Enum { .. }, Val::Variant(k, x), ParamType::Enum { enum_variants, .. }) | (Ty::Option(_), Val::Variant(k, x), ParamType::Enum { enum_variants, .. }) | (Ty::Result(..), Val::Variant(k, x), ParamType::Enum { enum_variants, .. }) => {
            let vs = enum_view(ty).unwrap();
            if vs.len() != enum_variants.variants().len() || *k >= vs.len() {
                return mismatch();
            }
            // every variant must be described correctly, not only the selected one
            let names: Vec<String> = match ty {
                Ty::Option(_) => vec!["None".into(), "Some".into()],
                Ty::Result(..) => vec!["Ok".into(), "Err".into()],
                _ => (0..vs.len()).map(|i| format!("V{i}")).collect(),
            };
            for (i, (n, p)) in enum_variants.variants().iter().enumerate() {
                if n != &names[i] {
                    return Err(format!("JSON ABI lists variant `{n}` at position {i} of {}", ty.sway()));
                }
                if i != *k && !conforms(&vs[i], p) {
                    return Err(format!("JSON ABI describes variant {i} of {} as {}", ty.sway(), short_pt(p)));
                }
            }
            let inner = to_token(&vs[*k], x, &enum_variants.variants()[*k].1)?;
            Token::Enum(Box::new((*k as u64, inner, enum_variants.clone())))
        }
        (Ty::TrivialBool, Val::Bool(b), ParamType::Struct { fields, .. }) if fields.len() == 1 && fields[0].1 == ParamType::U64 => Token::Struct(vec![Token::U64(*b as u64)]),
        (Ty::TrivialEnum(e), x, ParamType::Struct { fields, .. }) if fields.len() == 1 => Token::Struct(vec![to_token(e, x, &fields[0].1)?]),
        _ => return mismatch(),
    })
}

/// structural conformity of a ParamType with a type tree (no value needed)
pub fn conforms(ty: &Ty, pt: &ParamType) -> bool {
    match (ty, pt) {
        (Ty::Unit, ParamType::Unit) | (Ty::Bool, ParamType::Bool) | (Ty::U8, ParamType::U8) | (Ty::U16, ParamType::U16) | (Ty::U32, ParamType::U32) | (Ty::U64, ParamType::U64) | (Ty::U256, ParamType::U256) | (Ty::B256, ParamType::B256) | (Ty::Str, ParamType::StringSlice) | (Ty::String, ParamType::String) | (Ty::Bytes, ParamType::Bytes) | (Ty::RawSlice, ParamType::RawSlice) => true,
        (Ty::Tuple(ts), ParamType::Unit) => ts.is_empty(),
        (Ty::StrN(n), ParamType::StringArray(m)) => n == m,
        (Ty::Array(t, n), ParamType::Array(p, m)) => n == m && conforms(t, p),
        (Ty::Vec(t), ParamType::Vector(p)) => conforms(t, p),
        (Ty::Tuple(ts), ParamType::Tuple(ps)) => ts.len() == ps.len() && ts.iter().zip(ps).all(|(t, p)| conforms(t, p)),
        (Ty::Struct { fields: ts, .. }, ParamType::Struct { fields: ps, .. }) => ts.len() == ps.len() && ts.iter().zip(ps).all(|(t, (_, p))| conforms(t, p)),
        (Ty::Enum { .. }, ParamType::Enum { enum_variants, .. }) | (Ty::Option(_), ParamType::Enum { enum_variants, .. }) | (Ty::Result(..), ParamType::Enum { enum_variants, .. }) => {
            let vs = enum_view(ty).unwrap();
            vs.len() == enum_variants.variants().len() && vs.iter().zip(enum_variants.variants()).all(|(t, (_, p))| conforms(t, p))
        }
        (Ty::TrivialBool, ParamType::Struct { fields, .. }) => fields.len() == 1 && fields[0].1 == ParamType::U64,
        (Ty::TrivialEnum(e), ParamType::Struct { fields, .. }) => fields.len() == 1 && conforms(e, &fields[0].1),
        _ => false,
    }
}

pub fn short_pt(pt: &ParamType) -> String {
    let s = format!("{pt:?}");
    s.chars().take(160).collect()
}

#[derive(Debug)]
pub enum RefErr {
    /// the JSON ABI does not describe the program's type: a violation
    Shape(String),
    /// the two reference codecs disagree or fuels-core refuses: harness problem, inconclusive
    Harness(String),
}

/// Reference bytes of a value: both codecs must agree.
pub fn reference_bytes(ty: &Ty, v: &Val, pt: &Result<ParamType, String>) -> Result<Vec<u8>, RefErr> {
    let r1 = canon_bytes(ty, v).map_err(RefErr::Harness)?;
    let pt = pt.as_ref().map_err(|e| RefErr::Harness(format!("fuels-core cannot represent the JSON ABI type of {}: {e}", ty.sway())))?;
    let tok = to_token(ty, v, pt).map_err(RefErr::Shape)?;
    let r2 = ABIEncoder::default().encode(std::slice::from_ref(&tok)).map_err(|e| RefErr::Harness(format!("fuels-core encode: {e}")))?;
    if r1 != r2 {
        return Err(RefErr::Harness(format!("reference disagreement for {}: spec encoder {} / fuels-core {}", ty.sway(), hex::encode(&r1), hex::encode(&r2))));
    }
    // the SDK path back: decoding the canonical bytes by the JSON ABI type gives the value
    match ABIDecoder::default().decode(pt, r1.as_slice()) {
        Ok(t) if t == tok => {}
        Ok(t) => return Err(RefErr::Harness(format!("fuels-core decode of the reference bytes gives {t:?}, expected {tok:?}"))),
        Err(e) => return Err(RefErr::Harness(format!("fuels-core decode: {e}"))),
    }
    Ok(r1)
}

include!("c09_abi_gen.rs");
include!("c09_abi_prog.rs");
