//! C27: std collections (Vec, Bytes, String) and wide integers (U128, u256, std math,
//! primitive conversions) agree with reference models.
//!
//! Runtime monitor: packages of generated `#[test]` functions (one operation HISTORY per test) are
//! built and run through the real forc-test flow (`engine::run_unit_tests`) in debug and release
//! against /repo/sway-lib-std (or SWVERIF_STD_PATH for calibration). Every test logs every
//! observation; the harness compares the ordered log data and the revert status with what a Rust
//! reference model (Vec<T>, Vec<u8>, num_bigint::BigUint) predicts. In-VM asserts are not used.
use crate::common::*;
use crate::engine::*;
use crate::{Plan, Prop};
use rand::{rngs::StdRng, Rng};
use serde_json::{json, Value};
use std::collections::{BTreeMap, HashSet};
use std::panic::AssertUnwindSafe;
use std::path::Path;
use std::time::Instant;

#[path = "c27_coll.rs"]
mod coll;
#[path = "c27_num.rs"]
mod num;

pub static META: PropertyMeta = PropertyMeta {
    id: "C27",
    level: "exploration",
    rule: "an evaluation = one generated #[test] history executed through forc-test in one build profile and compared (ordered log data + revert status) with the reference model; non-trivial = a collection history with >= 3 operations including a mutation and an observation, or a numeric test with >= 3 evaluated functions on boundary-biased operands; distinct = hash of the test body text",
    assumptions: &[
        "fuel-vm 0.66 and the forc-test runner are the trusted execution substrate; the compiler is part of the system under test (debug and release)",
        "the oracle demands only what the std doc comments / code comments promise: capacity is only checked as >= len (and unchanged by clear), growth policy is not checked",
        "default VM flags: overflow, division by zero and log/sqrt domain errors revert; wrapping_* never revert",
        "tests that the model predicts to revert have the reverting operation as their LAST statement",
    ],
    floor_evaluations: 600,
    floor_nontrivial: 200,
    required_counters: &[
        "packages_run",
        "executions_debug",
        "executions_release",
        "family_vec_tests",
        "family_bytes_tests",
        "family_string_tests",
        "family_u128_tests",
        "family_u256_tests",
        "family_math_tests",
        "family_conv_tests",
        "expected_reverts_seen_vec",
        "expected_reverts_seen_bytes",
        "expected_reverts_seen_numeric",
        "growth_events_observed",
    ],
};

pub static PROP: Prop = Prop { meta: &META, plan, shard, replay, extra: crate::no_extra, subcommand };

fn plan(t: Tier) -> Plan {
    // A package build (std is compiled every time) takes 3-5 s on an idle machine and much more on
    // a loaded one: give the per-case watchdog room (children inherit the environment).
    if std::env::var("SWVERIF_CASE_WATCHDOG_S").is_err() {
        std::env::set_var("SWVERIF_CASE_WATCHDOG_S", "300");
    }
    Plan { nshards: 16, budget_s: t.pick(45.0, 900.0), mem_gib: 6 }
}

// ------------------------------------------------------------------------------------------
// expectations

#[derive(Clone, Debug, PartialEq)]
pub enum Check {
    Exact(Vec<u8>),
    /// a u64 whose exact value is not promised by the docs (capacity): must be >= the bound
    U64AtLeast(u64),
}

impl std::fmt::Display for Check {
    fn fmt(&self, f: &mut std::fmt::Formatter<'_>) -> std::fmt::Result {
        match self {
            Check::Exact(b) => write!(f, "{}", hex::encode(b)),
            Check::U64AtLeast(m) => write!(f, "a u64 >= {m}"),
        }
    }
}

#[derive(Clone, Debug)]
pub struct Obs {
    pub op: String,
    pub class: String,
    pub check: Check,
}

#[derive(Clone, Debug)]
pub struct TestCase {
    pub name: String,
    pub family: &'static str,
    pub body: String,
    pub expected: Vec<Obs>,
    /// (op, class) of the last statement when the model says it reverts
    pub revert_op: Option<(String, String)>,
    pub ops: Vec<String>,
    /// (counter key, class) pairs for the numeric boundary classes exercised
    pub classes: Vec<(String, String)>,
    pub nontrivial: bool,
    pub stats: BTreeMap<String, u64>,
}

impl TestCase {
    pub fn source(&self) -> String {
        format!("#[test]\nfn {}() {{\n{}}}\n", self.name, self.body)
    }
}

pub fn e_u64(v: u64) -> Vec<u8> {
    v.to_be_bytes().to_vec()
}
pub fn e_u8(v: u8) -> Vec<u8> {
    vec![v]
}
pub fn e_bool(v: bool) -> Vec<u8> {
    vec![v as u8]
}
pub fn e_opt(v: Option<Vec<u8>>) -> Vec<u8> {
    match v {
        None => e_u64(0),
        Some(p) => {
            let mut o = e_u64(1);
            o.extend(p);
            o
        }
    }
}

/// Builder of one test body + its expected observations.
pub struct TB {
    pub family: &'static str,
    lines: Vec<String>,
    pub expected: Vec<Obs>,
    pub revert_op: Option<(String, String)>,
    pub ops: Vec<String>,
    pub classes: Vec<(String, String)>,
    pub muts: u32,
    pub obs: u32,
    cur_op: String,
    cur_class: String,
    tmp: u32,
    pub stats: BTreeMap<String, u64>,
}

impl TB {
    pub fn new(family: &'static str) -> TB {
        TB { family, lines: vec![], expected: vec![], revert_op: None, ops: vec![], classes: vec![], muts: 0, obs: 0, cur_op: String::new(), cur_class: String::new(), tmp: 0, stats: BTreeMap::new() }
    }
    pub fn op(&mut self, op: &str, class: &str) {
        self.cur_op = op.to_string();
        self.cur_class = class.to_string();
        self.ops.push(op.to_string());
    }
    pub fn line(&mut self, s: impl Into<String>) {
        self.lines.push(s.into());
    }
    pub fn mutation(&mut self, s: impl Into<String>) {
        self.muts += 1;
        self.lines.push(s.into());
    }
    pub fn expect(&mut self, bytes: Vec<u8>) {
        self.expected.push(Obs { op: self.cur_op.clone(), class: self.cur_class.clone(), check: Check::Exact(bytes) });
        self.obs += 1;
    }
    pub fn log(&mut self, expr: &str, bytes: Vec<u8>) {
        self.lines.push(format!("log({expr});"));
        self.expect(bytes);
    }
    pub fn log_at_least(&mut self, expr: &str, min: u64) {
        self.lines.push(format!("log({expr});"));
        self.expected.push(Obs { op: self.cur_op.clone(), class: self.cur_class.clone(), check: Check::U64AtLeast(min) });
        self.obs += 1;
    }
    /// a statement that the model says reverts: must be the last one of the test
    pub fn reverting(&mut self, stmt: impl Into<String>) {
        self.lines.push(stmt.into());
        self.revert_op = Some((self.cur_op.clone(), self.cur_class.clone()));
    }
    pub fn tmp(&mut self, prefix: &str) -> String {
        self.tmp += 1;
        format!("{prefix}{}", self.tmp)
    }
    pub fn stat_max(&mut self, key: &str, v: u64) {
        let e = self.stats.entry(key.to_string()).or_insert(0);
        if v > *e {
            *e = v;
        }
    }
    pub fn finish(self, name: &str, nontrivial: bool) -> TestCase {
        let mut body = String::new();
        for l in &self.lines {
            body.push_str("    ");
            body.push_str(l);
            body.push('\n');
        }
        TestCase { name: name.to_string(), family: self.family, body, expected: self.expected, revert_op: self.revert_op, ops: self.ops, classes: self.classes, nontrivial, stats: self.stats }
    }
}

// ------------------------------------------------------------------------------------------
// packages

pub const PRELUDE: &str = r#"library;
use std::bytes::*;
use std::string::*;
use std::u128::*;
use std::convert::*;
use std::bytes_conversions::b256::*;
use std::bytes_conversions::u16::*;
use std::bytes_conversions::u32::*;
use std::bytes_conversions::u64::*;
use std::bytes_conversions::u256::*;

#[inline(never)]
fn o8(x: u8) -> u8 { x }
#[inline(never)]
fn o16(x: u16) -> u16 { x }
#[inline(never)]
fn o32(x: u32) -> u32 { x }
#[inline(never)]
fn o64(x: u64) -> u64 { x }
#[inline(never)]
fn o256(x: u256) -> u256 { x }
#[inline(never)]
fn ob256(x: b256) -> b256 { x }

struct S { a: u64, b: u8, c: bool }
impl PartialEq for S {
    fn eq(self, other: Self) -> bool { self.a == other.a && self.b == other.b && self.c == other.c }
}
impl Eq for S {}

fn dump_u64(v: Vec<u64>) {
    log(v.len());
    let mut i: u64 = 0u64;
    while i < v.len() {
        log(v.get(i).unwrap());
        i += 1u64;
    }
}
fn dump_u8(v: Vec<u8>) {
    log(v.len());
    let mut i: u64 = 0u64;
    while i < v.len() {
        log(v.get(i).unwrap());
        i += 1u64;
    }
}
fn dump_s(v: Vec<S>) {
    log(v.len());
    let mut i: u64 = 0u64;
    while i < v.len() {
        log(v.get(i).unwrap());
        i += 1u64;
    }
}
fn dump_b256(v: Vec<b256>) {
    log(v.len());
    let mut i: u64 = 0u64;
    while i < v.len() {
        log(v.get(i).unwrap());
        i += 1u64;
    }
}
fn dump_bytes(v: Bytes) {
    log(v.len());
    let mut i: u64 = 0u64;
    while i < v.len() {
        log(v.get(i).unwrap());
        i += 1u64;
    }
}

"#;

#[derive(Clone, Copy, Debug, PartialEq, Eq)]
pub enum PkgKind {
    Vec,
    BytesString,
    U128,
    Wide,
}

impl PkgKind {
    fn of(n: u64) -> PkgKind {
        match n % 4 {
            0 => PkgKind::Vec,
            1 => PkgKind::BytesString,
            2 => PkgKind::U128,
            _ => PkgKind::Wide,
        }
    }
    fn name(self) -> &'static str {
        match self {
            PkgKind::Vec => "vec",
            PkgKind::BytesString => "bytes_string",
            PkgKind::U128 => "u128",
            PkgKind::Wide => "wide",
        }
    }
}

pub struct Package {
    pub kind: PkgKind,
    pub source: String,
    pub tests: Vec<TestCase>,
}

/// Sizes of the generated histories for a tier.
#[derive(Clone, Copy)]
pub struct Sizes {
    pub coll_tests: usize,
    pub num_tests: usize,
    pub max_ops: usize,
    pub max_len: usize,
    pub max_items: usize,
}

fn sizes(tier: Tier) -> Sizes {
    match tier {
        Tier::Quick => Sizes { coll_tests: 40, num_tests: 64, max_ops: 16, max_len: 24, max_items: 6 },
        Tier::Thorough => Sizes { coll_tests: 56, num_tests: 80, max_ops: 36, max_len: 72, max_items: 8 },
    }
}

/// The package of (seed, shard, index): a pure function of its arguments.
pub fn gen_package(seed: u64, shard: u64, index: u64, tier: Tier) -> Package {
    let kind = PkgKind::of(shard + index);
    let sz = sizes(tier);
    let mut rng = rng_for(seed ^ 0x0c27, shard, index);
    let mut tests = vec![];
    match kind {
        PkgKind::Vec => {
            for k in 0..sz.coll_tests {
                let want_revert = rng.gen_range(0..100) < 24;
                let t = match k % 4 {
                    0 => coll::gen_seq_test::<u64>(&mut rng, false, &format!("t{k:03}_vec_u64"), want_revert, &sz),
                    1 => coll::gen_seq_test::<u8>(&mut rng, false, &format!("t{k:03}_vec_u8"), want_revert, &sz),
                    2 => coll::gen_seq_test::<coll::S>(&mut rng, false, &format!("t{k:03}_vec_s"), want_revert, &sz),
                    _ => coll::gen_seq_test::<coll::B32>(&mut rng, false, &format!("t{k:03}_vec_b256"), want_revert, &sz),
                };
                tests.push(t);
            }
        }
        PkgKind::BytesString => {
            for k in 0..sz.coll_tests {
                let want_revert = rng.gen_range(0..100) < 24;
                let t = if k % 3 == 2 {
                    coll::gen_string_test(&mut rng, &format!("t{k:03}_string"), &sz)
                } else {
                    coll::gen_seq_test::<u8>(&mut rng, true, &format!("t{k:03}_bytes"), want_revert, &sz)
                };
                tests.push(t);
            }
        }
        PkgKind::U128 => {
            for k in 0..sz.num_tests {
                let want_revert = rng.gen_range(0..100) < 30;
                tests.push(num::gen_num_test(&mut rng, "u128", &format!("t{k:03}_u128"), want_revert, &sz));
            }
        }
        PkgKind::Wide => {
            for k in 0..sz.num_tests {
                let want_revert = rng.gen_range(0..100) < 30;
                let fam = match k % 3 {
                    0 => "u256",
                    1 => "math",
                    _ => "conv",
                };
                tests.push(num::gen_num_test(&mut rng, fam, &format!("t{k:03}_{fam}"), want_revert, &sz));
            }
        }
    }
    let mut source = String::from(PRELUDE);
    for t in &tests {
        source.push_str(&t.source());
        source.push('\n');
    }
    Package { kind, source, tests }
}

// ------------------------------------------------------------------------------------------
// comparison

pub enum Cmp {
    /// agrees; the capacities observed (in order) for the growth evidence
    Ok(Vec<u64>),
    Inconclusive(String),
    Bad { signature: String, description: String },
}

fn sig(op: &str, kind: &str, class: &str) -> String {
    if class.is_empty() {
        format!("{op}:{kind}")
    } else {
        format!("{op}:{kind}:{class}")
    }
}

fn show_outcome(o: &Outcome) -> String {
    match o {
        Outcome::Return(v) => format!("Return({v})"),
        Outcome::ReturnData(d) => format!("ReturnData({})", hex::encode(d)),
        Outcome::Revert(c) => format!("Revert({c:#x})"),
        Outcome::Panic(r) => format!("Panic({r})"),
        Outcome::VmError(e) => format!("VmError({e})"),
    }
}

/// Compare one executed test with the model's prediction.
pub fn compare(expected: &[Obs], revert_op: &Option<(String, String)>, outcome: &Outcome, logs: &[Vec<u8>]) -> Cmp {
    match outcome {
        Outcome::VmError(e) => return Cmp::Inconclusive(format!("the VM refused the test: {e}")),
        Outcome::Panic(r) if r.contains("OutOfGas") => return Cmp::Inconclusive("test ran out of gas".into()),
        _ => {}
    }
    let reverted = outcome.reverted();
    let mut caps = vec![];
    let n = logs.len().min(expected.len());
    for i in 0..n {
        let e = &expected[i];
        match &e.check {
            Check::Exact(b) => {
                if &logs[i] != b {
                    return Cmp::Bad {
                        signature: sig(&e.op, "value-mismatch", &e.class),
                        description: format!("observation #{i} of op {}: model {} / program {} (outcome {})", e.op, hex::encode(b), hex::encode(&logs[i]), show_outcome(outcome)),
                    };
                }
            }
            Check::U64AtLeast(m) => {
                let v = if logs[i].len() == 8 { Some(u64::from_be_bytes(logs[i][..].try_into().unwrap())) } else { None };
                match v {
                    Some(v) if v >= *m => caps.push(v),
                    _ => {
                        return Cmp::Bad {
                            signature: sig(&e.op, "bound-violated", &e.class),
                            description: format!("observation #{i} of op {}: documented lower bound {m} / program {}", e.op, hex::encode(&logs[i])),
                        }
                    }
                }
            }
        }
    }
    if logs.len() > expected.len() {
        return match revert_op {
            Some((op, class)) => Cmp::Bad {
                signature: sig(op, "missing-revert", class),
                description: format!("op {op} is documented to revert here but produced {} (outcome {})", hex::encode(&logs[expected.len()]), show_outcome(outcome)),
            },
            None => Cmp::Bad {
                signature: sig(expected.last().map(|e| e.op.as_str()).unwrap_or("start"), "extra-log", ""),
                description: format!("{} observations beyond the {} the model predicts; first extra {}", logs.len() - expected.len(), expected.len(), hex::encode(&logs[expected.len()])),
            },
        };
    }
    if logs.len() < expected.len() {
        let e = &expected[logs.len()];
        return if reverted {
            Cmp::Bad {
                signature: sig(&e.op, "unexpected-revert", &e.class),
                description: format!("op {} reverted ({}) before observation #{}; the model expects {} and no revert", e.op, show_outcome(outcome), logs.len(), e.check),
            }
        } else {
            Cmp::Bad { signature: sig(&e.op, "missing-log", &e.class), description: format!("observation #{} of op {} is missing although the test returned ({})", logs.len(), e.op, show_outcome(outcome)) }
        };
    }
    match (revert_op, reverted) {
        (Some(_), true) | (None, false) => Cmp::Ok(caps),
        (Some((op, class)), false) => Cmp::Bad { signature: sig(op, "missing-revert", class), description: format!("op {op} is documented to revert here but the test returned ({})", show_outcome(outcome)) },
        (None, true) => Cmp::Bad { signature: sig("end", "unexpected-revert", ""), description: format!("the test reverted ({}) after its last observation", show_outcome(outcome)) },
    }
}

fn obs_json(expected: &[Obs]) -> Value {
    Value::Array(
        expected
            .iter()
            .map(|o| match &o.check {
                Check::Exact(b) => json!({"op": o.op, "class": o.class, "exact": hex::encode(b)}),
                Check::U64AtLeast(m) => json!({"op": o.op, "class": o.class, "at_least": m}),
            })
            .collect(),
    )
}

fn obs_from_json(v: &Value) -> Option<Vec<Obs>> {
    let mut out = vec![];
    for o in v.as_array()? {
        let op = o.get("op")?.as_str()?.to_string();
        let class = o.get("class")?.as_str()?.to_string();
        let check = if let Some(h) = o.get("exact").and_then(|x| x.as_str()) {
            Check::Exact(hex::decode(h).ok()?)
        } else {
            Check::U64AtLeast(o.get("at_least")?.as_u64()?)
        };
        out.push(Obs { op, class, check });
    }
    Some(out)
}

fn replay_json(pkg_source: &str, t: &TestCase, origin: &Value) -> Value {
    json!({
        "source": pkg_source,
        "test": t.name,
        "family": t.family,
        "expected": obs_json(&t.expected),
        "revert_op": t.revert_op.as_ref().map(|(o, c)| json!([o, c])),
        "origin": origin,
    })
}

/// Count what a test exercised (once per history).
fn count_history(t: &TestCase, res: &mut ShardResult) {
    res.count("histories");
    res.count(&format!("family_{}_tests", t.family));
    for op in &t.ops {
        res.count(&format!("xop:{op}"));
    }
    res.add("operations_total", t.ops.len() as u64);
    for (k, c) in &t.classes {
        res.count(&format!("xcls:{k}:{c}"));
    }
    for (k, v) in &t.stats {
        if k.starts_with("max_") {
            res.max(k, *v);
        } else {
            res.add(k, *v);
        }
    }
    res.max("max_ops_in_history", t.ops.len() as u64);
    if t.revert_op.is_some() {
        res.count("histories_expected_to_revert");
    }
    if t.nontrivial {
        res.note_nontrivial(hash64(t.body.as_bytes()));
    }
}

fn revert_family(f: &str) -> &'static str {
    match f {
        "vec" => "vec",
        "bytes" => "bytes",
        "string" => "string",
        _ => "numeric",
    }
}

/// Build and run one package in both profiles and compare every test.
pub fn run_package(pkg: &Package, dir: &Path, res: &mut ShardResult, seen: &mut HashSet<String>, origin: &Value) {
    let _ = std::fs::remove_dir_all(dir);
    if let Err(e) = write_pkg(dir, "c27pkg", &pkg.source, true) {
        res.inconclusive(format!("cannot write package: {e}"));
        return;
    }
    let mut counted = false;
    for profile in Profile::BOTH {
        let t0 = Instant::now();
        let run = match catch(AssertUnwindSafe(|| run_unit_tests(dir, profile, 1, None))) {
            Ok(Ok(r)) => r,
            Ok(Err(e)) => {
                res.count("packages_build_failed");
                let d = diag(dir);
                let file = dir.with_extension(format!("{}.failed.sw", profile.name()));
                let _ = std::fs::write(&file, &pkg.source);
                res.inconclusive(format!("package ({}, {}) did not build: {e:#}: {} [source kept in {}]", pkg.kind.name(), profile.name(), d.chars().take(400).collect::<String>(), file.display()));
                continue;
            }
            Err((loc, msg)) => {
                res.count("packages_compiler_panicked");
                res.inconclusive(format!("compiler panicked on package ({}, {}): {loc}: {}", pkg.kind.name(), profile.name(), msg.chars().take(200).collect::<String>()));
                continue;
            }
        };
        res.count("packages_run");
        res.count(&format!("packages_run_{}", pkg.kind.name()));
        res.max("max_package_build_and_run_ms", t0.elapsed().as_millis() as u64);
        if !counted {
            counted = true;
            for t in &pkg.tests {
                count_history(t, res);
            }
            if res.samples.len() < 2 {
                if let Some(t) = pkg.tests.iter().find(|t| t.nontrivial) {
                    res.sample(json!({"family": t.family, "test": t.source(), "expected_observations": t.expected.len(), "expected_to_revert": t.revert_op.is_some()}));
                }
            }
        }
        for t in &pkg.tests {
            let Some(o) = run.tests.iter().find(|o| o.name == t.name) else {
                res.inconclusive(format!("test {} was not run by forc-test", t.name));
                continue;
            };
            res.evaluations += 1;
            res.count(&format!("executions_{}", profile.name()));
            let logs: Vec<Vec<u8>> = o.logs.iter().map(|l| l.2.clone()).collect();
            res.add("observations_compared", logs.len().min(t.expected.len()) as u64);
            match compare(&t.expected, &t.revert_op, &o.outcome, &logs) {
                Cmp::Ok(caps) => {
                    if t.revert_op.is_some() {
                        res.count(&format!("expected_reverts_seen_{}", revert_family(t.family)));
                    }
                    let mut prev: Option<u64> = None;
                    for c in caps {
                        res.max("max_capacity_observed", c);
                        if let Some(p) = prev {
                            if c > p {
                                res.count("growth_events_observed");
                            }
                        }
                        prev = Some(c);
                    }
                }
                Cmp::Inconclusive(n) => res.inconclusive(format!("{} [{}]: {n}", t.name, profile.name())),
                Cmp::Bad { signature, description } => {
                    res.count("disagreements");
                    if seen.insert(signature.clone()) {
                        res.violation(signature, format!("[{} {} {}] {description}", t.family, t.name, profile.name()), replay_json(&pkg.source, t, origin));
                    } else {
                        res.count("violations_same_signature_suppressed");
                    }
                }
            }
        }
    }
}

/// Type-check the package (tests included) with forc_pkg::check and return the error texts.
pub fn diag(dir: &Path) -> String {
    use forc_pkg::{BuildPlan, PkgOpts};
    use sway_types::Spanned;
    let r = (|| -> anyhow::Result<String> {
        let plan = BuildPlan::from_pkg_opts(&PkgOpts { path: Some(dir.to_string_lossy().to_string()), offline: true, terse: true, ..Default::default() })?;
        let engines = sway_core::Engines::default();
        let v = forc_pkg::check(&plan, sway_core::BuildTarget::Fuel, true, None, true, &engines, None, &[], &[], sway_core::DbgGeneration::None)?;
        let mut out = vec![];
        for (_, h) in v {
            let (errs, _, _) = h.consume();
            for e in errs.iter().take(6) {
                let sp = e.span();
                let lc = sp.start_line_col_one_index();
                out.push(format!("{e} @{}:{} `{}`", lc.line, lc.col, sp.as_str().chars().take(80).collect::<String>()));
            }
        }
        Ok(out.join("\n"))
    })();
    match r {
        Ok(s) if s.is_empty() => "no type-check diagnostics (the failure is in IR generation / codegen)".into(),
        Ok(s) => s,
        Err(e) => format!("check failed: {e:#}"),
    }
}

// ------------------------------------------------------------------------------------------
// shard / replay

fn shard(ctx: &ShardCtx) -> ShardResult {
    let mut res = ShardResult::default();
    let work = ctx.work();
    let mut seen = HashSet::new();
    let mut i = ctx.first_index;
    let mut last_cost = 0.0f64;
    loop {
        // every shard runs its first package whatever the load of the machine; afterwards a
        // package is started only if it is likely to end within ~15 % of the budget
        if i > 0 {
            let elapsed = ctx.start.elapsed().as_secs_f64();
            if !ctx.time_left() || elapsed + last_cost > ctx.budget.as_secs_f64() * 1.15 {
                break;
            }
        }
        let pkg = gen_package(ctx.seed, ctx.shard, i, ctx.tier);
        let origin = json!({"seed": ctx.seed, "shard": ctx.shard, "index": i, "tier": ctx.tier.name(), "kind": pkg.kind.name()});
        journal_current(ctx, &format!("package kind {} index {i}", pkg.kind.name()));
        ctx.begin_case(i, &pkg.source, &res);
        let t0 = Instant::now();
        let dir = work.join(format!("p{i}"));
        run_package(&pkg, &dir, &mut res, &mut seen, &origin);
        ctx.end_case();
        last_cost = t0.elapsed().as_secs_f64();
        let _ = std::fs::remove_dir_all(&dir);
        i += 1;
    }
    res
}

fn replay(case: &Value) -> ShardResult {
    let mut res = ShardResult::default();
    let (Some(source), Some(test), Some(expected)) = (case.get("source").and_then(|v| v.as_str()), case.get("test").and_then(|v| v.as_str()), case.get("expected").and_then(obs_from_json)) else {
        res.harness_fault = Some("replay file lacks source / test / expected".into());
        return res;
    };
    let family = case.get("family").and_then(|v| v.as_str()).unwrap_or("?").to_string();
    let revert_op = case.get("revert_op").and_then(|v| v.as_array()).map(|a| (a[0].as_str().unwrap_or("").to_string(), a[1].as_str().unwrap_or("").to_string()));
    let dir = work_dir("C27").join("replay");
    clean_dir(&dir);
    if let Err(e) = write_pkg(&dir, "c27pkg", source, true) {
        res.harness_fault = Some(format!("cannot write package: {e}"));
        return res;
    }
    let mut seen = HashSet::new();
    for profile in Profile::BOTH {
        let run = match catch(AssertUnwindSafe(|| run_unit_tests(&dir, profile, 1, Some((test, true))))) {
            Ok(Ok(r)) => r,
            Ok(Err(e)) => {
                res.inconclusive(format!("package did not build in {}: {e:#}: {}", profile.name(), diag(&dir)));
                continue;
            }
            Err((loc, msg)) => {
                res.inconclusive(format!("compiler panicked: {loc}: {msg}"));
                continue;
            }
        };
        let Some(o) = run.tests.iter().find(|o| o.name == test) else {
            res.inconclusive(format!("test {test} was not run"));
            continue;
        };
        res.evaluations += 1;
        let logs: Vec<Vec<u8>> = o.logs.iter().map(|l| l.2.clone()).collect();
        match compare(&expected, &revert_op, &o.outcome, &logs) {
            Cmp::Ok(_) => println!("  {test} [{}]: agrees with the model ({} observations, outcome {})", profile.name(), logs.len(), show_outcome(&o.outcome)),
            Cmp::Inconclusive(n) => res.inconclusive(n),
            Cmp::Bad { signature, description } => {
                println!("  {test} [{}]: {signature}: {description}", profile.name());
                if seen.insert(signature.clone()) {
                    res.violation(signature, format!("[{family} {test} {}] {description}", profile.name()), case.clone());
                }
            }
        }
    }
    if res.evaluations == 0 {
        res.harness_fault = Some(format!("replay could not execute the test: {}", res.inconclusive_notes.join("; ")));
    }
    res
}

// ------------------------------------------------------------------------------------------
// helper subcommands (development / calibration)
//   swverif c27probe <file.sw>            run a hand-written test package, print outcomes + logs
//   swverif c27gen <shard> <index> [tier] print the generated package
//   swverif c27one <shard> <index> [tier] generate + run one package, print disagreements
//   swverif c27selftest                   feed the oracle synthetic bad observations

fn subcommand(args: &[String]) -> Option<i32> {
    let cmd = args.first().map(|s| s.as_str())?;
    let tier_of = |a: Option<&String>| a.and_then(|s| Tier::parse(s)).unwrap_or(Tier::Quick);
    match cmd {
        "c27probe" => {
            let src = std::fs::read_to_string(&args[1]).expect("read source");
            let work = work_dir("c27probe");
            clean_dir(&work);
            let dir = work.join("pkg");
            write_pkg(&dir, "c27probe", &src, true).unwrap();
            for profile in Profile::BOTH {
                let t = Instant::now();
                match run_unit_tests(&dir, profile, 1, None) {
                    Err(e) => println!("{}: build/run failed: {e:#}\n{}", profile.name(), diag(&dir)),
                    Ok(run) => {
                        println!("{}: {} tests in {:.1}s", profile.name(), run.tests.len(), t.elapsed().as_secs_f64());
                        for t in &run.tests {
                            println!("  {} passed={} outcome={} gas={}", t.name, t.passed, show_outcome(&t.outcome), t.gas_used);
                            for (_, _, d) in &t.logs {
                                println!("      log {}", hex::encode(d));
                            }
                        }
                    }
                }
            }
            Some(0)
        }
        "c27gen" => {
            let pkg = gen_package(env_seed(), args[1].parse().unwrap(), args[2].parse().unwrap(), tier_of(args.get(3)));
            println!("{}", pkg.source);
            Some(0)
        }
        "c27one" => {
            let shard: u64 = args[1].parse().unwrap();
            let index: u64 = args[2].parse().unwrap();
            let pkg = gen_package(env_seed(), shard, index, tier_of(args.get(3)));
            let mut res = ShardResult::default();
            let dir = work_dir("c27one").join(format!("s{shard}_p{index}"));
            let t = Instant::now();
            run_package(&pkg, &dir, &mut res, &mut HashSet::new(), &json!({}));
            println!("kind={} tests={} evaluations={} inconclusive={} violations={} suppressed={} wall={:.1}s", pkg.kind.name(), pkg.tests.len(), res.evaluations, res.inconclusive, res.violations.len(), res.counters.get("violations_same_signature_suppressed").copied().unwrap_or(0), t.elapsed().as_secs_f64());
            for n in &res.inconclusive_notes {
                println!("  inconclusive: {n}");
            }
            for v in &res.violations {
                println!("  VIOLATION {} :: {}", v.signature, v.description);
            }
            Some(if res.violations.is_empty() { 0 } else { 1 })
        }
        "c27enum" => Some(enum_cmd()),
        "c27selftest" => Some(selftest()),
        _ => None,
    }
}

/// Run every input of the enumerated defect regions (one test each) and print the
/// known-findings entries of those that disagree with the model on the std in use.
fn enum_cmd() -> i32 {
    let tests = num::enum_tests();
    let mut source = String::from(PRELUDE);
    for t in &tests {
        source.push_str(&t.source());
        source.push('\n');
    }
    let pkg = Package { kind: PkgKind::U128, source, tests };
    let mut res = ShardResult::default();
    let dir = work_dir("c27one").join("enum");
    let mut seen = HashSet::new();
    run_package(&pkg, &dir, &mut res, &mut seen, &json!({"enumerated": true}));
    for n in &res.inconclusive_notes {
        eprintln!("inconclusive: {n}");
    }
    let mut sigs: Vec<(String, String)> = res.violations.iter().map(|v| (v.signature.clone(), v.description.clone())).collect();
    sigs.sort();
    let entries: Vec<Value> = sigs
        .iter()
        .map(|(s, d)| {
            let what = d.split("] ").nth(1).unwrap_or(d);
            json!({"property": "C27", "signature": s, "description": format!("std defect on the unchanged tree: {what}"), "status": "open"})
        })
        .collect();
    println!("{}", serde_json::to_string_pretty(&Value::Array(entries)).unwrap());
    eprintln!("{} enumerated tests, {} evaluations, {} disagreeing signatures", pkg.tests.len(), res.evaluations, sigs.len());
    0
}

/// Unit test of the oracle with synthetic observations.
fn selftest() -> i32 {
    let ex = |b: Vec<u8>, op: &str| Obs { op: op.into(), class: "k".into(), check: Check::Exact(b) };
    let expected = vec![ex(e_u64(1), "a.push"), Obs { op: "a.capacity".into(), class: String::new(), check: Check::U64AtLeast(3) }, ex(e_u8(7), "a.get")];
    let good = vec![e_u64(1), e_u64(4), e_u8(7)];
    let ret = Outcome::Return(0);
    let rev = Outcome::Revert(0);
    let mut fails = 0;
    let mut check = |name: &str, c: Cmp, want: &str| {
        let got = match &c {
            Cmp::Ok(_) => "ok".to_string(),
            Cmp::Inconclusive(_) => "inconclusive".to_string(),
            Cmp::Bad { signature, .. } => signature.clone(),
        };
        if got != want {
            println!("selftest {name}: got {got}, want {want}");
            fails += 1;
        }
    };
    check("agree", compare(&expected, &None, &ret, &good), "ok");
    check("wrong value", compare(&expected, &None, &ret, &[e_u64(1), e_u64(4), e_u8(8)]), "a.get:value-mismatch:k");
    check("capacity below len", compare(&expected, &None, &ret, &[e_u64(1), e_u64(2), e_u8(7)]), "a.capacity:bound-violated");
    check("unexpected revert", compare(&expected, &None, &rev, &good[..2]), "a.get:unexpected-revert:k");
    check("revert at end", compare(&expected, &None, &rev, &good), "end:unexpected-revert");
    check("missing log", compare(&expected, &None, &ret, &good[..1]), "a.capacity:missing-log");
    check("extra log", compare(&expected, &None, &ret, &[good.clone(), vec![e_u8(1)]].concat()), "a.get:extra-log");
    let rop = Some(("a.remove".to_string(), "k".to_string()));
    check("expected revert", compare(&expected, &rop, &rev, &good), "ok");
    check("missing revert", compare(&expected, &rop, &ret, &good), "a.remove:missing-revert:k");
    check("missing revert, value logged", compare(&expected, &rop, &ret, &[good.clone(), vec![e_u8(1)]].concat()), "a.remove:missing-revert:k");
    check("early revert", compare(&expected, &rop, &rev, &good[..1]), "a.capacity:unexpected-revert");
    check("vm error", compare(&expected, &None, &Outcome::VmError("x".into()), &[]), "inconclusive");
    check("out of gas", compare(&expected, &None, &Outcome::Panic("OutOfGas".into()), &good[..1]), "inconclusive");
    // models
    fails += num::selftest();
    fails += coll::selftest();
    println!("c27selftest: {} failure(s)", fails);
    if fails == 0 {
        0
    } else {
        1
    }
}

#[allow(dead_code)]
fn _unused(_: &mut StdRng) {}
