//! Execution engines: package writer, plain forc build, amortised forc build (std compiled once
//! per worker), and the FuelVM script runner with normalised observations.

use anyhow::{anyhow, bail, Result};
use forc_pkg::manifest::GenericManifestFile;
use forc_pkg::{BuildOpts, BuildPlan, BuildProfile, Built, BuiltPackage, CompiledPackage, PackageDescriptor, PkgOpts};
use forc_test::ecal::EcalSyscallHandler;
use fuel_tx::TransactionBuilder;
use fuel_vm::checked_transaction::builder::TransactionBuilderExt;
use fuel_vm::fuel_tx::{self, consensus_parameters::ConsensusParametersV1};
use fuel_vm::interpreter::Interpreter;
use fuel_vm::prelude::*;
use rand::{rngs::StdRng, Rng, SeedableRng};
use serde::{Deserialize, Serialize};
use std::collections::HashMap;
use std::path::{Path, PathBuf};
use std::sync::Arc;
use sway_core::{namespace, BuildTarget, DbgGeneration, Engines};
use sway_features::ExperimentalFeatures;

pub const STD_PATH: &str = "/repo/sway-lib-std";

/// The standard library the generated packages depend on: /repo/sway-lib-std. For calibrating a
/// monitor against a deliberately broken std (a mutated COPY, never /repo itself) the path can
/// be redirected with SWVERIF_STD_PATH; registered checks never set it.
pub fn std_path() -> String {
    std::env::var("SWVERIF_STD_PATH").unwrap_or_else(|_| STD_PATH.to_string())
}

#[derive(Clone, Copy, Debug, PartialEq, Eq, Serialize, Deserialize)]
pub enum Profile {
    Debug,
    Release,
}

impl Profile {
    pub fn name(self) -> &'static str {
        match self {
            Profile::Debug => "debug",
            Profile::Release => "release",
        }
    }
    pub fn build_profile(self) -> BuildProfile {
        match self {
            Profile::Debug => BuildProfile::debug(),
            Profile::Release => BuildProfile::release(),
        }
    }
    pub const BOTH: [Profile; 2] = [Profile::Debug, Profile::Release];
}

/// Write a one-file package. `kind` is only used for the file name convention.
pub fn write_pkg(dir: &Path, name: &str, src: &str, with_std: bool) -> Result<()> {
    write_pkg_ext(dir, name, src, with_std, "main.sw", "")
}

pub fn write_pkg_ext(dir: &Path, name: &str, src: &str, with_std: bool, entry: &str, extra_manifest: &str) -> Result<()> {
    std::fs::create_dir_all(dir.join("src"))?;
    let deps = if with_std { format!("std = {{ path = \"{}\" }}\n", std_path()) } else { String::new() };
    let manifest = format!(
        "[project]\nauthors = [\"verif\"]\nentry = \"{entry}\"\nlicense = \"Apache-2.0\"\nname = \"{name}\"\nimplicit-std = false\n{extra_manifest}\n[dependencies]\n{deps}"
    );
    std::fs::write(dir.join("Forc.toml"), manifest)?;
    std::fs::write(dir.join("src").join(entry), src)?;
    Ok(())
}

/// Plain forc build of a package directory (absolute path), the way `forc build` does it.
pub fn plain_build(dir: &Path, profile: Profile) -> Result<Arc<BuiltPackage>> {
    let opts = BuildOpts {
        pkg: PkgOpts { path: Some(dir.to_string_lossy().to_string()), offline: true, terse: true, ..Default::default() },
        release: profile == Profile::Release,
        build_profile: profile.name().to_string(),
        no_output: true,
        ..Default::default()
    };
    match forc_pkg::build_with_options(&opts, None)? {
        Built::Package(p) => Ok(p),
        Built::Workspace(_) => bail!("unexpected workspace"),
    }
}

/// Amortised forc engine: std compiled once per (worker, profile); every package afterwards is
/// compiled with exactly the calls `forc_pkg::build` makes for the package node.
pub struct Amortised {
    work: PathBuf,
    per_profile: HashMap<&'static str, StdCache>,
    counter: u64,
    last: PathBuf,
}

struct StdCache {
    engines: Engines,
    std_ns: namespace::Package,
    compiled: u64,
}

pub struct Compiled {
    pub pkg: CompiledPackage,
    pub dir: PathBuf,
}

impl Amortised {
    pub fn new(work: &Path) -> Self {
        std::fs::create_dir_all(work).ok();
        Amortised { work: work.to_path_buf(), per_profile: HashMap::new(), counter: 0, last: PathBuf::new() }
    }

    fn std_cache(&mut self, profile: Profile) -> Result<&mut StdCache> {
        let key = profile.name();
        // recycle to bound engine growth
        if let Some(c) = self.per_profile.get(key) {
            if c.compiled >= 400 {
                self.per_profile.remove(key);
            }
        }
        if !self.per_profile.contains_key(key) {
            let dir = self.work.join(format!("stdseed_{key}_{}", self.counter));
            self.counter += 1;
            write_pkg(&dir, "stdseed", "library;\n", true)?;
            let plan = BuildPlan::from_pkg_opts(&PkgOpts { path: Some(dir.to_string_lossy().to_string()), offline: true, terse: true, ..Default::default() })?;
            let engines = Engines::default();
            let graph = plan.graph();
            let std_node = graph.node_indices().find(|n| graph[*n].name == "std").ok_or_else(|| anyhow!("no std node"))?;
            let pkg = &graph[std_node];
            let manifest = &plan.manifest_map()[&pkg.id()];
            let bp = profile.build_profile();
            let dbg = if bp.is_release() { DbgGeneration::None } else { DbgGeneration::Full };
            let experimental = ExperimentalFeatures::new(&manifest.project.experimental, &[], &[]).map_err(|e| anyhow!("{e}"))?;
            let descriptor = PackageDescriptor { name: pkg.name.clone(), target: BuildTarget::Fuel, pinned: pkg.clone(), manifest_file: manifest.clone() };
            let program_id = engines.se().get_or_create_program_id_from_manifest_path(&manifest.entry_path());
            let ns = forc_pkg::dependency_namespace(&HashMap::default(), &HashMap::new(), graph, std_node, &engines, None, program_id, experimental, dbg).map_err(|e| anyhow!("std namespace: {:?}", e.first()))?;
            let mut sm = sway_core::source_map::SourceMap::new();
            let bp_lib = BuildProfile { include_tests: false, ..bp };
            let compiled = forc_pkg::compile(&descriptor, &bp_lib, &engines, ns, &mut sm, experimental, dbg)?;
            let _ = std::fs::remove_dir_all(&dir);
            self.per_profile.insert(key, StdCache { engines, std_ns: compiled.namespace, compiled: 0 });
        }
        Ok(self.per_profile.get_mut(key).unwrap())
    }

    /// Compile one single-file package that depends on std. `include_tests` as for forc test.
    pub fn compile(&mut self, name: &str, src: &str, profile: Profile) -> Result<Compiled> {
        let dir = self.work.join(format!("p{}", self.counter));
        self.counter += 1;
        self.last = dir.clone();
        // Every package compiled with the shared Engines gets its own package name: compiling
        // unrelated programs under one package name (with recurring declaration names) in one
        // Engines instance is something `forc build` never does, and it makes the compiler
        // report spurious trait / type errors from stale declarations.
        let _ = name;
        let unique = Self::unique_name(src, self.counter);
        write_pkg(&dir, &unique, src, true)?;
        let r = self.compile_dir(&dir, profile);
        r.map(|pkg| Compiled { pkg, dir })
    }

    pub fn compile_dir(&mut self, dir: &Path, profile: Profile) -> Result<CompiledPackage> {
        let cache = self.std_cache(profile)?;
        cache.compiled += 1;
        let plan = BuildPlan::from_pkg_opts(&PkgOpts { path: Some(dir.to_string_lossy().to_string()), offline: true, terse: true, ..Default::default() })?;
        let graph = plan.graph();
        let std_node = graph.node_indices().find(|n| graph[*n].name == "std").ok_or_else(|| anyhow!("no std node"))?;
        let node = plan.member_nodes().next().ok_or_else(|| anyhow!("no member"))?;
        let pkg = &graph[node];
        let manifest = &plan.manifest_map()[&pkg.id()];
        let bp = profile.build_profile();
        let dbg = match (bp.is_release(), manifest.project.force_dbg_in_release) {
            (true, Some(true)) | (false, _) => DbgGeneration::Full,
            (true, _) => DbgGeneration::None,
        };
        let experimental = ExperimentalFeatures::new(&manifest.project.experimental, &[], &[]).map_err(|e| anyhow!("{e}"))?;
        let descriptor = PackageDescriptor { name: pkg.name.clone(), target: BuildTarget::Fuel, pinned: pkg.clone(), manifest_file: manifest.clone() };
        let engines = &cache.engines;
        let program_id = engines.se().get_or_create_program_id_from_manifest_path(&manifest.entry_path());
        let mut libs = HashMap::default();
        libs.insert(std_node, cache.std_ns.clone());
        let ns = forc_pkg::dependency_namespace(&libs, &HashMap::new(), graph, node, engines, None, program_id, experimental, dbg).map_err(|e| anyhow!("namespace: {:?}", e.first()))?;
        let mut sm = sway_core::source_map::SourceMap::new();
        forc_pkg::compile(&descriptor, &bp, engines, ns, &mut sm, experimental, dbg)
    }

    /// Compile the package with the harness's own Handler to obtain the diagnostics (and whether
    /// anything is an internal compiler error). Returns (errors, produced_bytecode).
    pub fn diagnose_dir(&mut self, dir: &Path, profile: Profile) -> Result<(Vec<sway_error::error::CompileError>, bool)> {
        let cache = self.std_cache(profile)?;
        cache.compiled += 1;
        let plan = BuildPlan::from_pkg_opts(&PkgOpts { path: Some(dir.to_string_lossy().to_string()), offline: true, terse: true, ..Default::default() })?;
        let graph = plan.graph();
        let std_node = graph.node_indices().find(|n| graph[*n].name == "std").ok_or_else(|| anyhow!("no std node"))?;
        let node = plan.member_nodes().next().ok_or_else(|| anyhow!("no member"))?;
        let pkg = &graph[node];
        let manifest = &plan.manifest_map()[&pkg.id()];
        let bp = profile.build_profile();
        let dbg = if bp.is_release() { DbgGeneration::None } else { DbgGeneration::Full };
        let experimental = ExperimentalFeatures::new(&manifest.project.experimental, &[], &[]).map_err(|e| anyhow!("{e}"))?;
        let engines = &cache.engines;
        let program_id = engines.se().get_or_create_program_id_from_manifest_path(&manifest.entry_path());
        let mut libs = HashMap::default();
        libs.insert(std_node, cache.std_ns.clone());
        let ns = forc_pkg::dependency_namespace(&libs, &HashMap::new(), graph, node, engines, None, program_id, experimental, dbg).map_err(|e| anyhow!("namespace: {:?}", e.first()))?;
        let cfg = forc_pkg::sway_build_config(manifest.dir(), &manifest.entry_path(), BuildTarget::Fuel, &bp, dbg)?;
        let handler = sway_error::handler::Handler::default();
        let source = manifest.entry_string()?;
        let mut produced = false;
        if let Ok(programs) = sway_core::compile_to_ast(&handler, engines, source, ns, Some(&cfg), &pkg.name, None, experimental) {
            if programs.typed.is_ok() && !handler.has_errors() {
                if let Ok(mut asm) = sway_core::ast_to_asm(&handler, engines, &programs, &cfg, experimental) {
                    let mut sm = sway_core::source_map::SourceMap::new();
                    if sway_core::asm_to_bytecode(&handler, &mut asm, &mut sm, engines.se(), &cfg).is_ok() {
                        produced = !handler.has_errors();
                    }
                }
            }
        }
        let (errors, _, _) = handler.consume();
        Ok((errors, produced))
    }

    /// write `src` as a fresh package (unique package name) and return its directory
    pub fn write_unique(&mut self, src: &str) -> PathBuf {
        let dir = self.scratch_dir();
        let _ = write_pkg(&dir, &Self::unique_name(src, self.counter), src, true);
        dir
    }

    pub fn unique_name(src: &str, counter: u64) -> String {
        format!("g{:x}x{:012x}", counter, crate::common::hash64(src.as_bytes()) & 0xffff_ffff_ffff)
    }

    /// a fresh package directory name under this engine's work dir
    pub fn scratch_dir(&mut self) -> PathBuf {
        let dir = self.work.join(format!("p{}", self.counter));
        self.counter += 1;
        self.last = dir.clone();
        dir
    }

    /// Compile std for both profiles now (so that the cost is not attributed to the first case).
    pub fn warm(&mut self) -> Result<()> {
        for p in Profile::BOTH {
            self.std_cache(p)?;
        }
        Ok(())
    }

    /// directory of the most recently written package
    pub fn last_dir(&self) -> PathBuf {
        self.last.clone()
    }

    pub fn remove(&self, c: &Compiled) {
        let _ = std::fs::remove_dir_all(&c.dir);
    }
}

// ------------------------------------------------------------------------------------------
// VM runner

#[derive(Clone, Debug, PartialEq, Eq, Serialize, Deserialize)]
pub enum Outcome {
    Return(u64),
    ReturnData(Vec<u8>),
    Revert(u64),
    Panic(String),
    /// the VM refused the transaction (not an execution outcome)
    VmError(String),
}

impl Outcome {
    pub fn reverted(&self) -> bool {
        matches!(self, Outcome::Revert(_) | Outcome::Panic(_))
    }
}

#[derive(Clone, Debug, PartialEq, Eq, Serialize, Deserialize)]
pub struct Observation {
    pub outcome: Outcome,
    /// (rb = log id, data) for LogData; (rb, ra as 8 BE bytes) for Log
    pub logs: Vec<(u64, Vec<u8>)>,
    pub gas_used: u64,
    #[serde(default)]
    /// positions in `logs` that come from raw `log` instructions (asm blocks): their register
    /// operands may be addresses, which legitimately depend on the memory layout
    pub raw_log_positions: Vec<usize>,
}

impl Observation {
    /// Comparison of C02: same return data, same logged values, same revert status. When
    /// both reverted only the status is compared.
    pub fn same_behaviour(&self, other: &Observation) -> bool {
        match (self.outcome.reverted(), other.outcome.reverted()) {
            (true, true) => true,
            (false, false) => self.outcome == other.outcome && self.logs == other.logs,
            _ => false,
        }
    }
    pub fn short(&self) -> String {
        let o = match &self.outcome {
            Outcome::Return(v) => format!("Return({v})"),
            Outcome::ReturnData(d) => format!("ReturnData({})", hex::encode(d)),
            Outcome::Revert(c) => format!("Revert({c:#x})"),
            Outcome::Panic(r) => format!("Panic({r})"),
            Outcome::VmError(e) => format!("VmError({e})"),
        };
        format!("{o} logs={}", self.logs.iter().map(|(id, d)| format!("{id}:{}", hex::encode(d))).collect::<Vec<_>>().join(","))
    }
}

pub fn run_script(bytecode: &[u8], script_data: &[u8]) -> Observation {
    match run_script_inner(bytecode, script_data) {
        Ok(o) => o,
        Err(e) => Observation { outcome: Outcome::VmError(e.to_string()), logs: vec![], gas_used: 0, raw_log_positions: vec![] },
    }
}

fn run_script_inner(bytecode: &[u8], script_data: &[u8]) -> Result<Observation> {
    let storage = MemoryStorage::default();
    let rng = &mut StdRng::seed_from_u64(2322u64);
    let maturity = 1.into();
    let block_height = (u32::MAX >> 1).into();
    let max_size = 64 * 1024 * 1024;
    let script_params = ScriptParameters::DEFAULT.with_max_script_length(max_size).with_max_script_data_length(max_size);
    let tx_params = TxParameters::DEFAULT.with_max_size(max_size);
    let params = ConsensusParameters::V1(ConsensusParametersV1 { script_params, tx_params, ..Default::default() });
    let mut tb = TransactionBuilder::script(bytecode.to_vec(), script_data.to_vec());
    tb.with_params(params).add_unsigned_coin_input(SecretKey::random(rng), rng.gen(), 1, Default::default(), rng.gen()).maturity(maturity);
    let gas_price = 0;
    let consensus_params = tb.get_params().clone();
    let params = ConsensusParameters::default();
    let tmp_tx = tb.clone().finalize();
    let max_gas = tmp_tx.max_gas(consensus_params.gas_costs(), consensus_params.fee_params()) + 1;
    tb.script_gas_limit(consensus_params.tx_params().max_gas_per_tx() - max_gas);
    let tx = tb.finalize_checked(block_height).into_ready(gas_price, params.gas_costs(), params.fee_params(), None).map_err(|e| anyhow!("{e:?}"))?;
    let mem_instance = MemoryInstance::new();
    let mut i: Interpreter<_, _, _, EcalSyscallHandler> = Interpreter::with_storage(mem_instance, storage, Default::default());
    let transition = i.transact(tx).map_err(|e| anyhow!("{e:?}"))?;
    Ok(observe(transition.receipts()))
}

pub fn observe(receipts: &[fuel_tx::Receipt]) -> Observation {
    use fuel_tx::Receipt;
    let mut outcome = None;
    let mut logs = vec![];
    let mut raw_log_positions = vec![];
    let mut gas_used = 0;
    for r in receipts {
        match r {
            Receipt::Return { val, .. } => {
                if outcome.is_none() {
                    outcome = Some(Outcome::Return(*val));
                }
            }
            Receipt::ReturnData { data, .. } => {
                if outcome.is_none() {
                    outcome = Some(Outcome::ReturnData(data.as_ref().map(|d| d.to_vec()).unwrap_or_default()));
                }
            }
            Receipt::Revert { ra, .. } => {
                outcome = Some(Outcome::Revert(*ra));
            }
            Receipt::Panic { reason, .. } => {
                outcome = Some(Outcome::Panic(format!("{:?}", reason.reason())));
            }
            Receipt::Log { ra, rb, .. } => {
                raw_log_positions.push(logs.len());
                logs.push((*rb, ra.to_be_bytes().to_vec()))
            }
            Receipt::LogData { rb, data, .. } => logs.push((*rb, data.as_ref().map(|d| d.to_vec()).unwrap_or_default())),
            Receipt::ScriptResult { gas_used: g, .. } => gas_used = *g,
            _ => {}
        }
    }
    Observation { outcome: outcome.unwrap_or(Outcome::VmError("no terminal receipt".into())), logs, gas_used, raw_log_positions }
}

// ------------------------------------------------------------------------------------------
// forc test flow (unit tests inside a package; contracts are deployed by forc-test itself)

#[derive(Clone, Debug)]
pub struct UnitTestOutcome {
    pub name: String,
    /// what forc test reports
    pub passed: bool,
    /// the VM outcome of the test body
    pub outcome: Outcome,
    /// (contract id of the emitter as hex: all zeroes for the test script itself, rb, data)
    pub logs: Vec<(String, u64, Vec<u8>)>,
    pub gas_used: u64,
}

pub struct UnitTestRun {
    pub tests: Vec<UnitTestOutcome>,
    pub built: Box<BuiltPackage>,
}

/// Build the package at `dir` with tests and run them with the real forc-test machinery.
/// `runners`: number of parallel test runners; `filter`: optional (phrase, exact) test filter.
pub fn run_unit_tests(dir: &Path, profile: Profile, runners: usize, filter: Option<(&str, bool)>) -> Result<UnitTestRun> {
    let opts = forc_test::TestOpts {
        pkg: PkgOpts { path: Some(dir.to_string_lossy().to_string()), offline: true, terse: true, ..Default::default() },
        release: profile == Profile::Release,
        build_profile: profile.name().to_string(),
        no_output: true,
        ..Default::default()
    };
    let built = forc_test::build(opts)?;
    let gas = forc_test::GasCostsSource::BuiltIn.provide_gas_costs()?;
    let filter = filter.map(|(p, exact)| forc_test::TestFilter { filter_phrase: p, exact_match: exact });
    let tested = built.run(forc_test::TestRunnerCount::Manual(runners.max(1)), filter, gas, forc_test::TestGasLimit::default())?;
    let pkg = match tested {
        forc_test::Tested::Package(p) => *p,
        forc_test::Tested::Workspace(_) => bail!("unexpected workspace"),
    };
    let mut tests = vec![];
    for t in &pkg.tests {
        let obs = observe(&t.logs);
        let mut logs = vec![];
        for r in &t.logs {
            match r {
                fuel_tx::Receipt::LogData { id, rb, data, .. } => logs.push((hex::encode(id.as_ref()), *rb, data.as_ref().map(|d| d.to_vec()).unwrap_or_default())),
                fuel_tx::Receipt::Log { id, ra, rb, .. } => logs.push((hex::encode(id.as_ref()), *rb, ra.to_be_bytes().to_vec())),
                _ => {}
            }
        }
        let outcome = match t.state {
            fuel_vm::state::ProgramState::Return(v) => Outcome::Return(v),
            fuel_vm::state::ProgramState::ReturnData(_) => obs.outcome.clone(),
            fuel_vm::state::ProgramState::Revert(c) => match obs.outcome {
                Outcome::Panic(ref p) => Outcome::Panic(p.clone()),
                _ => Outcome::Revert(c),
            },
            _ => Outcome::VmError("suspended".into()),
        };
        tests.push(UnitTestOutcome { name: t.name.clone(), passed: t.passed(), outcome, logs, gas_used: t.gas_used });
    }
    Ok(UnitTestRun { tests, built: pkg.built })
}

/// Silence forc's progress output inside workers (it goes to the shard log otherwise).
pub fn quiet() {
    // forc-tracing prints through `tracing` when a subscriber is installed and through
    // println! otherwise; the shard's stdout is a log file, so nothing to do.
}
