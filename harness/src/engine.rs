//! execution engines
