//! C28: persistent storage collections behave like their models.
//!
//! One case = one generated CONTRACT package in one build profile: a `storage { .. }` block with
//! 2-3 StorageVec (u64, u8, b256, 24-byte struct), 2 StorageMap (u64/b256 keys; u64, u8, 24-byte
//! and 40-byte two-slot values), a nested StorageMap<u64, StorageVec<_>>, StorageBytes,
//! StorageString (plain or nested in a StorageMap) and plain u64 "canary" fields in between; an
//! ABI with one method per (field, operation); and 28 `#[test]` functions. Each test is one
//! HISTORY: 18-30 operations issued through `abi(Gen, CONTRACT_ID)` in one transaction
//! (forc-test deploys the contract and starts every test from the initial storage). After every
//! write a sweep reads a rotating subset of all OTHER fields / keys; at the end everything the
//! model knows is read back. Every ABI method logs `(seq, result)`; the harness compares the
//! ordered logs with Rust models (Vec, BTreeMap, Vec<u8>). Histories whose last call is documented
//! to revert (set / insert / remove / swap_remove / swap out of bounds, `StorageKey::read` of an
//! absent map value) must revert exactly there; all others must not revert. Every package is built
//! and run with the real forc-test flow (`engine::run_unit_tests`) in release and in debug.
//!
//! The oracle never derives a slot address; interference is decided from reads only.
//!
//! Compiler limits that shaped the generated code (none of them is C28's business):
//! * a program's data section is limited to 4096 words and every contract-call site takes about
//!   two, so the tests call the ABI through one dispatcher function `d(id, method, seq, a, b, x)`
//!   (one call site per ABI method), and values / keys travel as small integer codes that the
//!   contract expands (`ex_u64`, `exk_b256`, ..) - the harness mirrors the expansion;
//! * `x.clear()` on a StorageBytes/StorageString resolves to the inherent `StorageKey::clear`; the
//!   documented `StorableSlice::clear` is reached through a generic helper (`tclear`).

use crate::common::*;
use crate::engine::{self, Outcome, Profile, UnitTestOutcome};
use crate::{Plan, Prop};
use serde_json::{json, Value};
use std::panic::AssertUnwindSafe;
use std::path::Path;

#[path = "c28_gen.rs"]
mod gen;
use gen::{Expect, History};

pub static META: PropertyMeta = PropertyMeta {
    id: "C28",
    level: "exploration",
    rule: "one evaluation = one history (a #[test] of 18-30 operations, 70% writes concentrated on 2-4 'hot' fields, each write followed by an interference sweep of 2-3 reads of other fields/keys, plus a final read-back of everything; or a short history ending in a call documented to revert) executed in the VM by forc-test in one build profile and compared log by log with the Rust model; non-trivial = the history writes >= 2 different fields/keys and contains >= 1 interference (sweep) read, and all its logs were compared; distinct = hash of the test body; counters are per execution (every history runs in debug and in release)",
    assumptions: &[
        "the canonical ABI encoding of the logged values (u64, u8, bool, b256, structs, Vec, Bytes, String) is as decoded by the harness (checked by the reads that do match)",
        "default storage implementation (experimental dynamic_storage = false), which is what forc builds by default",
        "where the documentation leaves a result open the oracle accepts every documented possibility: read_slice of an empty slice may be None or Some(empty); the flag returned by clear() is only checked when non-empty content was stored",
    ],
    floor_evaluations: 100,
    floor_nontrivial: 40,
    required_counters: &[
        "class_vec_ops",
        "class_map_ops",
        "class_bytes_ops",
        "class_string_ops",
        "class_canary_ops",
        "nested_vec_ops",
        "sweep_reads_compared",
        "final_reads_compared",
        "reads_compared",
        "expected_reverts_seen",
        "slice_len_boundary",
        "profile_release_histories",
    ],
};

pub static PROP: Prop = Prop {
    meta: &META,
    plan: |t| Plan { nshards: 16, budget_s: t.pick(22.0, 1000.0), mem_gib: 8 },
    shard,
    replay,
    extra: crate::no_extra,
    subcommand,
};

const HIST_PER_PKG: usize = 28;
/// release first: it builds several times faster than debug, so a slow machine still observes something
const ORDER: [Profile; 2] = [Profile::Release, Profile::Debug];

/// Result of comparing one executed test with its history.
enum Cmp {
    Ok { compared: usize },
    Violation { sig: String, desc: String },
    Inconclusive(String),
}

fn describe(e: &Expect) -> String {
    format!("{} [{} {} {}]", e.call, e.coll, e.op, e.phase)
}

fn compare(expect: &[Expect], revert: Option<&Expect>, t: &UnitTestOutcome) -> Cmp {
    if let Outcome::Panic(p) = &t.outcome {
        if p.contains("OutOfGas") {
            return Cmp::Inconclusive(format!("test {} ran out of gas", t.name));
        }
    }
    if let Outcome::VmError(e) = &t.outcome {
        return Cmp::Inconclusive(format!("test {}: VM refused the transaction: {e}", t.name));
    }
    let logs: Vec<&Vec<u8>> = t.logs.iter().map(|(_, _, d)| d).collect();
    // 1. ordered comparison of everything that was logged
    for (i, l) in logs.iter().enumerate() {
        let Some(e) = expect.get(i) else {
            // one log beyond the expected ones
            if let (Some(r), true) = (revert, i == expect.len()) {
                if l.len() >= 8 && l[..8] == r.seq.to_be_bytes() {
                    return Cmp::Violation {
                        sig: format!("missing-revert:{}:{}", r.coll, r.op),
                        desc: format!("{} is documented to revert but completed (logged {})", describe(r), hex::encode(l)),
                    };
                }
            }
            return Cmp::Violation { sig: "unexpected-log".into(), desc: format!("log #{i} {} beyond the {} expected logs", hex::encode(l), expect.len()) };
        };
        if l.len() < 8 || l[..8] != e.seq.to_be_bytes() {
            return Cmp::Violation {
                sig: format!("log-out-of-sequence:{}:{}", e.coll, e.op),
                desc: format!("log #{i} is {} but the next expected log belongs to call {} {}", hex::encode(l), e.seq, describe(e)),
            };
        }
        let got = hex::encode(&l[8..]);
        if !e.any && !e.accept.iter().any(|a| *a == got) {
            return Cmp::Violation {
                sig: format!("read-mismatch:{}:{}:{}", e.coll, e.op, e.phase),
                desc: format!("{} returned {} but the model predicts {}", describe(e), got, e.accept.join(" or ")),
            };
        }
    }
    // 2. termination
    let reverted = t.outcome.reverted();
    match (revert, reverted) {
        (None, false) => {
            if logs.len() < expect.len() {
                let e = &expect[logs.len()];
                return Cmp::Violation { sig: format!("missing-log:{}:{}", e.coll, e.op), desc: format!("test returned but {} logged nothing", describe(e)) };
            }
            Cmp::Ok { compared: logs.len() }
        }
        (None, true) => {
            let at = expect.get(logs.len()).map(describe).unwrap_or_else(|| "after the last call".into());
            let (c, o, ph) = expect.get(logs.len()).map(|e| (e.coll.clone(), e.op.clone(), e.phase.clone())).unwrap_or_default();
            Cmp::Violation { sig: format!("unexpected-revert:{c}:{o}:{ph}"), desc: format!("{:?} in {at}, which is not documented to revert here", t.outcome) }
        }
        (Some(r), true) => {
            if logs.len() < expect.len() {
                let e = &expect[logs.len()];
                return Cmp::Violation {
                    sig: format!("unexpected-revert:{}:{}:{}", e.coll, e.op, e.phase),
                    desc: format!("{:?} in {}, before the call that is documented to revert ({})", t.outcome, describe(e), describe(r)),
                };
            }
            Cmp::Ok { compared: logs.len() }
        }
        (Some(r), false) => Cmp::Violation { sig: format!("missing-revert:{}:{}", r.coll, r.op), desc: format!("{} is documented to revert but the test returned", describe(r)) },
    }
}

fn replay_value(src: &str, h: &History, profile: Profile) -> Value {
    json!({
        "source": src,
        "test": h.name,
        "profile": profile.name(),
        "expect": h.expect,
        "revert": h.revert,
    })
}

fn note_stats(h: &History, profile: Profile, compared: usize, res: &mut ShardResult) {
    let s = &h.stats;
    for (class, coll, op, phase) in &s.ops {
        res.count(&format!("class_{class}_ops"));
        res.count(&format!("ops_{coll}_{op}"));
        if coll.starts_with("nested_vec") {
            res.count("nested_vec_ops");
        }
        if coll.starts_with("nested_bytes") || coll.starts_with("nested_string") {
            res.count("nested_slice_ops");
        }
        match phase.as_str() {
            "sweep" => res.count("sweep_reads_compared"),
            "final" => res.count("final_reads_compared"),
            _ => {}
        }
    }
    res.add("reads_compared", compared as u64);
    res.add("interference_sweeps", s.sweeps);
    res.add("reads_of_absent_values", s.none_reads);
    res.add("fields_written_total", s.fields_touched.len() as u64);
    res.add("keys_written_total", s.keys_touched.len() as u64);
    res.max("max_fields_written_per_history", s.fields_touched.len() as u64);
    res.max("max_keys_written_per_history", s.keys_touched.len() as u64);
    res.max("max_write_points_per_history", s.write_points.len() as u64);
    res.max("max_vec_len", s.max_vec_len);
    res.max("max_calls_per_history", h.expect.len() as u64);
    for n in &s.slice_lens {
        if gen::BOUNDARY_LENS.contains(n) {
            res.count("slice_len_boundary");
            res.count(&format!("slice_len_{n:02}"));
        } else {
            res.count("slice_len_other");
        }
        res.max("max_slice_len", *n);
    }
    res.count(&format!("profile_{}_histories", profile.name()));
    if h.revert.is_some() {
        res.count("expected_reverts_seen");
        if let Some(r) = &h.revert {
            res.count(&format!("expected_revert_{}_{}", r.coll.split('_').next().unwrap_or(""), r.op));
        }
    } else {
        res.count("histories_completed");
    }
}

/// Build + run one package in one profile and compare every history.
fn run_package(dir: &Path, src: &str, histories: &[History], profile: Profile, res: &mut ShardResult) {
    let out = catch(AssertUnwindSafe(|| engine::run_unit_tests(dir, profile, 2, None)));
    let run = match out {
        Ok(Ok(r)) => r,
        Ok(Err(e)) => {
            res.count("package_build_or_run_failed");
            // forc reports "Failed to compile" only; fetch the first diagnostics for the note
            let mut diag = String::new();
            let mut am = engine::Amortised::new(&dir.join("diag"));
            if let Ok(Ok((errs, _))) = catch(AssertUnwindSafe(|| am.diagnose_dir(dir, profile))) {
                diag = errs.iter().take(3).map(|e| format!("{e} @ {:?}", sway_types::Spanned::span(e).as_str().chars().take(80).collect::<String>())).collect::<Vec<_>>().join(" | ");
            }
            res.inconclusive(format!("package {} ({}) did not build/run: {} {}", dir.display(), profile.name(), format!("{e:#}").chars().take(400).collect::<String>(), diag));
            return;
        }
        Err((loc, msg)) => {
            res.count("package_build_panicked");
            res.inconclusive(format!("forc-test panicked on package {} ({}): {msg} at {loc}", dir.display(), profile.name()));
            return;
        }
    };
    res.count(&format!("packages_run_{}", profile.name()));
    for h in histories {
        let Some(t) = run.tests.iter().find(|t| t.name == h.name) else {
            res.inconclusive(format!("test {} missing from the forc-test result of {}", h.name, dir.display()));
            continue;
        };
        res.evaluations += 1;
        res.max("max_gas_used", t.gas_used);
        match compare(&h.expect, h.revert.as_ref(), t) {
            Cmp::Ok { compared } => {
                note_stats(h, profile, compared, res);
                if h.stats.write_points.len() >= 2 && h.stats.sweep_reads >= 1 {
                    res.note_nontrivial(hash64(h.body.as_bytes()));
                }
                if res.samples.len() < 2 && h.revert.is_none() {
                    res.sample(json!({"profile": profile.name(), "test": h.body, "logs_compared": compared, "gas": t.gas_used}));
                }
            }
            Cmp::Violation { sig, desc } => {
                res.violation(format!("C28:{sig}"), format!("{} ({}): {desc}", h.name, profile.name()), replay_value(src, h, profile));
            }
            Cmp::Inconclusive(n) => res.inconclusive(n),
        }
    }
}

fn shard(ctx: &ShardCtx) -> ShardResult {
    let mut res = ShardResult::default();
    // case index = 2 * package index + profile, so that the per-case watchdog can give up on one
    // build and the shard resumes with the next one
    let mut pkg_index = ctx.first_index / 2;
    // The first forc build of a process is several times slower than the following ones (std is
    // compiled from scratch); do it on a trivial contract outside the per-case watchdog so that
    // the watchdog only ever times the generated packages.
    let wdir = ctx.work().join("warmup");
    let warm = "contract;\n\nabi W {\n    fn w() -> u64;\n}\n\nimpl W for Contract {\n    fn w() -> u64 {\n        7u64\n    }\n}\n\n#[test]\nfn t_w() {\n    let c = abi(W, CONTRACT_ID);\n    assert(c.w() == 7u64);\n}\n";
    let t0 = std::time::Instant::now();
    match engine::write_pkg(&wdir, "c28warm", warm, true).and_then(|_| engine::run_unit_tests(&wdir, Profile::Release, 1, None)) {
        Ok(run) if run.tests.iter().all(|t| t.passed) => res.max("max_warmup_ms", t0.elapsed().as_millis() as u64),
        Ok(_) => {
            res.harness_fault = Some("the warm-up contract's own test failed: the forc-test flow does not work".into());
            return res;
        }
        Err(e) => {
            res.harness_fault = Some(format!("the warm-up contract does not build: {e:#}"));
            return res;
        }
    }
    let _ = std::fs::remove_dir_all(&wdir);
    let mut first = true;
    while first || ctx.time_left() {
        first = false;
        let mut rng = ctx.rng(pkg_index);
        let pkg = gen::gen_package(&mut rng, HIST_PER_PKG);
        let dir = ctx.work().join(format!("p{pkg_index}"));
        if let Err(e) = engine::write_pkg(&dir, "c28gen", &pkg.src, true) {
            res.harness_fault = Some(format!("cannot write package: {e}"));
            return res;
        }
        for (k, profile) in ORDER.into_iter().enumerate() {
            let case = pkg_index * 2 + k as u64;
            if case < ctx.first_index {
                continue;
            }
            journal_current(ctx, &format!("package {} profile {}", dir.display(), profile.name()));
            ctx.begin_case(case, &format!("// profile {}\n{}", profile.name(), pkg.src), &res);
            run_package(&dir, &pkg.src, &pkg.histories, profile, &mut res);
            ctx.end_case();
        }
        let _ = std::fs::remove_dir_all(&dir);
        pkg_index += 1;
    }
    res
}

fn replay(case: &Value) -> ShardResult {
    let mut res = ShardResult::default();
    let (Some(src), Some(test)) = (case["source"].as_str(), case["test"].as_str()) else {
        res.harness_fault = Some("replay file has no source/test".into());
        return res;
    };
    let profile = if case["profile"].as_str() == Some("release") { Profile::Release } else { Profile::Debug };
    let expect: Vec<Expect> = serde_json::from_value(case["expect"].clone()).unwrap_or_default();
    let revert: Option<Expect> = serde_json::from_value(case["revert"].clone()).unwrap_or(None);
    let dir = work_dir("C28").join("replay");
    clean_dir(&dir);
    if let Err(e) = engine::write_pkg(&dir, "c28gen", src, true) {
        res.harness_fault = Some(format!("cannot write package: {e}"));
        return res;
    }
    match engine::run_unit_tests(&dir, profile, 1, Some((test, true))) {
        Ok(run) => match run.tests.iter().find(|t| t.name == test) {
            Some(t) => {
                res.evaluations += 1;
                match compare(&expect, revert.as_ref(), t) {
                    Cmp::Ok { compared } => res.add("reads_compared", compared as u64),
                    Cmp::Violation { sig, desc } => res.violation(format!("C28:{sig}"), format!("{test} ({}): {desc}", profile.name()), case.clone()),
                    Cmp::Inconclusive(n) => res.inconclusive(n),
                }
            }
            None => res.harness_fault = Some(format!("test {test} not found in the package")),
        },
        Err(e) => res.harness_fault = Some(format!("package does not build/run: {e:#}")),
    }
    res
}

/// `swverif c28probe <dir> [logs]`: run the unit tests of a hand-written package in both profiles.
/// `swverif c28gen <seed> <shard> <pkg_index> <dir>`: write the generated package for inspection.
/// `swverif c28selftest`: oracle self test on synthetic observations.
fn subcommand(args: &[String]) -> Option<i32> {
    match args.first().map(|s| s.as_str()) {
        Some("c28probe") => {
            let dir = std::path::PathBuf::from(&args[1]);
            for p in Profile::BOTH {
                let t0 = std::time::Instant::now();
                match engine::run_unit_tests(&dir, p, 1, None) {
                    Ok(run) => {
                        println!("== {} built+ran in {:.2}s, {} tests", p.name(), t0.elapsed().as_secs_f64(), run.tests.len());
                        for t in &run.tests {
                            println!("  {} passed={} outcome={:?} gas={} logs={}", t.name, t.passed, t.outcome, t.gas_used, t.logs.len());
                            if args.len() > 2 {
                                for (id, rb, d) in &t.logs {
                                    println!("      {} {rb} {}", &id[..4], hex::encode(d));
                                }
                            }
                        }
                    }
                    Err(e) => println!("== {} error: {e:#}", p.name()),
                }
            }
            Some(0)
        }
        Some("c28gen") => {
            let seed: u64 = args[1].parse().unwrap_or(1);
            let shard: u64 = args[2].parse().unwrap_or(0);
            let idx: u64 = args[3].parse().unwrap_or(0);
            let mut rng = rng_for(seed, shard, idx);
            let nh = std::env::var("C28_HIST").ok().and_then(|s| s.parse().ok()).unwrap_or(HIST_PER_PKG);
            let pkg = gen::gen_package(&mut rng, nh);
            let dir = std::path::PathBuf::from(&args[4]);
            engine::write_pkg(&dir, "c28gen", &pkg.src, true).expect("write");
            let calls: usize = pkg.histories.iter().map(|h| h.expect.len()).sum();
            println!("{} fields, {} histories, {} calls, {} source lines", pkg.schema.fields.len(), pkg.histories.len(), calls, pkg.src.lines().count());
            let mut res = ShardResult::default();
            for p in ORDER {
                let t0 = std::time::Instant::now();
                run_package(&dir, &pkg.src, &pkg.histories, p, &mut res);
                println!("{}: {:.1}s evaluations={} violations={} inconclusive={:?}", p.name(), t0.elapsed().as_secs_f64(), res.evaluations, res.violations.len(), res.inconclusive_notes);
            }
            for v in &res.violations {
                println!("VIOLATION {} :: {}", v.signature, v.description);
            }
            println!("{}", serde_json::to_string(&res.counters).unwrap());
            Some(0)
        }
        Some("c28selftest") => Some(selftest()),
        _ => None,
    }
}

/// Synthetic bad observations: the comparison must flag each of them.
fn selftest() -> i32 {
    let e = |seq: u64, payload: &[u8], op: &str| Expect { seq, accept: vec![hex::encode(payload)], any: false, coll: "vec_u64".into(), op: op.into(), phase: "op".into(), call: format!("c.f_{op}({seq}u64)") };
    let log = |seq: u64, payload: &[u8]| {
        let mut d = seq.to_be_bytes().to_vec();
        d.extend_from_slice(payload);
        (String::new(), 0u64, d)
    };
    let t = |outcome: Outcome, logs: Vec<(String, u64, Vec<u8>)>| UnitTestOutcome { name: "t".into(), passed: true, outcome, logs, gas_used: 0 };
    let expect = vec![e(1, &[], "push"), e(2, &[0, 0, 0, 0, 0, 0, 0, 5], "len")];
    let rev = e(3, &[], "remove");
    let mut bad = 0;
    let mut check = |name: &str, c: Cmp, want: &str| {
        let got = match &c {
            Cmp::Ok { .. } => "ok".to_string(),
            Cmp::Violation { sig, .. } => sig.clone(),
            Cmp::Inconclusive(_) => "inconclusive".to_string(),
        };
        let ok = got.starts_with(want);
        println!("{} {name}: {got}", if ok { "ok  " } else { "FAIL" });
        if !ok {
            bad += 1;
        }
    };
    check("good", compare(&expect, None, &t(Outcome::Return(0), vec![log(1, &[]), log(2, &[0, 0, 0, 0, 0, 0, 0, 5])])), "ok");
    check("wrong value", compare(&expect, None, &t(Outcome::Return(0), vec![log(1, &[]), log(2, &[0, 0, 0, 0, 0, 0, 0, 6])])), "read-mismatch");
    check("missing log", compare(&expect, None, &t(Outcome::Return(0), vec![log(1, &[])])), "missing-log");
    check("out of sequence", compare(&expect, None, &t(Outcome::Return(0), vec![log(2, &[0, 0, 0, 0, 0, 0, 0, 5])])), "log-out-of-sequence");
    check("unexpected revert", compare(&expect, None, &t(Outcome::Revert(1), vec![log(1, &[])])), "unexpected-revert");
    check("extra log", compare(&expect, None, &t(Outcome::Return(0), vec![log(1, &[]), log(2, &[0, 0, 0, 0, 0, 0, 0, 5]), log(9, &[])])), "unexpected-log");
    check("good revert", compare(&expect, Some(&rev), &t(Outcome::Revert(1), vec![log(1, &[]), log(2, &[0, 0, 0, 0, 0, 0, 0, 5])])), "ok");
    check("missing revert", compare(&expect, Some(&rev), &t(Outcome::Return(0), vec![log(1, &[]), log(2, &[0, 0, 0, 0, 0, 0, 0, 5]), log(3, &[])])), "missing-revert");
    check("early revert", compare(&expect, Some(&rev), &t(Outcome::Revert(1), vec![log(1, &[])])), "unexpected-revert");
    check("out of gas", compare(&expect, None, &t(Outcome::Panic("OutOfGas".into()), vec![log(1, &[])])), "inconclusive");
    bad
}
