//! C23: LSP document sync reproduces the client's text.
//!
//! Monitor: random edit histories are applied to the real sway-lsp document store through three
//! drivers, and after every change (batch) the server's copy is compared with a client model:
//!   direct     `TextDocument::build_from_path` + `TextDocument::apply_change`
//!   documents  `Documents::handle_open_file` + `Documents::write_changes_to_file`
//!              (the file on disk is part of the comparison)
//!   server     `ServerState` + `handle_did_open_text_document` / `handle_did_change_text_document`
//!              on a real workspace (in-memory copy and the file in the server's workspace clone)
//! Client model: a `Vec<u16>` editor that applies `TextDocumentContentChangeEvent`s as the LSP
//! specification defines them: `character` counts UTF-16 code units, lines end at `\n`, `\r\n`
//! (and a lone `\r`, which is never generated).
//!
//! What is generated (and nothing else, so the oracle never demands more than the statement):
//!   * valid ranges: both positions on existing lines, `character` <= line length, never inside a
//!     surrogate pair, never between `\r` and `\n`, start <= end;
//!   * invalid ranges that must be rejected (Err) without altering memory or disk:
//!     start after end (both positions valid), or an end position on a line >= (number of
//!     lines + 1) with `character` >= 1;
//!   * "eof-tolerant" ranges: positions (line >= number of lines, character 0). The protocol does
//!     not settle them (reference clients clamp to the end of the document); either a rejection
//!     that leaves the text alone or acceptance as end-of-document is fine.
//!
//! Known defect class (DESIGN section 6): `position_to_index` adds the UTF-16 `character` to a byte
//! offset. A failure is given the class signature `utf16-column-treated-as-byte-offset:*` ONLY when
//! a second model that deliberately mimics exactly that bug (column counted in bytes, everything
//! else per the specification) reproduces the server's outcome (same wrong text / same rejection /
//! panic on a non-boundary) where the correct model differs. Every other mismatch keeps its own
//! signature and is a violation.
use crate::common::*;
use crate::{Plan, Prop};
use lsp_types::{DidChangeTextDocumentParams, DidOpenTextDocumentParams, Position, Range, TextDocumentContentChangeEvent, TextDocumentItem, Url, VersionedTextDocumentIdentifier};
use rand::rngs::StdRng;
use rand::Rng;
use serde_json::{json, Value};
use std::panic::AssertUnwindSafe;
use std::path::{Path, PathBuf};
use std::time::Duration;
use sway_lsp::core::document::{Documents, TextDocument};
use sway_lsp::handlers::notification;
use sway_lsp::server_state::ServerState;

pub static META: PropertyMeta = PropertyMeta {
    id: "C23",
    level: "exploration",
    rule: "random histories of 1..30 full / incremental changes (sent one by one or in batches of up to 3) over documents of 0..12 lines mixing ASCII, 2/3-byte and astral characters with LF / CRLF / mixed line endings; positions in UTF-16 code units on valid boundaries, plus invalid ranges (start after end; end line beyond the last line + 1). Non-trivial = the history applied at least 3 incremental changes; distinct = hash of (driver, initial text, changes)",
    assumptions: &[
        "positions past the end of a line, inside a surrogate pair or between CR and LF are not generated",
        "documents never contain a lone CR",
        "tokio, dashmap and the file system are trusted",
    ],
    floor_evaluations: 200,
    floor_nontrivial: 100,
    required_counters: &[
        "changes_applied", "changes_incremental", "changes_full", "invalid_ranges_rejected", "text_comparisons", "disk_comparisons", "histories_ascii_only", "histories_non_ascii", "histories_astral", "histories_crlf", "histories_direct", "histories_documents", "histories_server",
    ],
};

pub static PROP: Prop = Prop {
    meta: &META,
    plan: |t| Plan { nshards: t.pick(8, 16), budget_s: t.pick(15.0, 300.0), mem_gib: 6 },
    shard,
    replay,
    extra: crate::no_extra,
    subcommand: crate::no_subcommand,
};

// ------------------------------------------------------------------------------------------
// Client model (UTF-16)

#[derive(Clone, Debug, PartialEq, Eq)]
struct Model {
    u: Vec<u16>,
}

fn is_high(x: u16) -> bool {
    (0xD800..0xDC00).contains(&x)
}
fn is_low(x: u16) -> bool {
    (0xDC00..0xE000).contains(&x)
}

impl Model {
    fn new(s: &str) -> Model {
        Model { u: s.encode_utf16().collect() }
    }
    fn text(&self) -> String {
        String::from_utf16(&self.u).expect("model never splits a surrogate pair")
    }
    /// (start of line, end of its content excluding the terminator), per the LSP definition of a
    /// line: terminated by `\n`, `\r\n` or `\r`.
    fn lines(&self) -> Vec<(usize, usize)> {
        let u = &self.u;
        let mut out = vec![];
        let mut start = 0;
        let mut i = 0;
        while i < u.len() {
            if u[i] == 0x0A {
                out.push((start, i));
                i += 1;
                start = i;
            } else if u[i] == 0x0D {
                out.push((start, i));
                i += if i + 1 < u.len() && u[i + 1] == 0x0A { 2 } else { 1 };
                start = i;
            } else {
                i += 1;
            }
        }
        out.push((start, u.len()));
        out
    }
    /// offsets at which a position may point: not inside a surrogate pair, not between CR and LF
    fn boundary(&self, off: usize) -> bool {
        if off > self.u.len() {
            return false;
        }
        if off == 0 || off == self.u.len() {
            return true;
        }
        if is_high(self.u[off - 1]) && is_low(self.u[off]) {
            return false;
        }
        if self.u[off - 1] == 0x0D && self.u[off] == 0x0A {
            return false;
        }
        true
    }
    /// strict conversion: the line exists, the column is within the line's content and on a boundary
    fn offset(&self, lines: &[(usize, usize)], p: Position) -> Option<usize> {
        let (s, e) = *lines.get(p.line as usize)?;
        let off = s.checked_add(p.character as usize)?;
        if off > e || !self.boundary(off) {
            return None;
        }
        Some(off)
    }
    fn position(&self, lines: &[(usize, usize)], off: usize) -> Position {
        // the last line whose start is <= off
        let mut li = 0;
        for (i, (s, _)) in lines.iter().enumerate() {
            if *s <= off {
                li = i;
            } else {
                break;
            }
        }
        Position::new(li as u32, (off - lines[li].0) as u32)
    }
    fn splice(&mut self, s: usize, e: usize, text: &str) {
        self.u.splice(s..e, text.encode_utf16());
    }
}

#[derive(Clone, Copy, Debug, PartialEq, Eq)]
enum Class {
    Full,
    Valid(usize, usize),
    /// must be rejected: start after end
    InvalidOrder,
    /// must be rejected: end position on a line beyond the last line + 1 with a non-zero column
    InvalidLine,
    /// (line >= number of lines, column 0) positions: reject or treat as end of document
    EofTolerant(usize, usize),
    /// outside of what this monitor makes claims about (never generated)
    Unspecified,
}

fn classify(m: &Model, ch: &TextDocumentContentChangeEvent) -> Class {
    let Some(r) = ch.range else { return Class::Full };
    let lines = m.lines();
    let nlines = lines.len() as u32;
    let (s, e) = (m.offset(&lines, r.start), m.offset(&lines, r.end));
    if let (Some(s), Some(e)) = (s, e) {
        return if s <= e { Class::Valid(s, e) } else { Class::InvalidOrder };
    }
    let lex_le = (r.start.line, r.start.character) <= (r.end.line, r.end.character);
    let beyond0 = |p: Position| p.line >= nlines && p.character == 0;
    if r.end.line >= nlines + 1 && r.end.character >= 1 && lex_le && (s.is_some() || r.start.line >= nlines) {
        return Class::InvalidLine;
    }
    let map = |p: Position, strict: Option<usize>| -> Option<usize> {
        if let Some(o) = strict {
            Some(o)
        } else if beyond0(p) {
            Some(m.u.len())
        } else {
            None
        }
    };
    if let (Some(a), Some(b)) = (map(r.start, s), map(r.end, e)) {
        if a <= b && lex_le {
            return Class::EofTolerant(a, b);
        }
    }
    Class::Unspecified
}

// ------------------------------------------------------------------------------------------
// The model that mimics the known bug: UTF-16 column used as a byte offset

#[derive(Clone, Debug, PartialEq, Eq)]
enum Outcome {
    Text(String),
    /// Err returned; the server's in-memory text at that point
    Rejected(String),
    Panic,
}

fn mimic_apply(t: &str, ch: &TextDocumentContentChangeEvent) -> Outcome {
    let Some(r) = ch.range else { return Outcome::Text(ch.text.clone()) };
    let mut offs = vec![0usize];
    for (i, b) in t.bytes().enumerate() {
        if b == b'\n' {
            offs.push(i + 1);
        }
    }
    let idx = |p: Position| offs.get(p.line as usize).copied().unwrap_or(t.len()).saturating_add(p.character as usize);
    let (s, e) = (idx(r.start), idx(r.end));
    if s > e || e > t.len() {
        return Outcome::Rejected(t.to_string());
    }
    if !t.is_char_boundary(s) || !t.is_char_boundary(e) {
        return Outcome::Panic;
    }
    let mut out = t.to_string();
    out.replace_range(s..e, &ch.text);
    Outcome::Text(out)
}

fn mimic_batch(t: &str, batch: &[TextDocumentContentChangeEvent]) -> Outcome {
    let mut cur = t.to_string();
    for ch in batch {
        match mimic_apply(&cur, ch) {
            Outcome::Text(n) => cur = n,
            Outcome::Rejected(_) => return Outcome::Rejected(cur),
            Outcome::Panic => return Outcome::Panic,
        }
    }
    Outcome::Text(cur)
}

// ------------------------------------------------------------------------------------------
// Generation

#[derive(Clone, Copy, Debug)]
struct Flavour {
    multibyte: bool,
    astral: bool,
    /// 0 = LF, 1 = CRLF, 2 = mixed
    eol: u8,
}

const ASCII_POOL: &[u8] = b"abcdefghijklmnopqrstuvwxyzABCXYZ0123456789 _(){}[];:=+-*/<>.,\"'#\t";
const BMP_POOL: &[char] = &['é', 'ß', 'ñ', 'Ω', 'ж', '\u{7ff}', '\u{800}', '中', '文', '€', '\u{2028}', '\u{FEFF}', '\u{0301}', '\u{FFFD}', '\u{FFFF}', '\u{E000}', '\u{D7FF}', '\u{A0}', '\u{85}'];
const ASTRAL_POOL: &[char] = &['😀', '𝔘', '\u{10000}', '\u{10FFFF}', '🦀', '𐍈', '\u{1F1E9}', '\u{E0101}'];

fn gen_char(rng: &mut StdRng, f: Flavour) -> char {
    let r = rng.gen_range(0..100);
    if f.astral && r < 15 {
        ASTRAL_POOL[rng.gen_range(0..ASTRAL_POOL.len())]
    } else if f.multibyte && r < 40 {
        BMP_POOL[rng.gen_range(0..BMP_POOL.len())]
    } else {
        ASCII_POOL[rng.gen_range(0..ASCII_POOL.len())] as char
    }
}

fn gen_eol(rng: &mut StdRng, f: Flavour) -> &'static str {
    match f.eol {
        0 => "\n",
        1 => "\r\n",
        _ => {
            if rng.gen_bool(0.5) {
                "\n"
            } else {
                "\r\n"
            }
        }
    }
}

fn gen_text(rng: &mut StdRng, f: Flavour, max_lines: usize, max_cols: usize) -> String {
    let mut s = String::new();
    let nlines = rng.gen_range(0..=max_lines);
    for i in 0..nlines {
        let n = if rng.gen_bool(0.15) { 0 } else { rng.gen_range(0..=max_cols) };
        for _ in 0..n {
            s.push(gen_char(rng, f));
        }
        // the last line may or may not be terminated
        if i + 1 < nlines || rng.gen_bool(0.5) {
            s.push_str(gen_eol(rng, f));
        }
    }
    s
}

fn gen_flavour(rng: &mut StdRng) -> Flavour {
    let (multibyte, astral) = match rng.gen_range(0..100) {
        0..=39 => (false, false),
        40..=59 => (true, false),
        60..=74 => (false, true),
        _ => (true, true),
    };
    let eol = match rng.gen_range(0..100) {
        0..=49 => 0,
        50..=74 => 1,
        _ => 2,
    };
    Flavour { multibyte, astral, eol }
}

fn boundaries(m: &Model) -> Vec<usize> {
    (0..=m.u.len()).filter(|&o| m.boundary(o)).collect()
}

/// One change against the current model state. Returns (change, intended kind label).
fn gen_change(rng: &mut StdRng, m: &Model, f: Flavour) -> (TextDocumentContentChangeEvent, &'static str) {
    let lines = m.lines();
    let nlines = lines.len() as u32;
    let r = rng.gen_range(0..100);
    let ins = |rng: &mut StdRng| -> String {
        match rng.gen_range(0..10) {
            0..=1 => String::new(),
            2..=4 => gen_char(rng, f).to_string(),
            5..=7 => {
                let n = rng.gen_range(1..=8);
                (0..n).map(|_| gen_char(rng, f)).collect()
            }
            8 => gen_eol(rng, f).to_string(),
            _ => gen_text(rng, f, 3, 8),
        }
    };
    if r < 10 {
        let text = gen_text(rng, f, 8, 16);
        return (TextDocumentContentChangeEvent { range: None, range_length: None, text }, "full");
    }
    let bs = boundaries(m);
    let pick_pair = |rng: &mut StdRng| -> (usize, usize) {
        let a = bs[rng.gen_range(0..bs.len())];
        let b = match rng.gen_range(0..10) {
            0..=2 => a,
            3..=6 => {
                // close by
                let i = bs.iter().position(|&x| x == a).unwrap();
                bs[(i + rng.gen_range(0..=4)).min(bs.len() - 1)]
            }
            _ => bs[rng.gen_range(0..bs.len())],
        };
        (a.min(b), a.max(b))
    };
    if r < 85 {
        let (a, b) = match rng.gen_range(0..12) {
            0 => (m.u.len(), m.u.len()),
            1 => (0, 0),
            2 => (0, m.u.len()),
            _ => pick_pair(rng),
        };
        let range = Range::new(m.position(&lines, a), m.position(&lines, b));
        let range_length = match rng.gen_range(0..4) {
            0 => Some((b - a) as u32),
            1 => Some(rng.gen_range(0..1000)),
            _ => None,
        };
        return (TextDocumentContentChangeEvent { range: Some(range), range_length, text: ins(rng) }, "valid");
    }
    if r < 92 {
        // start after end: needs two distinct boundaries
        if bs.len() >= 2 {
            let i = rng.gen_range(0..bs.len() - 1);
            let j = rng.gen_range(i + 1..bs.len());
            let range = Range::new(m.position(&lines, bs[j]), m.position(&lines, bs[i]));
            return (TextDocumentContentChangeEvent { range: Some(range), range_length: None, text: ins(rng) }, "invalid-order");
        }
    }
    if r < 97 {
        // end on a line beyond the last line + 1, non-zero column
        let eline = nlines + 1 + rng.gen_range(0..3) * rng.gen_range(0..50);
        let end = Position::new(eline, rng.gen_range(1..=20));
        let start = match rng.gen_range(0..3) {
            0 => m.position(&lines, bs[rng.gen_range(0..bs.len())]),
            1 => Position::new(eline, rng.gen_range(0..=end.character)),
            _ => Position::new(rng.gen_range(nlines..=eline), 0),
        };
        return (TextDocumentContentChangeEvent { range: Some(Range::new(start, end)), range_length: None, text: ins(rng) }, "invalid-line");
    }
    // eof-tolerant
    let eline = nlines + rng.gen_range(0..3);
    let end = Position::new(eline, 0);
    let start = if rng.gen_bool(0.5) { m.position(&lines, bs[rng.gen_range(0..bs.len())]) } else { Position::new(rng.gen_range(nlines..=eline), 0) };
    (TextDocumentContentChangeEvent { range: Some(Range::new(start, end)), range_length: None, text: ins(rng) }, "eof-tolerant")
}

#[derive(Clone, Debug)]
struct History {
    driver: &'static str,
    initial: String,
    batches: Vec<Vec<TextDocumentContentChangeEvent>>,
}

/// Pure function of the rng. Generation tracks the *correct* model, so positions are always valid
/// for the state the client believes in.
fn gen_history(rng: &mut StdRng, driver: &'static str) -> History {
    let f = gen_flavour(rng);
    let initial = gen_text(rng, f, 12, 20);
    let mut m = Model::new(&initial);
    let n = match rng.gen_range(0..10) {
        0 => rng.gen_range(1..=3),
        1..=6 => rng.gen_range(3..=12),
        _ => rng.gen_range(10..=30),
    };
    let mut batches = vec![];
    let mut left = n;
    while left > 0 {
        let want = if driver == "direct" || rng.gen_bool(0.6) { 1 } else { rng.gen_range(2..=3usize) }.min(left);
        let mut batch = vec![];
        for _ in 0..want {
            let (ch, kind) = gen_change(rng, &m, f);
            match classify(&m, &ch) {
                Class::Full => m = Model::new(&ch.text),
                Class::Valid(s, e) => m.splice(s, e, &ch.text),
                c => {
                    // changes that are not plainly valid travel alone
                    let _ = kind;
                    if !batch.is_empty() {
                        batches.push(std::mem::take(&mut batch));
                    }
                    batches.push(vec![ch]);
                    left -= 1;
                    if let Class::EofTolerant(..) = c {
                        // the server may take it as end-of-document or refuse it: the client
                        // re-establishes an unambiguous state with a full-text change
                        let text = gen_text(rng, f, 8, 16);
                        m = Model::new(&text);
                        batches.push(vec![TextDocumentContentChangeEvent { range: None, range_length: None, text }]);
                    }
                    continue;
                }
            }
            batch.push(ch);
            left -= 1;
        }
        if !batch.is_empty() {
            batches.push(batch);
        }
    }
    History { driver, initial, batches }
}

fn change_json(c: &TextDocumentContentChangeEvent) -> Value {
    json!({
        "range": c.range.map(|r| vec![r.start.line, r.start.character, r.end.line, r.end.character]),
        "range_length": c.range_length,
        "text": c.text,
    })
}

fn history_json(h: &History) -> Value {
    json!({
        "driver": h.driver,
        "initial": h.initial,
        "batches": h.batches.iter().map(|b| b.iter().map(change_json).collect::<Vec<_>>()).collect::<Vec<_>>(),
    })
}

fn history_from_json(v: &Value) -> Option<History> {
    let driver = match v["driver"].as_str()? {
        "direct" => "direct",
        "documents" => "documents",
        "server" => "server",
        _ => return None,
    };
    let mut batches = vec![];
    for b in v["batches"].as_array()? {
        let mut batch = vec![];
        for c in b.as_array()? {
            let range = match &c["range"] {
                Value::Null => None,
                r => {
                    let a: Vec<u32> = serde_json::from_value(r.clone()).ok()?;
                    if a.len() != 4 {
                        return None;
                    }
                    Some(Range::new(Position::new(a[0], a[1]), Position::new(a[2], a[3])))
                }
            };
            batch.push(TextDocumentContentChangeEvent { range, range_length: c["range_length"].as_u64().map(|x| x as u32), text: c["text"].as_str()?.to_string() });
        }
        batches.push(batch);
    }
    Some(History { driver, initial: v["initial"].as_str()?.to_string(), batches })
}

// ------------------------------------------------------------------------------------------
// Drivers

/// What a driver reports after a batch.
struct Observed {
    /// Ok / Err(message) of the call
    result: Result<(), String>,
    /// the server's in-memory text
    memory: Option<String>,
    /// the file the server writes (documents / server drivers)
    disk: Option<PathBuf>,
}

trait Driver {
    fn name(&self) -> &'static str;
    /// (re)start with this document content. Err((true, ..)) = the failure is itself a violation of
    /// C23 (a full-text change was not taken over), Err((false, ..)) = the driver is unusable.
    fn open(&mut self, text: &str) -> Result<(), (bool, String)>;
    /// apply one batch; Err((loc,msg)) = panic
    fn change(&mut self, batch: &[TextDocumentContentChangeEvent]) -> Result<Observed, (String, String)>;
}

struct Direct {
    rt: tokio::runtime::Runtime,
    path: PathBuf,
    doc: Option<TextDocument>,
    opens: u64,
}

impl Driver for Direct {
    fn name(&self) -> &'static str {
        "direct"
    }
    fn open(&mut self, text: &str) -> Result<(), (bool, String)> {
        // building from a file costs a trip through tokio's blocking pool: done for every 50th
        // history, the others reuse the document and start with a full-text change
        self.opens += 1;
        if self.opens % 50 != 1 {
            if let Some(doc) = self.doc.as_mut() {
                let full = TextDocumentContentChangeEvent { range: None, range_length: None, text: text.to_string() };
                let r = catch(AssertUnwindSafe(|| doc.apply_change(&full).map_err(|e| e.to_string()))).map_err(|(l, m)| (true, format!("apply_change panicked on a full-text change: {m} at {l}")))?;
                r.map_err(|e| (true, format!("a full-text change was rejected: {e}")))?;
                if doc.get_text() != text {
                    return Err((true, format!("a full-text change to {} left {}", short(text), short(doc.get_text()))));
                }
                return Ok(());
            }
        }
        std::fs::write(&self.path, text).map_err(|e| (false, e.to_string()))?;
        let p = self.path.to_string_lossy().to_string();
        let d = catch(AssertUnwindSafe(|| self.rt.block_on(TextDocument::build_from_path(&p)))).map_err(|(l, m)| (false, format!("build_from_path panicked: {m} at {l}")))?;
        self.doc = Some(d.map_err(|e| (false, e.to_string()))?);
        Ok(())
    }
    fn change(&mut self, batch: &[TextDocumentContentChangeEvent]) -> Result<Observed, (String, String)> {
        let doc = self.doc.as_mut().expect("opened");
        let r = catch(AssertUnwindSafe(|| {
            for ch in batch {
                doc.apply_change(ch).map_err(|e| e.to_string())?;
            }
            Ok::<(), String>(())
        }))?;
        Ok(Observed { result: r, memory: Some(doc.get_text().to_string()), disk: None })
    }
}

struct Docs {
    rt: tokio::runtime::Runtime,
    dir: PathBuf,
    n: u64,
    docs: Documents,
    uri: Option<Url>,
}

impl Driver for Docs {
    fn name(&self) -> &'static str {
        "documents"
    }
    fn open(&mut self, text: &str) -> Result<(), (bool, String)> {
        // a fresh store and a fresh file per history
        self.docs = Documents::new();
        self.n += 1;
        let path = self.dir.join(format!("doc{}.sw", self.n % 4));
        std::fs::write(&path, text).map_err(|e| (false, e.to_string()))?;
        let uri = Url::from_file_path(&path).map_err(|_| (false, "bad path".to_string()))?;
        catch(AssertUnwindSafe(|| self.rt.block_on(self.docs.handle_open_file(&uri)))).map_err(|(l, m)| (false, format!("handle_open_file panicked: {m} at {l}")))?;
        if self.docs.get_text_document(&uri).map(|d| d.get_text() != text).unwrap_or(true) {
            return Err((false, "handle_open_file did not store the file content".into()));
        }
        self.uri = Some(uri);
        Ok(())
    }
    fn change(&mut self, batch: &[TextDocumentContentChangeEvent]) -> Result<Observed, (String, String)> {
        let uri = self.uri.clone().expect("opened");
        let r = catch(AssertUnwindSafe(|| self.rt.block_on(self.docs.write_changes_to_file(&uri, batch)).map_err(|e| e.to_string())))?;
        let memory = self.docs.get_text_document(&uri).ok().map(|d| d.get_text().to_string());
        Ok(Observed { result: r, memory, disk: Some(PathBuf::from(uri.path())) })
    }
}

struct Server {
    rt: tokio::runtime::Runtime,
    state: ServerState,
    ws_uri: Url,
    temp_uri: Url,
    version: i32,
}

impl Server {
    /// A real (std-less) project, opened through the did_open handler.
    fn start(dir: &Path) -> Result<Server, String> {
        let proj = dir.join("ws").join("proj");
        std::fs::create_dir_all(proj.join("src")).map_err(|e| e.to_string())?;
        std::fs::write(proj.join("Forc.toml"), "[project]\nauthors = [\"verif\"]\nentry = \"main.sw\"\nlicense = \"Apache-2.0\"\nname = \"proj\"\nimplicit-std = false\n\n[dependencies]\n").map_err(|e| e.to_string())?;
        let main = proj.join("src").join("main.sw");
        let text = "library;\n\npub fn f() -> u64 {\n    1\n}\n";
        std::fs::write(&main, text).map_err(|e| e.to_string())?;
        let rt = tokio::runtime::Builder::new_current_thread().enable_all().build().map_err(|e| e.to_string())?;
        let state = catch(AssertUnwindSafe(ServerState::default)).map_err(|(l, m)| format!("ServerState::default panicked: {m} at {l}"))?;
        let ws_uri = Url::from_file_path(&main).map_err(|_| "bad path".to_string())?;
        let params = DidOpenTextDocumentParams { text_document: TextDocumentItem { uri: ws_uri.clone(), language_id: "sway".into(), version: 1, text: text.into() } };
        // did_open waits for the first compilation; a known scheduling defect (C24) can park it
        // for ever, hence the watchdog (expiry = this driver is unavailable, never a verdict)
        let opened = catch(AssertUnwindSafe(|| rt.block_on(async { tokio::time::timeout(Duration::from_secs(30), notification::handle_did_open_text_document(&state, params)).await })))
            .map_err(|(l, m)| format!("did_open panicked: {m} at {l}"))?;
        match opened {
            Err(_) => return Err("did_open did not return within 30 s".into()),
            Ok(Err(e)) => return Err(format!("did_open failed: {e}")),
            Ok(Ok(())) => {}
        }
        let temp_uri = state.uri_from_workspace(&ws_uri).map_err(|e| format!("uri_from_workspace: {e}"))?;
        Ok(Server { rt, state, ws_uri, temp_uri, version: 1 })
    }
    fn stop(&self) {
        let _ = catch(AssertUnwindSafe(|| {
            let _ = self.state.shutdown_server();
        }));
    }
}

impl Driver for Server {
    fn name(&self) -> &'static str {
        "server"
    }
    fn open(&mut self, text: &str) -> Result<(), (bool, String)> {
        // the document stays open for the life of the shard; a history starts with a full change
        let ch = TextDocumentContentChangeEvent { range: None, range_length: None, text: text.to_string() };
        match self.change(&[ch]) {
            Ok(o) => {
                o.result.map_err(|e| (true, format!("did_change with a full-text change failed: {e}")))?;
                if o.memory.as_deref() != Some(text) {
                    return Err((true, format!("a full-text change to {} left memory {:?}", short(text), o.memory.as_deref().map(short))));
                }
                let mut scratch = ShardResult::default();
                match settle_disk(o.disk.as_deref().unwrap(), text, text, &mut scratch) {
                    Disk::Equal => Ok(()),
                    Disk::Wrong(got) => Err((true, format!("a full-text change to {} left the file with {}", short(text), short(&got)))),
                    Disk::NotObserved(_) => Err((false, "file write not observed within the watchdog".into())),
                }
            }
            Err((l, m)) => Err((true, format!("did_change panicked on a full-text change: {m} at {l}"))),
        }
    }
    fn change(&mut self, batch: &[TextDocumentContentChangeEvent]) -> Result<Observed, (String, String)> {
        self.version += 1;
        let params = DidChangeTextDocumentParams { text_document: VersionedTextDocumentIdentifier { uri: self.ws_uri.clone(), version: self.version }, content_changes: batch.to_vec() };
        let r = catch(AssertUnwindSafe(|| self.rt.block_on(notification::handle_did_change_text_document(&self.state, params)).map_err(|e| e.to_string())))?;
        let memory = self.state.documents.get_text_document(&self.temp_uri).ok().map(|d| d.get_text().to_string());
        Ok(Observed { result: r, memory, disk: Some(PathBuf::from(self.temp_uri.path())) })
    }
}

// ------------------------------------------------------------------------------------------
// Oracle

/// The server writes the file through tokio::fs without flushing: `write_all` returns once the
/// data is handed to a blocking thread, so the file may still be empty / partly written when the
/// handler returns. What is compared is the content the write settles on: while the file holds a
/// prefix of the expected text (or still the previous text) the read is repeated. A write that is
/// not observed within the watchdog is inconclusive; only a content that is neither is wrong.
enum Disk {
    Equal,
    Wrong(String),
    NotObserved(String),
}

fn settle_disk(path: &Path, want: &str, prev: &str, res: &mut ShardResult) -> Disk {
    let start = std::time::Instant::now();
    let mut retried = false;
    let mut tries = 0u32;
    loop {
        let got = std::fs::read(path).map(|b| String::from_utf8_lossy(&b).into_owned()).unwrap_or_default();
        if got == want {
            if retried {
                res.count("disk_reads_repeated_until_write_completed");
            }
            return Disk::Equal;
        }
        let transient = want.starts_with(&got) || got == prev;
        if !transient {
            return Disk::Wrong(got);
        }
        if start.elapsed() > Duration::from_secs(10) {
            return Disk::NotObserved(got);
        }
        retried = true;
        tries += 1;
        if tries < 200 {
            std::thread::yield_now();
        } else {
            std::thread::sleep(Duration::from_micros(100));
        }
    }
}

fn short(s: &str) -> String {
    let t: String = s.chars().take(60).collect();
    format!("{t:?}")
}

const BUG: &str = "utf16-column-treated-as-byte-offset";

/// Compares the file the server wrote with `want` (if the driver has a file). false = reported.
fn disk_ok(o: &Observed, want: &Option<String>, sig: &str, before: &str, _mem: &str, res: &mut ShardResult, fail: &dyn Fn(&mut ShardResult, &str, String, Outcome)) -> bool {
    let (Some(path), Some(want)) = (&o.disk, want) else { return true };
    match settle_disk(path, want, before, res) {
        Disk::Equal => {
            res.count("disk_comparisons");
            true
        }
        Disk::Wrong(got) => {
            fail(res, sig, format!("the server's memory is right but the file {} holds {} instead of {}", path.display(), short(&got), short(want)), Outcome::Text("<disk>".into()));
            false
        }
        Disk::NotObserved(got) => {
            res.inconclusive(format!("the file write was not observed within the watchdog (file holds {}, expected {})", short(&got), short(want)));
            res.count("disk_write_not_observed");
            true
        }
    }
}

/// Runs one history. Returns false if the driver could not be used (inconclusive).
fn run_history(d: &mut dyn Driver, h: &History, res: &mut ShardResult) -> bool {
    res.evaluations += 1;
    let replay = history_json(h);
    if let Err((is_violation, e)) = d.open(&h.initial) {
        if is_violation {
            res.violation("full-text-change-not-taken-over", format!("[{} driver] {e}", d.name()), replay);
        } else {
            // opening plain file content is not what C23 is about; if it fails the driver is unusable
            res.inconclusive(format!("driver {} could not open the document: {e}", d.name()));
        }
        return false;
    }
    res.count(&format!("histories_{}", d.name()));
    let mut m = Model::new(&h.initial);
    let mut applied_incremental = 0u32;
    let (mut any_non_ascii, mut any_astral, mut any_crlf) = (false, false, false);
    let note_text = |t: &str, na: &mut bool, astral: &mut bool, crlf: &mut bool| {
        if !t.is_ascii() {
            *na = true;
        }
        if t.chars().any(|c| c.len_utf16() == 2) {
            *astral = true;
        }
        if t.contains("\r\n") {
            *crlf = true;
        }
    };
    note_text(&h.initial, &mut any_non_ascii, &mut any_astral, &mut any_crlf);
    let mut diverged = false;

    for (bi, batch) in h.batches.iter().enumerate() {
        let before = m.text();
        // expected result of the batch under the correct model
        let mut expect = m.clone();
        let mut classes = vec![];
        for ch in batch {
            let c = classify(&expect, ch);
            match c {
                Class::Full => expect = Model::new(&ch.text),
                Class::Valid(s, e) => expect.splice(s, e, &ch.text),
                _ => {}
            }
            classes.push(c);
            note_text(&ch.text, &mut any_non_ascii, &mut any_astral, &mut any_crlf);
        }
        let single = if batch.len() == 1 { Some(classes[0]) } else { None };
        if classes.iter().any(|c| *c == Class::Unspecified) || (batch.len() > 1 && classes.iter().any(|c| !matches!(c, Class::Full | Class::Valid(..)))) {
            // not generated; only reachable through a hand-written replay file
            res.count("batches_outside_the_statement_skipped");
            continue;
        }
        res.count("batches");
        if batch.len() > 1 {
            res.count("batches_multi_change");
        }
        let t0 = std::time::Instant::now();
        let obs = d.change(batch);
        res.add(&format!("time_us_in_{}", d.name()), t0.elapsed().as_micros() as u64);
        let mimic = mimic_batch(&before, batch);
        let step = json!({"batch_index": bi, "text_before": before});
        let correct_text = expect.text();
        let fail = |res: &mut ShardResult, generic_sig: &str, desc: String, observed: Outcome| {
            // is this exactly the known defect? the bug-mimicking model must reproduce the
            // observation while the correct model does not, and non-ASCII text must be involved
            let acceptable: Vec<Outcome> = match single {
                Some(Class::InvalidOrder) | Some(Class::InvalidLine) => vec![Outcome::Rejected(before.clone())],
                Some(Class::EofTolerant(s, e)) => {
                    let mut alt = Model::new(&before);
                    alt.splice(s, e, &batch[0].text);
                    vec![Outcome::Text(alt.text()), Outcome::Rejected(before.clone())]
                }
                _ => vec![Outcome::Text(correct_text.clone())],
            };
            let non_ascii_involved = !before.is_ascii() || batch.iter().any(|c| !c.text.is_ascii());
            let explained = observed == mimic && !acceptable.contains(&mimic) && non_ascii_involved;
            let sig = if explained {
                match &observed {
                    Outcome::Text(_) => format!("{BUG}:wrong-text"),
                    Outcome::Rejected(_) => format!("{BUG}:valid-range-rejected"),
                    Outcome::Panic => format!("{BUG}:panic@sway-lsp/src/core/document.rs"),
                }
            } else {
                generic_sig.to_string()
            };
            if explained {
                res.count("failures_explained_by_known_defect");
                let key = format!("recorded_{sig}");
                if res.counters.get(&key).copied().unwrap_or(0) >= 3 {
                    return;
                }
                res.count(&key);
            }
            let mut r = replay.clone();
            r["failed_at"] = step.clone();
            res.violation(sig, format!("[{} driver, batch {bi}] {desc}", h.driver), r);
        };
        let mut ok = true;
        match obs {
            Err((loc, msg)) => {
                ok = false;
                // the char-boundary assertion of String::replace_range, reached from document.rs
                let boundary_panic = (msg.contains("character boundary") || msg.contains("char boundary") || msg.contains("is_char_boundary")) && loc.contains("sway-lsp/src/core/document.rs");
                let observed = if boundary_panic { Outcome::Panic } else { Outcome::Text(format!("<other panic {msg}>")) };
                fail(res, &panic_signature(&loc, &msg), format!("server panicked: {msg} at {loc}; text before {}", short(&before)), observed);
            }
            Ok(o) => {
                let mem = o.memory.clone().unwrap_or_else(|| "<document missing>".into());
                // what the file must settle on once the in-memory comparison has passed
                let mut disk_want: Option<String> = None;
                let mut disk_sig = "file-on-disk-differs-from-client".to_string();
                match single {
                    Some(Class::InvalidOrder) | Some(Class::InvalidLine) => {
                        let kind = if single == Some(Class::InvalidOrder) { "start-after-end" } else { "line-beyond-document" };
                        if o.result.is_ok() {
                            ok = false;
                            fail(res, &format!("invalid-range-accepted:{kind}"), format!("invalid range ({kind}) {:?} was accepted; text before {}", batch[0].range, short(&before)), Outcome::Text(mem.clone()));
                        } else if mem != before {
                            ok = false;
                            fail(res, &format!("invalid-range-altered-document:{kind}"), format!("invalid range ({kind}) was rejected but the text changed from {} to {}", short(&before), short(&mem)), Outcome::Rejected(mem.clone()));
                        } else {
                            res.count("invalid_ranges_rejected");
                            res.count(&format!("invalid_ranges_rejected_{kind}"));
                            res.count("text_comparisons");
                            disk_want = Some(before.clone());
                            disk_sig = format!("invalid-range-altered-file:{kind}");
                        }
                    }
                    Some(Class::EofTolerant(s, e)) => {
                        res.count("text_comparisons");
                        if o.result.is_ok() {
                            let mut alt = m.clone();
                            alt.splice(s, e, &batch[0].text);
                            if mem == alt.text() {
                                res.count("eof_tolerant_accepted_as_end_of_document");
                                disk_want = Some(mem.clone());
                                expect = alt;
                            } else {
                                ok = false;
                                fail(res, "position-beyond-last-line-neither-rejected-nor-end-of-document", format!("range {:?} with positions beyond the last line produced {} from {}", batch[0].range, short(&mem), short(&before)), Outcome::Text(mem.clone()));
                            }
                        } else if mem == before {
                            res.count("eof_tolerant_rejected");
                            disk_want = Some(before.clone());
                        } else {
                            ok = false;
                            fail(res, "rejected-change-altered-document", format!("range {:?} was rejected but the text changed", batch[0].range), Outcome::Rejected(mem.clone()));
                        }
                    }
                    _ => {
                        // all changes valid: must be applied
                        let want = expect.text();
                        match &o.result {
                            Err(e) => {
                                ok = false;
                                fail(res, "valid-change-rejected", format!("valid change(s) {:?} rejected ({e}); text before {}", batch.iter().map(|c| c.range).collect::<Vec<_>>(), short(&before)), Outcome::Rejected(mem.clone()));
                            }
                            Ok(()) => {
                                res.count("text_comparisons");
                                if mem != want {
                                    ok = false;
                                    fail(res, "server-text-differs-from-client", format!("after {:?} on {} the server holds {} but the client holds {}", batch.iter().map(|c| (c.range, short(&c.text))).collect::<Vec<_>>(), short(&before), short(&mem), short(&want)), Outcome::Text(mem.clone()));
                                } else {
                                    disk_want = Some(want.clone());
                                }
                            }
                        }
                        if ok && !disk_ok(&o, &disk_want, &disk_sig, &before, &mem, res, &fail) {
                            ok = false;
                        }
                        disk_want = None;
                        if ok {
                            for (ch, c) in batch.iter().zip(&classes) {
                                res.count("changes_applied");
                                match c {
                                    Class::Full => res.count("changes_full"),
                                    Class::Valid(s, e) => {
                                        res.count("changes_incremental");
                                        applied_incremental += 1;
                                        if s == e {
                                            res.count("changes_pure_insertion");
                                        } else if ch.text.is_empty() {
                                            res.count("changes_pure_deletion");
                                        }
                                        if ch.text.contains('\n') || ch.range.map(|r| r.start.line != r.end.line).unwrap_or(false) {
                                            res.count("changes_multi_line");
                                        }
                                        if !before.is_ascii() {
                                            res.count("changes_incremental_on_non_ascii_text");
                                        }
                                    }
                                    _ => {}
                                }
                            }
                        }
                    }
                }
                if ok && disk_want.is_some() && !disk_ok(&o, &disk_want, &disk_sig, &before, &mem, res, &fail) {
                    ok = false;
                }
                if !ok {
                    // let a write that is still in flight finish before the resynchronisation writes again
                    if let Some(p) = &o.disk {
                        let mut scratch = ShardResult::default();
                        let _ = settle_disk(p, &mem, &before, &mut scratch);
                    }
                }
            }
        }
        // the client's view after this batch
        m = expect;
        res.max("max_document_utf16_units", m.u.len() as u64);
        if !ok {
            diverged = true;
            res.count("divergences");
            // resynchronise with a full-text change so that the rest of the history is still checked
            let t = m.text();
            let full = TextDocumentContentChangeEvent { range: None, range_length: None, text: t.clone() };
            match d.change(&[full]) {
                Ok(o) if o.result.is_ok() && o.memory.as_deref() == Some(t.as_str()) => {
                    res.count("resyncs");
                    if let Some(p) = &o.disk {
                        let mut scratch = ShardResult::default();
                        let _ = settle_disk(p, &t, &t, &mut scratch);
                    }
                }
                other => {
                    let why = match other {
                        Ok(o) => format!("result {:?}", o.result),
                        Err((l, mm)) => format!("panic {mm} at {l}"),
                    };
                    let mut r = replay.clone();
                    r["failed_at"] = step.clone();
                    res.violation("full-text-change-not-taken-over", format!("[{} driver] a full-text change after a divergence did not bring the server back to the client's text: {why}", h.driver), r);
                    break;
                }
            }
        }
    }
    if any_non_ascii {
        res.count("histories_non_ascii");
    } else {
        res.count("histories_ascii_only");
    }
    if any_astral {
        res.count("histories_astral");
    }
    if any_crlf {
        res.count("histories_crlf");
    }
    if diverged {
        res.count("histories_with_divergence");
    }
    if applied_incremental >= 3 {
        res.note_nontrivial(hash64(replay.to_string().as_bytes()));
    }
    if !diverged && applied_incremental >= 3 && h.batches.len() <= 5 {
        res.sample(replay);
    }
    true
}

// ------------------------------------------------------------------------------------------
// Shard

struct Drivers {
    direct: Direct,
    docs: Docs,
    server: Option<Server>,
}

fn new_rt() -> tokio::runtime::Runtime {
    tokio::runtime::Builder::new_current_thread().enable_all().build().expect("tokio runtime")
}

fn setup(dir: &Path, res: &mut ShardResult) -> Drivers {
    // everything sway-lsp creates on its own (workspace clone, lock files) stays under the shard dir
    let home = dir.join("home");
    let tmp = dir.join("tmp");
    std::fs::create_dir_all(&home).ok();
    std::fs::create_dir_all(&tmp).ok();
    std::env::set_var("HOME", &home);
    std::env::set_var("TMPDIR", &tmp);
    let ddir = dir.join("docs");
    std::fs::create_dir_all(&ddir).ok();
    let server = match Server::start(dir) {
        Ok(s) => Some(s),
        Err(e) => {
            res.inconclusive(format!("server driver unavailable: {e}"));
            res.count("server_driver_unavailable");
            None
        }
    };
    Drivers { direct: Direct { rt: new_rt(), path: ddir.join("direct.sw"), doc: None, opens: 0 }, docs: Docs { rt: new_rt(), dir: ddir, n: 0, docs: Documents::new(), uri: None }, server }
}

/// Index space: the direct driver costs microseconds per history, the two others milliseconds
/// (file writes, compilation requests). A shard spends the first 40% of its time on direct
/// histories (indices 0, 1, 2, ...) and the rest on the documents / server drivers (indices
/// 2^40 + k, three documents histories for one server history). A case is still a pure function
/// of (seed, shard, index).
const SLOW_BASE: u64 = 1 << 40;

fn driver_for(i: u64) -> &'static str {
    if i < SLOW_BASE {
        "direct"
    } else if (i - SLOW_BASE) % 4 == 3 {
        "server"
    } else {
        "documents"
    }
}

fn shard(ctx: &ShardCtx) -> ShardResult {
    let mut res = ShardResult::default();
    let dir = ctx.work();
    let mut ds = setup(&dir, &mut res);
    let direct_until = ctx.budget.mul_f64(0.4);
    let (mut fast, mut slow) = (0u64, SLOW_BASE);
    while ctx.time_left() {
        let i = if ctx.start.elapsed() < direct_until {
            fast += 1;
            fast - 1
        } else {
            slow += 1;
            slow - 1
        };
        let mut rng = ctx.rng(i);
        let mut driver = driver_for(i);
        if driver == "server" && ds.server.is_none() {
            driver = "documents";
        }
        let h = gen_history(&mut rng, driver);
        let d: &mut dyn Driver = match driver {
            "direct" => &mut ds.direct,
            "documents" => &mut ds.docs,
            _ => ds.server.as_mut().unwrap(),
        };
        if !run_history(d, &h, &mut res) && driver == "server" {
            if let Some(s) = ds.server.take() {
                s.stop();
            }
        }
    }
    if let Some(s) = ds.server.take() {
        s.stop();
    }
    res
}

fn replay(case: &Value) -> ShardResult {
    let mut res = ShardResult::default();
    let Some(h) = history_from_json(case) else {
        res.harness_fault = Some("cannot read the recorded history".into());
        return res;
    };
    let dir = work_dir("C23").join("replay");
    clean_dir(&dir);
    let mut ds = setup(&dir, &mut res);
    let d: &mut dyn Driver = match h.driver {
        "direct" => &mut ds.direct,
        "documents" => &mut ds.docs,
        _ => match ds.server.as_mut() {
            Some(s) => s,
            None => {
                res.harness_fault = Some("server driver unavailable for replay".into());
                return res;
            }
        },
    };
    run_history(d, &h, &mut res);
    if let Some(s) = ds.server.take() {
        s.stop();
    }
    res
}
