//! C12: initial storage slots match what storage reads return.
//!
//! Monitor: random `storage { .. }` declarations (nested namespaces, `in <key>` fields,
//! initialisers of every fixed-size type) are built by the real forc-test flow
//! (`engine::run_unit_tests`): forc-test deploys the contract with the storage slots the build
//! emitted and runs `#[test]` functions that call getters / setters of the contract in the VM.
//! Checks: (1) every `storage.<path>.read()` logs the canonical encoding of the declared
//! initialiser (also for struct members read through `storage.f.member.read()`); (2) the slot
//! key the program uses (`.slot()`) and the key of the emitted slots are the documented
//! `sha256(0x00 ++ "storage::<ns>::<ns>.<field>")`, recomputed here with the sha2 crate, or the
//! explicit `in` key; (3) the emitted slots partition into the pairwise disjoint ranges
//! `[key, key + n_slots)` of the declared fields; (4) a second test writes every field (and some
//! struct members) and re-reads everything after each write: the written field reads back the
//! new value, all other fields are unchanged.
use crate::c11::abi::*;
use crate::common::*;
use crate::engine::*;
use crate::{Plan, Prop};
use rand::seq::SliceRandom;
use rand::{rngs::StdRng, Rng};
use serde_json::{json, Value};
use sha2::{Digest, Sha256};
use std::collections::BTreeSet;
use std::fmt::Write;
use std::panic::AssertUnwindSafe;

pub static META: PropertyMeta = PropertyMeta {
    id: "C12",
    level: "exploration",
    rule: "random storage declarations (1..12 fields of u8..u256, bool, b256, str[N], tuples, structs, enums incl. unit-only and multi-slot values; namespaces nested 0..3 deep with re-used field and namespace names; ~30% fields with explicit `in` keys chosen adjacent, small, or with carries across 64-bit words) x {debug, release}, deployed by forc test with the emitted slots; an evaluation = one (package, profile) whose read test executed; non-trivial = the package declares at least two fields; distinct = hash of (package source, profile)",
    assumptions: &[
        "fuel-vm and forc-test's deployment (storage slots from the build) are the trusted execution substrate",
        "std::logging::log of a value emits its canonical ABI encoding (property C09's subject); the expected bytes are computed by the harness's own encoder",
        "the number of slots of a field is ceil(__size_of::<T>() / 32) (at least 1) with __size_of as reported by the program itself; the harness's own layout model is only used to choose non-overlapping explicit keys and a disagreement makes the case inconclusive",
    ],
    floor_evaluations: 8,
    floor_nontrivial: 4,
    required_counters: &[
        "fields",
        "reads_compared",
        "keys_recomputed",
        "disjointness_checks",
        "emitted_slots_attributed",
        "explicit_key_fields",
        "slots.1",
        "slots.2",
        "slots.gt2",
        "ns_depth.0",
        "ns_depth.1",
        "ns_depth.2",
        "writes_checked",
        "neighbour_reads_after_write",
        "member_reads_compared",
        "profile.debug",
        "profile.release",
        "oracle_selftest_corruption_classes_detected",
    ],
};

pub static PROP: Prop = Prop {
    meta: &META,
    plan: |t| {
        // see c11.rs: forc-test builds under load can exceed the default 60 s per-case watchdog
        if std::env::var("SWVERIF_CASE_WATCHDOG_S").is_err() {
            std::env::set_var("SWVERIF_CASE_WATCHDOG_S", "300");
        }
        Plan { nshards: 16, budget_s: t.pick(50.0, 1000.0), mem_gib: 6 }
    },
    shard,
    replay,
    extra: crate::no_extra,
    subcommand,
};

const MARK_RD_BEGIN: u64 = 0xC12A_0001;
const MARK_RD_END: u64 = 0xC12A_0002;
const MARK_META: u64 = 0xC12A_0003;
const MARK_SUB: u64 = 0xC12A_0004;
const MARK_WR: u64 = 0xC12B_0000;
const MARK_DONE: u64 = 0xC12D_0000;

/// member access through tuples (`storage.f.1`) in addition to struct members
const TUPLE_PATHS: bool = false;

#[derive(Clone, Debug)]
struct Field {
    ns: Vec<String>,
    name: String,
    key: Option<[u8; 32]>,
    ty: Ty,
    init: Val,
    /// the initialiser is written as a reference to a `const` item
    via_const: bool,
}

#[derive(Clone, Debug)]
struct WStep {
    field: usize,
    /// empty = the whole field
    path: Vec<usize>,
    ty: Ty,
    val: Val,
}

#[derive(Clone, Debug)]
struct Spec {
    types: Types,
    fields: Vec<Field>,
    /// (field, member path)
    subreads: Vec<(usize, Vec<usize>)>,
    steps: Vec<WStep>,
    /// Some(name): one of the fixed witnesses of the known serialisation defect
    witness: Option<&'static str>,
}

impl Field {
    fn access(&self) -> String {
        if self.ns.is_empty() {
            format!("storage.{}", self.name)
        } else {
            format!("storage::{}.{}", self.ns.join("::"), self.name)
        }
    }
    /// the documented pre-image of an implicit key
    fn key_string(&self) -> String {
        if self.ns.is_empty() {
            format!("storage.{}", self.name)
        } else {
            format!("storage::{}.{}", self.ns.join("::"), self.name)
        }
    }
    fn expected_key(&self) -> [u8; 32] {
        match self.key {
            Some(k) => k,
            None => {
                let mut h = Sha256::new();
                h.update([0u8]);
                h.update(self.key_string().as_bytes());
                h.finalize().into()
            }
        }
    }
}

fn slots_of(size: u64) -> u64 {
    ((size + 31) / 32).max(1)
}

// ------------------------------------------------------------------------------------------
// generator

/// member paths (through structs, optionally tuples) of a type, with the member type
fn member_paths(types: &Types, t: &Ty, prefix: &mut Vec<usize>, out: &mut Vec<(Vec<usize>, Ty)>, depth: u32) {
    let members: Vec<Ty> = match t {
        Ty::Struct(i) => types.structs[*i].clone(),
        Ty::Tuple(ts) if TUPLE_PATHS => ts.clone(),
        _ => return,
    };
    if depth == 0 {
        return;
    }
    for (j, m) in members.iter().enumerate() {
        prefix.push(j);
        out.push((prefix.clone(), m.clone()));
        member_paths(types, m, prefix, out, depth - 1);
        prefix.pop();
    }
}

fn path_str(types: &Types, t: &Ty, path: &[usize]) -> String {
    let mut s = String::new();
    let mut cur = t.clone();
    for j in path {
        match &cur {
            Ty::Struct(i) => {
                let _ = write!(s, ".f{j}");
                cur = types.structs[*i][*j].clone();
            }
            Ty::Tuple(ts) => {
                let _ = write!(s, ".{j}");
                cur = ts[*j].clone();
            }
            _ => panic!("c12: bad member path"),
        }
    }
    s
}

fn val_at<'a>(v: &'a Val, path: &[usize]) -> &'a Val {
    let mut cur = v;
    for j in path {
        cur = match cur {
            Val::Struct(vs) | Val::Tuple(vs) => &vs[*j],
            _ => panic!("c12: bad member path in value"),
        };
    }
    cur
}

fn set_at(v: &mut Val, path: &[usize], new: Val) {
    let mut cur = v;
    for j in path {
        cur = match cur {
            Val::Struct(vs) | Val::Tuple(vs) => &mut vs[*j],
            _ => panic!("c12: bad member path in value"),
        };
    }
    *cur = new;
}

fn cmp_key(a: &[u8; 32], b: &[u8; 32]) -> std::cmp::Ordering {
    a.cmp(b)
}

fn ranges_overlap(a: &([u8; 32], u64), b: &([u8; 32], u64)) -> bool {
    // [a, a+n) and [b, b+m), no wrap (callers only pass ranges whose end does not overflow)
    let (Some(ae), Some(be)) = (key_add(&a.0, a.1), key_add(&b.0, b.1)) else { return true };
    cmp_key(&a.0, &be).is_lt() && cmp_key(&b.0, &ae).is_lt()
}

fn gen_spec(rng: &mut StdRng) -> Spec {
    let opts = TyOpts { arrays: false, strs: true, max_bytes: 220 };
    let mut types = gen_types(rng, &opts);
    // one struct whose members have all the interesting sizes at shuffled offsets (one byte,
    // one word, four words, several words, an enum), so that member reads / writes start at
    // every word of a slot and cross slot boundaries
    // ... and one enum whose variants carry sub-word, one-word and multi-word payloads (the
    // union padding cases of the slot serialiser)
    let probe_enum = {
        let mut vs: Vec<Option<Ty>> = vec![Some(Ty::U8), Some(Ty::Bool), Some(Ty::U64), Some(Ty::U16), Some(Ty::Tuple(vec![Ty::U8, Ty::U64])), Some(Ty::B256), Some(Ty::Str(*choose(rng, &[1usize, 7, 9]))), None];
        vs.shuffle(rng);
        vs.truncate(rng.gen_range(2..=6));
        types.enums.push(vs);
        Ty::Enum(types.enums.len() - 1)
    };
    let probe_struct = {
        let mut ms: Vec<Ty> = vec![Ty::U8, Ty::U64, Ty::B256, Ty::U256, Ty::Bool, Ty::U16, Ty::Str(*choose(rng, &[3usize, 8, 9, 17])), Ty::Tuple(vec![Ty::U64, Ty::B256])];
        if !types.enums.is_empty() {
            ms.push(Ty::Enum(rng.gen_range(0..types.enums.len())));
        }
        if !types.structs.is_empty() {
            ms.push(Ty::Struct(rng.gen_range(0..types.structs.len())));
        }
        ms.shuffle(rng);
        ms.truncate(rng.gen_range(3..=7));
        types.structs.push(ms);
        Ty::Struct(types.structs.len() - 1)
    };
    // namespaces
    let ns_names = ["n1", "n2", "n3", "a", "value", "m"];
    let mut paths: Vec<Vec<String>> = vec![vec![]];
    let n_ns = rng.gen_range(0..=5);
    for _ in 0..n_ns {
        let parent = paths[rng.gen_range(0..paths.len())].clone();
        if parent.len() >= 3 {
            continue;
        }
        let mut p = parent;
        p.push(choose(rng, &ns_names).to_string());
        if !paths.contains(&p) {
            paths.push(p);
        }
    }
    let n_fields = match rng.gen_range(0..10) {
        0 => 1,
        1 | 2 => 12,
        _ => rng.gen_range(2..=11),
    };
    let field_names = ["a", "b", "c", "x", "value", "n1", "owner", "f0"];
    let mut fields: Vec<Field> = vec![];
    let mut explicit: Vec<([u8; 32], u64)> = vec![];
    for k in 0..n_fields {
        let ns = paths[rng.gen_range(0..paths.len())].clone();
        // a field name that is neither used in this namespace nor the name of a child namespace
        let mut name = choose(rng, &field_names).to_string();
        let clash = |name: &str, fields: &[Field]| fields.iter().any(|f| f.ns == ns && f.name == name) || paths.iter().any(|p| p.len() == ns.len() + 1 && p[..ns.len()] == ns[..] && p[ns.len()] == name);
        if clash(&name, &fields) {
            name = format!("{name}{k}");
        }
        if clash(&name, &fields) {
            name = format!("fld{k}");
        }
        // The random exploration stays clear of the shape of the known defect (see
        // `unit_variant_before_data`); that shape is covered by the fixed witnesses.
        let mut choice = None;
        for _ in 0..30 {
            let ty = match rng.gen_range(0..10) {
                _ if k == 0 && rng.gen_bool(0.7) => probe_struct.clone(),
                0 => Ty::U8,
                1 => Ty::Bool,
                2 => choose(rng, &[Ty::U16, Ty::U32, Ty::U64]).clone(),
                3 => choose(rng, &[Ty::U256, Ty::B256]).clone(),
                _ if k == 1 && rng.gen_bool(0.6) => probe_enum.clone(),
                4 if k <= 2 => probe_struct.clone(),
                5 if k <= 3 => probe_enum.clone(),
                _ => gen_ty(rng, &types, 2, &opts),
            };
            for _ in 0..4 {
                let init = gen_val(rng, &ty, &types);
                if !unit_variant_before_data(&types, &ty, &init) {
                    choice = Some((ty.clone(), init));
                    break;
                }
            }
            if choice.is_some() {
                break;
            }
        }
        let (ty, init) = choice.unwrap_or((Ty::U64, Val::U(k as u64)));
        let n = slots_of(types.mem_size(&ty));
        let key = if rng.gen_bool(0.3) {
            let mut chosen = None;
            for _ in 0..10 {
                let mut k = [0u8; 32];
                match rng.gen_range(0..6) {
                    0 => k[31] = rng.gen_range(0..4) * 16,
                    1 if !explicit.is_empty() => {
                        // directly after an earlier explicit field
                        let (pk, pn) = explicit[rng.gen_range(0..explicit.len())];
                        match key_add(&pk, pn) {
                            Some(x) => k = x,
                            None => continue,
                        }
                    }
                    2 if !explicit.is_empty() => {
                        // directly before an earlier explicit field
                        let (pk, _) = explicit[rng.gen_range(0..explicit.len())];
                        let mut below = pk;
                        // subtract n (borrow through the words)
                        let mut borrow = n as u128;
                        for i in (0..4).rev() {
                            let w = u64::from_be_bytes(below[i * 8..i * 8 + 8].try_into().unwrap()) as u128;
                            let (r, b) = if w >= borrow { (w - borrow, 0) } else { ((1u128 << 64) + w - borrow, 1) };
                            below[i * 8..i * 8 + 8].copy_from_slice(&(r as u64).to_be_bytes());
                            borrow = b;
                            if borrow == 0 {
                                break;
                            }
                        }
                        if borrow != 0 {
                            continue;
                        }
                        k = below;
                    }
                    3 => {
                        // the range crosses a 64-bit word boundary (carry into the next word)
                        rng.fill(&mut k[..]);
                        let words = rng.gen_range(1..=3);
                        for b in k[32 - 8 * words..].iter_mut() {
                            *b = 0xff;
                        }
                        k[31] = 0xff - rng.gen_range(0..n.min(200)) as u8;
                    }
                    _ => {
                        rng.fill(&mut k[..]);
                        if k[0] == 0xff {
                            k[0] = 0x7f;
                        }
                    }
                }
                let r = (k, n);
                if key_add(&k, n).is_some() && !explicit.iter().any(|e| ranges_overlap(e, &r)) {
                    chosen = Some(k);
                    break;
                }
            }
            chosen
        } else {
            None
        };
        if let Some(k) = key {
            explicit.push((k, n));
        }
        let via_const = rng.gen_bool(0.2);
        fields.push(Field { ns, name, key, ty, init, via_const });
    }
    // member reads
    let mut subreads = vec![];
    let mut all_paths: Vec<(usize, Vec<usize>, Ty)> = vec![];
    for (i, f) in fields.iter().enumerate() {
        let mut out = vec![];
        member_paths(&types, &f.ty, &mut vec![], &mut out, 3);
        for (p, t) in out {
            all_paths.push((i, p, t));
        }
    }
    all_paths.shuffle(rng);
    for (i, p, _) in all_paths.iter().take(12) {
        subreads.push((*i, p.clone()));
    }
    // writes: every field once (shuffled) plus some member writes
    let mut steps: Vec<WStep> = (0..fields.len())
        .map(|i| {
            let ty = fields[i].ty.clone();
            let val = gen_val(rng, &ty, &types);
            WStep { field: i, path: vec![], ty, val }
        })
        .collect();
    for (i, p, t) in all_paths.iter().take(8) {
        let val = gen_val(rng, t, &types);
        steps.push(WStep { field: *i, path: p.clone(), ty: t.clone(), val });
    }
    steps.shuffle(rng);
    Spec { types, fields, subreads, steps, witness: None }
}

/// The shape of the known defect (known_findings.d/C12.json): in serialisation order a unit
/// variant of an enum that also has payload-carrying variants is followed by further data of
/// the same storage field. (Enums with unit variants only are not affected.)
fn unit_variant_before_data(types: &Types, t: &Ty, v: &Val) -> bool {
    fn walk(types: &Types, t: &Ty, v: &Val, seen_unit: &mut bool, hit: &mut bool) {
        match (t, v) {
            (Ty::Enum(i), Val::Enum(k, p)) => {
                // the tag word
                if *seen_unit {
                    *hit = true;
                }
                match (&types.enums[*i][*k], p) {
                    (Some(pt), Some(pv)) => walk(types, pt, pv, seen_unit, hit),
                    _ => {
                        if types.enums[*i].iter().any(|v| v.is_some()) {
                            *seen_unit = true;
                        }
                    }
                }
            }
            (Ty::Tuple(ts), Val::Tuple(vs)) => ts.iter().zip(vs).for_each(|(t, v)| walk(types, t, v, seen_unit, hit)),
            (Ty::Struct(i), Val::Struct(vs)) => types.structs[*i].iter().zip(vs).for_each(|(t, v)| walk(types, t, v, seen_unit, hit)),
            (Ty::Array(t, _), Val::Array(vs)) => vs.iter().for_each(|v| walk(types, t, v, seen_unit, hit)),
            (Ty::Str(0), _) => {}
            _ => {
                if *seen_unit {
                    *hit = true;
                }
            }
        }
    }
    let (mut seen, mut hit) = (false, false);
    walk(types, t, v, &mut seen, &mut hit);
    hit
}

/// Fixed witnesses of the known defect: (name, types, field type, initialiser).
fn witnesses() -> Vec<(&'static str, Types, Ty, Val)> {
    let unit_or_u64 = vec![None, Some(Ty::U64)];
    vec![
        (
            "tuple-unit-variant-then-u64",
            Types { structs: vec![], enums: vec![unit_or_u64.clone()] },
            Ty::Tuple(vec![Ty::Enum(0), Ty::U64]),
            Val::Tuple(vec![Val::Enum(0, None), Val::U(0x1122334455667788)]),
        ),
        (
            "unit-variant-beside-three-word-variant-two-slots",
            Types { structs: vec![vec![Ty::U64, Ty::U16, Ty::U64]], enums: vec![vec![None, Some(Ty::Struct(0)), None]] },
            Ty::Tuple(vec![Ty::U64, Ty::Enum(0), Ty::U64]),
            Val::Tuple(vec![Val::U(7), Val::Enum(2, None), Val::U(u64::MAX - 1)]),
        ),
        (
            "unit-variant-inside-enum-payload",
            Types { structs: vec![], enums: vec![unit_or_u64, vec![Some(Ty::Tuple(vec![Ty::Enum(0), Ty::B256])), None]] },
            Ty::Enum(1),
            Val::Enum(0, Some(Box::new(Val::Tuple(vec![Val::Enum(0, None), Val::W([0xa5; 32])])))),
        ),
    ]
}

fn witness_spec(name: &str) -> Option<Spec> {
    let (n, types, ty, init) = witnesses().into_iter().find(|w| w.0 == name)?;
    let fields = vec![
        Field { ns: vec![], name: "before".into(), key: None, ty: Ty::U64, init: Val::U(1), via_const: false },
        Field { ns: vec!["n1".into()], name: "w".into(), key: None, ty, init, via_const: false },
        Field { ns: vec![], name: "after".into(), key: None, ty: Ty::U64, init: Val::U(2), via_const: false },
    ];
    Some(Spec { types, fields, subreads: vec![], steps: vec![], witness: Some(n) })
}

#[derive(Default)]
struct Node {
    fields: Vec<usize>,
    children: Vec<(String, Node)>,
}

fn render_node(spec: &Spec, node: &Node, indent: usize, s: &mut String) {
    let pad = " ".repeat(indent);
    for &i in &node.fields {
        let f = &spec.fields[i];
        let key = f.key.map(|k| format!(" in 0x{}", hex::encode(k))).unwrap_or_default();
        let init = if f.via_const { format!("K{i}") } else { spec.types.lit(&f.ty, &f.init) };
        let _ = writeln!(s, "{pad}{}{key}: {} = {init},", f.name, spec.types.name(&f.ty));
    }
    for (name, child) in &node.children {
        let _ = writeln!(s, "{pad}{name} {{");
        render_node(spec, child, indent + 4, s);
        let _ = writeln!(s, "{pad}}},");
    }
}

fn render(spec: &Spec) -> String {
    let t = &spec.types;
    let mut s = String::from("contract;\n\n");
    s.push_str(&t.decls());
    // namespace tree
    let mut root = Node::default();
    for (i, f) in spec.fields.iter().enumerate() {
        let mut node = &mut root;
        for seg in &f.ns {
            let pos = match node.children.iter().position(|(n, _)| n == seg) {
                Some(p) => p,
                None => {
                    node.children.push((seg.clone(), Node::default()));
                    node.children.len() - 1
                }
            };
            node = &mut node.children[pos].1;
        }
        node.fields.push(i);
    }
    s.push('\n');
    for (i, f) in spec.fields.iter().enumerate() {
        if f.via_const {
            let _ = writeln!(s, "const K{i}: {} = {};", t.name(&f.ty), t.lit(&f.ty, &f.init));
        }
    }
    s.push_str("\nstorage {\n");
    render_node(spec, &root, 4, &mut s);
    s.push_str("}\n\nabi Gen {\n    #[storage(read)]\n    fn rd();\n    #[storage(read)]\n    fn meta();\n    #[storage(read)]\n    fn sub();\n    #[storage(read, write)]\n    fn wr(k: u64);\n}\n\nimpl Gen for Contract {\n");
    // rd
    let _ = writeln!(s, "    #[storage(read)]\n    fn rd() {{\n        log({MARK_RD_BEGIN}u64);");
    for f in &spec.fields {
        let _ = writeln!(s, "        log({}.read());", f.access());
    }
    let _ = writeln!(s, "        log({MARK_RD_END}u64);\n    }}");
    // meta
    let _ = writeln!(s, "    #[storage(read)]\n    fn meta() {{\n        log({MARK_META}u64);");
    for f in &spec.fields {
        let _ = writeln!(s, "        log({}.slot());\n        log(__size_of::<{}>());", f.access(), t.name(&f.ty));
    }
    s.push_str("    }\n");
    // sub
    let _ = writeln!(s, "    #[storage(read)]\n    fn sub() {{\n        log({MARK_SUB}u64);");
    for (i, p) in &spec.subreads {
        let f = &spec.fields[*i];
        let _ = writeln!(s, "        log({}{}.read());", f.access(), path_str(t, &f.ty, p));
    }
    s.push_str("    }\n");
    // wr
    let _ = writeln!(s, "    #[storage(read, write)]\n    fn wr(k: u64) {{\n        log({MARK_WR}u64 + k);");
    for (j, st) in spec.steps.iter().enumerate() {
        let f = &spec.fields[st.field];
        let _ = writeln!(s, "        if k == {j}u64 {{\n            {}{}.write({});\n        }}", f.access(), path_str(t, &f.ty, &st.path), t.lit(&st.ty, &st.val));
    }
    s.push_str("    }\n}\n\n");
    s.push_str("#[test]\nfn t_read() {\n    let c = abi(Gen, CONTRACT_ID);\n    c.rd();\n    c.meta();\n    c.sub();\n");
    let _ = writeln!(s, "    log({MARK_DONE}u64);\n}}\n");
    s.push_str("#[test]\nfn t_write() {\n    let c = abi(Gen, CONTRACT_ID);\n");
    for j in 0..spec.steps.len() {
        let _ = writeln!(s, "    c.wr({j}u64);\n    c.rd();");
    }
    let _ = writeln!(s, "    c.sub();\n    log({MARK_DONE}u64);\n}}");
    s
}

// ------------------------------------------------------------------------------------------
// model of the receipts

#[derive(Clone, Copy, Debug)]
enum Role {
    Marker,
    Read(usize),
    Slot(usize),
    Size(usize),
    Member(usize),
    /// read of `field` after write step `step`
    ReadAfter { step: usize, field: usize },
    MemberAfter(usize),
}

struct Expected {
    entry: Entry,
    role: Role,
}

fn u(x: u64) -> Vec<u8> {
    x.to_be_bytes().to_vec()
}

fn expected_read(spec: &Spec) -> Vec<Expected> {
    let t = &spec.types;
    let mut out = vec![Expected { entry: Entry { callee: true, data: u(MARK_RD_BEGIN) }, role: Role::Marker }];
    for (i, f) in spec.fields.iter().enumerate() {
        out.push(Expected { entry: Entry { callee: true, data: t.encoded(&f.ty, &f.init) }, role: Role::Read(i) });
    }
    out.push(Expected { entry: Entry { callee: true, data: u(MARK_RD_END) }, role: Role::Marker });
    out.push(Expected { entry: Entry { callee: true, data: u(MARK_META) }, role: Role::Marker });
    for (i, f) in spec.fields.iter().enumerate() {
        out.push(Expected { entry: Entry { callee: true, data: f.expected_key().to_vec() }, role: Role::Slot(i) });
        out.push(Expected { entry: Entry { callee: true, data: u(t.mem_size(&f.ty)) }, role: Role::Size(i) });
    }
    out.push(Expected { entry: Entry { callee: true, data: u(MARK_SUB) }, role: Role::Marker });
    for (k, (i, p)) in spec.subreads.iter().enumerate() {
        let f = &spec.fields[*i];
        let (mt, mv) = member_ty_val(t, &f.ty, &f.init, p);
        out.push(Expected { entry: Entry { callee: true, data: t.encoded(&mt, mv) }, role: Role::Member(k) });
    }
    out.push(Expected { entry: Entry { callee: false, data: u(MARK_DONE) }, role: Role::Marker });
    out
}

fn member_ty_val<'a>(types: &Types, t: &Ty, v: &'a Val, path: &[usize]) -> (Ty, &'a Val) {
    let mut cur = t.clone();
    for j in path {
        cur = match &cur {
            Ty::Struct(i) => types.structs[*i][*j].clone(),
            Ty::Tuple(ts) => ts[*j].clone(),
            _ => panic!("c12: bad member path"),
        };
    }
    (cur, val_at(v, path))
}

fn expected_write(spec: &Spec) -> Vec<Expected> {
    let t = &spec.types;
    let mut state: Vec<Val> = spec.fields.iter().map(|f| f.init.clone()).collect();
    let mut out = vec![];
    for (j, st) in spec.steps.iter().enumerate() {
        out.push(Expected { entry: Entry { callee: true, data: u(MARK_WR + j as u64) }, role: Role::Marker });
        set_at(&mut state[st.field], &st.path, st.val.clone());
        out.push(Expected { entry: Entry { callee: true, data: u(MARK_RD_BEGIN) }, role: Role::Marker });
        for (i, f) in spec.fields.iter().enumerate() {
            out.push(Expected { entry: Entry { callee: true, data: t.encoded(&f.ty, &state[i]) }, role: Role::ReadAfter { step: j, field: i } });
        }
        out.push(Expected { entry: Entry { callee: true, data: u(MARK_RD_END) }, role: Role::Marker });
    }
    out.push(Expected { entry: Entry { callee: true, data: u(MARK_SUB) }, role: Role::Marker });
    for (k, (i, p)) in spec.subreads.iter().enumerate() {
        let f = &spec.fields[*i];
        let (mt, mv) = member_ty_val(t, &f.ty, &state[*i], p);
        out.push(Expected { entry: Entry { callee: true, data: t.encoded(&mt, mv) }, role: Role::MemberAfter(k) });
    }
    out.push(Expected { entry: Entry { callee: false, data: u(MARK_DONE) }, role: Role::Marker });
    out
}

fn field_desc(spec: &Spec, i: usize) -> String {
    let f = &spec.fields[i];
    format!("`{}`: {}{}", f.key_string(), spec.types.name(&f.ty), if f.key.is_some() { " (explicit key)" } else { "" })
}

enum Verdict {
    Ok { sizes: Vec<u64> },
    Violation(String, String),
    Inconclusive(String),
}

fn observed_of(out: &UnitTestOutcome) -> Vec<Entry> {
    out.logs.iter().map(|(id, _, d)| Entry { callee: id.bytes().any(|b| b != b'0'), data: d.clone() }).collect()
}

fn compare(spec: &Spec, expected: &[Expected], out: &UnitTestOutcome, which: &str, res: &mut ShardResult) -> Verdict {
    let observed = observed_of(out);
    let mut sizes = vec![0u64; spec.fields.len()];
    let mut layout_differs: Option<String> = None;
    for (k, ex) in expected.iter().enumerate() {
        let Some(ob) = observed.get(k) else {
            let kind = if out.outcome.reverted() { format!("{which}-test-reverted") } else { format!("{which}-test-missing-log") };
            let at = match &ex.role {
                Role::Read(i) | Role::Slot(i) | Role::Size(i) => format!("at field {}", field_desc(spec, *i)),
                Role::ReadAfter { step, field } => format!("at the read of field {} after write step {step}", field_desc(spec, *field)),
                Role::Member(k) | Role::MemberAfter(k) => format!("at member read #{k} of field {}", field_desc(spec, spec.subreads[*k].0)),
                Role::Marker => "at a marker".to_string(),
            };
            return Verdict::Violation(kind, format!("the receipts of {which} end after {} log entries with outcome {:?} {at}", observed.len(), out.outcome));
        };
        if let Role::Size(i) = ex.role {
            if ob.callee && ob.data.len() == 8 {
                let v = u64::from_be_bytes(ob.data.clone().try_into().unwrap());
                sizes[i] = v;
                if ob.data != ex.entry.data {
                    layout_differs = Some(format!("__size_of of field {} is {v}, the harness's layout model says {}", field_desc(spec, i), u64::from_be_bytes(ex.entry.data.clone().try_into().unwrap())));
                }
                continue;
            }
            return Verdict::Inconclusive(format!("size log of field {} is not a u64", field_desc(spec, i)));
        }
        if *ob == ex.entry {
            match ex.role {
                Role::Read(_) => res.count("reads_compared"),
                Role::Slot(i) => {
                    res.count("keys_recomputed");
                    res.count(if spec.fields[i].key.is_some() { "keys_explicit_confirmed" } else { "keys_implicit_hash_confirmed" });
                }
                Role::Member(_) | Role::MemberAfter(_) => res.count("member_reads_compared"),
                Role::ReadAfter { step, field } => {
                    if spec.steps[step].field == field {
                        res.count("writes_checked");
                        if !spec.steps[step].path.is_empty() {
                            res.count("member_writes_checked");
                        }
                    } else {
                        res.count("neighbour_reads_after_write");
                    }
                }
                _ => {}
            }
            continue;
        }
        let (kind, what) = match &ex.role {
            Role::Marker => ("marker-mismatch".to_string(), "marker".to_string()),
            Role::Read(i) => ("initial-read-mismatch".to_string(), format!("initial read of field {}", field_desc(spec, *i))),
            Role::Slot(i) => (if spec.fields[*i].key.is_some() { "explicit-key-mismatch".to_string() } else { "implicit-key-mismatch".to_string() }, format!("slot key of field {}", field_desc(spec, *i))),
            Role::Size(_) => unreachable!(),
            Role::Member(k) => {
                let (i, p) = &spec.subreads[*k];
                ("member-read-mismatch".to_string(), format!("initial read of member `{}` of field {}", path_str(&spec.types, &spec.fields[*i].ty, p), field_desc(spec, *i)))
            }
            Role::MemberAfter(k) => {
                let (i, p) = &spec.subreads[*k];
                ("member-read-after-writes-mismatch".to_string(), format!("read of member `{}` of field {} after all writes", path_str(&spec.types, &spec.fields[*i].ty, p), field_desc(spec, *i)))
            }
            Role::ReadAfter { step, field } => {
                let st = &spec.steps[*step];
                let target = format!("{}{}", field_desc(spec, st.field), path_str(&spec.types, &spec.fields[st.field].ty, &st.path));
                if st.field == *field {
                    ("write-readback-mismatch".to_string(), format!("read of field {} after writing it (step {step}, target {target})", field_desc(spec, *field)))
                } else {
                    ("write-disturbed-another-field".to_string(), format!("read of field {} after write step {step} to {target}", field_desc(spec, *field)))
                }
            }
        };
        return Verdict::Violation(kind, format!("{what}: expected {}, observed {} ({})", short_hex(&ex.entry.data), short_hex(&ob.data), if ob.callee { "callee" } else { "caller" }));
    }
    if observed.len() > expected.len() {
        return Verdict::Violation(format!("{which}-test-extra-log"), format!("{} unexpected log entries", observed.len() - expected.len()));
    }
    if out.outcome.reverted() || !out.passed {
        return Verdict::Violation(format!("{which}-test-reverted"), format!("all log entries present but the test ended with {:?}", out.outcome));
    }
    if let Some(n) = layout_differs {
        return Verdict::Inconclusive(n);
    }
    Verdict::Ok { sizes }
}

/// checks (2) and (3) on the slots the build emitted
fn check_slots(spec: &Spec, sizes: &[u64], slots: &[([u8; 32], [u8; 32])], res: &mut ShardResult) -> Result<(), (String, String)> {
    let ranges: Vec<([u8; 32], u64)> = spec.fields.iter().zip(sizes).map(|(f, s)| (f.expected_key(), slots_of(*s))).collect();
    for i in 0..ranges.len() {
        for j in (i + 1)..ranges.len() {
            res.count("disjointness_checks");
            if ranges_overlap(&ranges[i], &ranges[j]) {
                return Err(("field-slot-ranges-overlap".into(), format!("fields {} ({} slots at {}) and {} ({} slots at {}) overlap", field_desc(spec, i), ranges[i].1, hex::encode(ranges[i].0), field_desc(spec, j), ranges[j].1, hex::encode(ranges[j].0))));
            }
        }
    }
    let mut seen = BTreeSet::new();
    for (k, _) in slots {
        if !seen.insert(*k) {
            return Err(("slot-emitted-twice".into(), format!("slot {} is emitted twice", hex::encode(k))));
        }
        let owners: Vec<usize> = (0..ranges.len()).filter(|&i| ranges_overlap(&ranges[i], &(*k, 1))).collect();
        match owners.len() {
            1 => res.count("emitted_slots_attributed"),
            0 => return Err(("emitted-slot-belongs-to-no-field".into(), format!("emitted slot {} is outside the slot range of every declared field", hex::encode(k)))),
            _ => return Err(("emitted-slot-belongs-to-several-fields".into(), format!("emitted slot {} lies in the ranges of fields {:?}", hex::encode(k), owners))),
        }
    }
    for (i, r) in ranges.iter().enumerate() {
        for d in 0..r.1 {
            let k = key_add(&r.0, d).unwrap();
            if seen.contains(&k) {
                res.count("field_slots_found_emitted");
            } else {
                // a read of the field would have reverted; only recorded
                res.count("field_slots_not_emitted");
                let _ = i;
            }
        }
    }
    Ok(())
}

fn note_shape(spec: &Spec, res: &mut ShardResult) {
    res.add("fields", spec.fields.len() as u64);
    res.max("max_fields", spec.fields.len() as u64);
    for f in &spec.fields {
        res.count(&format!("ns_depth.{}", f.ns.len()));
        if f.key.is_some() {
            res.count("explicit_key_fields");
        }
        let mut cs = BTreeSet::new();
        spec.types.ctors(&f.ty, &mut cs);
        res.count(&format!("field_type.{}", f.ty.ctor()));
        for c in cs {
            res.count(&format!("ctor.{c}"));
        }
        match slots_of(spec.types.mem_size(&f.ty)) {
            1 => res.count("slots.1"),
            2 => res.count("slots.2"),
            _ => res.count("slots.gt2"),
        }
        if let Ty::Enum(i) = &f.ty {
            if spec.types.enums[*i].iter().all(|v| v.is_none()) {
                res.count("unit_only_enum_fields");
            }
        }
    }
    // same field name in two namespaces / namespace named like a field
    let names: Vec<&String> = spec.fields.iter().map(|f| &f.name).collect();
    if (0..names.len()).any(|i| (0..names.len()).any(|j| i != j && names[i] == names[j])) {
        res.count("class.same_field_name_in_two_namespaces");
    }
    if spec.fields.iter().any(|f| spec.fields.iter().any(|g| g.ns.contains(&f.name))) {
        res.count("class.namespace_named_like_a_field");
    }
    res.add("write_steps", spec.steps.len() as u64);
    res.add("member_reads", spec.subreads.len() as u64);
}

// ------------------------------------------------------------------------------------------
// running

struct CaseId {
    seed: u64,
    shard: u64,
    index: u64,
}

fn run_profile(spec: &Spec, src: &str, dir: &std::path::Path, profile: Profile, id: &CaseId, res: &mut ShardResult) {
    let r = catch(AssertUnwindSafe(|| run_unit_tests(dir, profile, 1, None)));
    let run = match r {
        Err((loc, msg)) => {
            res.count("compiler_panics");
            res.inconclusive(format!("forc test panicked at {loc}: {}", msg.chars().take(120).collect::<String>()));
            return;
        }
        Ok(Err(e)) => {
            res.count("packages_rejected");
            let n = res.counters.get("packages_rejected").copied().unwrap_or(0);
            let msg = if n <= 2 { diagnose_pkg(dir, profile).first().cloned().unwrap_or_else(|| format!("no diagnostics ({e})")) } else { "not diagnosed".to_string() };
            let b = bucket(&msg);
            res.count(&format!("rejected.{b}"));
            res.inconclusive(format!("generated package rejected ({}): {msg}", profile.name()));
            let keep = work_dir("C12").join("rejected");
            std::fs::create_dir_all(&keep).ok();
            let f = keep.join(format!("{}_{}.sw", profile.name(), b.replace([' ', '#'], "_")));
            if !f.exists() {
                let _ = std::fs::write(&f, format!("// {msg}\n// seed {} shard {} index {}\n{src}", id.seed, id.shard, id.index));
            }
            return;
        }
        Ok(Ok(run)) => run,
    };
    res.count("packages_executed");
    res.count(&format!("profile.{}", profile.name()));
    res.evaluations += 1;
    if spec.fields.len() >= 2 {
        res.note_nontrivial(hash64(format!("{src}|{}", profile.name()).as_bytes()));
    }
    let replay = |test: &str| json!({"seed": id.seed, "shard": id.shard, "index": id.index, "profile": profile.name(), "test": test, "source": src, "witness": spec.witness});
    let sig = |kind: &str| match spec.witness {
        // a fixed witness of the known defect: its own signature, only for the symptom of that defect
        Some(w) if kind == "initial-read-mismatch" => format!("unit-variant-word-in-storage-initializer:{w}"),
        _ => format!("{kind}:{:016x}", hash64(src.as_bytes())),
    };
    if spec.witness.is_some() {
        res.count("known_defect_witnesses_run");
    }
    // read test
    let mut sizes = None;
    match run.tests.iter().find(|t| t.name == "t_read") {
        None => res.inconclusive("test t_read was not run by forc test"),
        Some(out) => match compare(spec, &expected_read(spec), out, "read", res) {
            Verdict::Ok { sizes: s } => sizes = Some(s),
            Verdict::Inconclusive(n) => {
                res.count("layout_model_disagreements");
                res.inconclusive(format!("[{}] {n}", profile.name()));
            }
            Verdict::Violation(kind, desc) => res.violation(sig(&kind), format!("[{} t_read, {} fields] {desc}", profile.name(), spec.fields.len()), replay("t_read")),
        },
    }
    // emitted slots
    if let Some(sizes) = &sizes {
        let slots: Vec<([u8; 32], [u8; 32])> = run
            .built
            .storage_slots
            .iter()
            .map(|s| {
                let mut k = [0u8; 32];
                k.copy_from_slice(s.key().as_ref());
                let mut v = [0u8; 32];
                v.copy_from_slice(s.value().as_ref());
                (k, v)
            })
            .collect();
        res.add("emitted_slots", slots.len() as u64);
        if let Err((kind, desc)) = check_slots(spec, sizes, &slots, res) {
            res.violation(sig(&kind), format!("[{} emitted slots, {} fields] {desc}", profile.name(), spec.fields.len()), replay("t_read"));
        }
        // write test (its oracle needs nothing from the read test, but a contract whose
        // layout the harness misjudged may have overlapping explicit keys)
        match run.tests.iter().find(|t| t.name == "t_write") {
            _ if spec.witness.is_some() => {}
            None => res.inconclusive("test t_write was not run by forc test"),
            Some(out) => match compare(spec, &expected_write(spec), out, "write", res) {
                Verdict::Ok { .. } => res.count("write_tests_ok"),
                Verdict::Inconclusive(n) => res.inconclusive(n),
                Verdict::Violation(kind, desc) => res.violation(sig(&kind), format!("[{} t_write, {} fields] {desc}", profile.name(), spec.fields.len()), replay("t_write")),
            },
        }
    }
    if res.samples.is_empty() {
        res.sample(json!({"profile": profile.name(), "fields": spec.fields.iter().map(|f| format!("{}: {}{}", f.key_string(), spec.types.name(&f.ty), if f.key.is_some() { " [in key]" } else { "" })).collect::<Vec<_>>(), "emitted_slots": run.built.storage_slots.len(), "source": src}));
    }
}

/// Case (seed, shard, index): index 0 of the first shards is one of the fixed witnesses of the
/// known defect, everything else is a random declaration.
fn case_spec(seed: u64, shard: u64, index: u64) -> Spec {
    let w = witnesses();
    if index == 0 && (shard as usize) < w.len() {
        return witness_spec(w[shard as usize].0).unwrap();
    }
    let mut rng = rng_for(seed, shard, index);
    gen_spec(&mut rng)
}

fn shard(ctx: &ShardCtx) -> ShardResult {
    let mut res = ShardResult::default();
    if ctx.shard == 0 && ctx.first_index == 0 {
        // calibration of the oracle on synthetic honest / corrupted observations (milliseconds)
        let (code, classes) = selftest(false);
        res.add("oracle_selftest_corruption_classes_detected", classes as u64);
        if code != 0 {
            res.harness_fault = Some("the oracle self-test failed: run `swverif c12selftest`".into());
            return res;
        }
    }
    let mut i = ctx.first_index;
    while ctx.time_left() {
        let spec = case_spec(ctx.seed, ctx.shard, i);
        let src = render(&spec);
        journal_current(ctx, &src);
        let dir = ctx.work().join(format!("pkg{i}"));
        let _ = std::fs::remove_dir_all(&dir);
        if let Err(e) = write_pkg(&dir, "gencontract", &src, true) {
            res.harness_fault = Some(format!("cannot write package: {e}"));
            return res;
        }
        note_shape(&spec, &mut res);
        res.count("packages_generated");
        let id = CaseId { seed: ctx.seed, shard: ctx.shard, index: i };
        let order = if (i + ctx.shard) % 2 == 0 { [Profile::Debug, Profile::Release] } else { [Profile::Release, Profile::Debug] };
        for (k, profile) in order.into_iter().enumerate() {
            if k == 1 && !ctx.time_left() {
                break;
            }
            ctx.begin_case(i, &format!("// {} seed {} shard {} index {i}\n{src}", profile.name(), ctx.seed, ctx.shard), &res);
            run_profile(&spec, &src, &dir, profile, &id, &mut res);
            ctx.end_case();
        }
        let _ = std::fs::remove_dir_all(&dir);
        i += 1;
        write_partial(ctx, &res);
    }
    res
}

fn replay(case: &Value) -> ShardResult {
    let mut res = ShardResult::default();
    let (Some(seed), Some(sh), Some(index)) = (case["seed"].as_u64(), case["shard"].as_u64(), case["index"].as_u64()) else {
        res.harness_fault = Some("replay case lacks seed/shard/index".into());
        return res;
    };
    let spec = case_spec(seed, sh, index);
    let src = render(&spec);
    if case["source"].as_str() != Some(src.as_str()) {
        res.harness_fault = Some("the generator no longer reproduces the recorded package; run `swverif c11probe <file.sw>` on the recorded source".into());
        return res;
    }
    let dir = work_dir("C12").join("replay");
    clean_dir(&dir);
    if let Err(e) = write_pkg(&dir, "gencontract", &src, true) {
        res.harness_fault = Some(format!("cannot write package: {e}"));
        return res;
    }
    let profile = if case["profile"].as_str() == Some("release") { Profile::Release } else { Profile::Debug };
    run_profile(&spec, &src, &dir, profile, &CaseId { seed, shard: sh, index }, &mut res);
    res
}


// ------------------------------------------------------------------------------------------
// oracle self-test on synthetic observations (no compiler involved)

fn synth_outcome(name: &str, entries: &[Entry], reverted: bool) -> UnitTestOutcome {
    let callee_id = "ab".repeat(32);
    let zero_id = "00".repeat(32);
    UnitTestOutcome {
        name: name.to_string(),
        passed: !reverted,
        outcome: if reverted { Outcome::Revert(0) } else { Outcome::Return(0) },
        logs: entries.iter().map(|e| (if e.callee { callee_id.clone() } else { zero_id.clone() }, 0u64, e.data.clone())).collect(),
        gas_used: 0,
    }
}

fn wrong_key(f: &Field, how: usize) -> [u8; 32] {
    let mut h = Sha256::new();
    match how {
        0 => {
            // domain byte 1 instead of 0
            h.update([1u8]);
            h.update(f.key_string().as_bytes());
        }
        1 => {
            // no domain byte
            h.update(f.key_string().as_bytes());
        }
        _ => {
            // '.' between namespaces / '::' before the field
            h.update([0u8]);
            let s = if f.ns.is_empty() { format!("storage::{}", f.name) } else { format!("storage.{}.{}", f.ns.join("."), f.name) };
            h.update(s.as_bytes());
        }
    }
    h.finalize().into()
}

/// `swverif c12selftest`: feed the comparisons with honest and corrupted observations
fn selftest(verbose: bool) -> (i32, usize) {
    let mut failures = 0;
    let mut seen: BTreeSet<String> = BTreeSet::new();
    let mut honest_ok = 0;
    for v in 0..80u64 {
        let mut rng = rng_for(77, v, 0);
        let spec = gen_spec(&mut rng);
        let sizes: Vec<u64> = spec.fields.iter().map(|f| spec.types.mem_size(&f.ty)).collect();
        let rd = expected_read(&spec);
        let wr = expected_write(&spec);
        let honest_rd: Vec<Entry> = rd.iter().map(|e| e.entry.clone()).collect();
        let honest_wr: Vec<Entry> = wr.iter().map(|e| e.entry.clone()).collect();
        let mut scratch = ShardResult::default();
        match (compare(&spec, &rd, &synth_outcome("t_read", &honest_rd, false), "read", &mut scratch), compare(&spec, &wr, &synth_outcome("t_write", &honest_wr, false), "write", &mut scratch)) {
            (Verdict::Ok { .. }, Verdict::Ok { .. }) => honest_ok += 1,
            _ => {
                eprintln!("FAIL honest receipts rejected (variant {v})");
                failures += 1;
            }
        }
        let mut expect = |label: &str, exp: &[Expected], entries: Vec<Entry>, reverted: bool, which: &str, want: &str| {
            let mut scratch = ShardResult::default();
            match compare(&spec, exp, &synth_outcome("t", &entries, reverted), which, &mut scratch) {
                Verdict::Violation(k, _) if k == want => {
                    seen.insert(format!("{label} -> {k}"));
                }
                Verdict::Violation(k, d) => {
                    eprintln!("FAIL {label}: expected {want}, got {k}: {d}");
                    failures += 1;
                }
                _ => {
                    eprintln!("FAIL {label}: expected {want}, got no violation");
                    failures += 1;
                }
            }
        };
        for (k, e) in rd.iter().enumerate() {
            match e.role {
                Role::Read(_) => {
                    let mut x = honest_rd.clone();
                    let l = x[k].data.len() - 1;
                    x[k].data[l] ^= 0x80;
                    expect("initial read with a flipped bit", &rd, x, false, "read", "initial-read-mismatch");
                    let mut x = honest_rd.clone();
                    x.truncate(k);
                    expect("read reverts", &rd, x, true, "read", "read-test-reverted");
                }
                Role::Slot(i) => {
                    if spec.fields[i].key.is_none() {
                        for how in 0..3 {
                            let mut x = honest_rd.clone();
                            x[k].data = wrong_key(&spec.fields[i], how).to_vec();
                            expect(["key hashed with domain byte 1", "key hashed without domain byte", "key hashed with other separators"][how], &rd, x, false, "read", "implicit-key-mismatch");
                        }
                    } else {
                        let mut x = honest_rd.clone();
                        x[k].data[31] ^= 1;
                        expect("explicit key off by one", &rd, x, false, "read", "explicit-key-mismatch");
                    }
                }
                Role::Member(_) => {
                    let mut x = honest_rd.clone();
                    x[k].data.push(0);
                    expect("member read with a trailing byte", &rd, x, false, "read", "member-read-mismatch");
                }
                _ => {}
            }
        }
        for (k, e) in wr.iter().enumerate() {
            if let Role::ReadAfter { step, field } = e.role {
                let mut x = honest_wr.clone();
                let l = x[k].data.len() - 1;
                x[k].data[l] ^= 1;
                if spec.steps[step].field == field {
                    expect("written field reads back differently", &wr, x, false, "write", "write-readback-mismatch");
                } else {
                    expect("another field changed by a write", &wr, x, false, "write", "write-disturbed-another-field");
                }
            }
        }
        // emitted slots
        let mut slots: Vec<([u8; 32], [u8; 32])> = vec![];
        for (f, s) in spec.fields.iter().zip(&sizes) {
            for d in 0..slots_of(*s) {
                slots.push((key_add(&f.expected_key(), d).unwrap(), [0u8; 32]));
            }
        }
        let mut scratch = ShardResult::default();
        if let Err((k, d)) = check_slots(&spec, &sizes, &slots, &mut scratch) {
            eprintln!("FAIL honest slots rejected: {k}: {d}");
            failures += 1;
        }
        let mut expect_slots = |label: &str, sizes: &[u64], slots: &[([u8; 32], [u8; 32])], want: &str| {
            let mut scratch = ShardResult::default();
            match check_slots(&spec, sizes, slots, &mut scratch) {
                Err((k, _)) if k == want => {
                    seen.insert(format!("{label} -> {k}"));
                }
                other => {
                    eprintln!("FAIL {label}: expected {want}, got {:?}", other.map_err(|e| e.0));
                    failures += 1;
                }
            }
        };
        // a slot emitted under a wrongly hashed key
        if let Some(i) = spec.fields.iter().position(|f| f.key.is_none()) {
            let mut x = slots.clone();
            let pos = x.iter().position(|(k, _)| *k == spec.fields[i].expected_key()).unwrap();
            x[pos].0 = wrong_key(&spec.fields[i], 0);
            expect_slots("slot emitted under a key with domain byte 1", &sizes, &x, "emitted-slot-belongs-to-no-field");
        }
        // one slot more than the field has
        {
            let f = &spec.fields[0];
            let mut x = slots.clone();
            let extra = key_add(&f.expected_key(), slots_of(sizes[0])).unwrap();
            if !x.iter().any(|(k, _)| *k == extra) {
                x.push((extra, [0u8; 32]));
                expect_slots("a slot beyond the end of a field", &sizes, &x, "emitted-slot-belongs-to-no-field");
            }
        }
        // two fields with adjacent explicit keys: if the first were one slot larger they overlap
        for i in 0..spec.fields.len() {
            for j in 0..spec.fields.len() {
                if i != j && spec.fields[i].key.is_some() && key_add(&spec.fields[i].expected_key(), slots_of(sizes[i])) == Some(spec.fields[j].expected_key()) {
                    let mut s2 = sizes.clone();
                    s2[i] += 32;
                    expect_slots("adjacent explicit fields, the first one slot larger", &s2, &slots, "field-slot-ranges-overlap");
                }
            }
        }
    }
    if verbose {
        for s in &seen {
            println!("ok   {s}");
        }
        println!("c12selftest: {honest_ok} honest packages accepted, {} corruption classes detected, {failures} failures", seen.len());
    }
    (if failures == 0 && honest_ok > 0 && seen.len() >= 10 { 0 } else { 1 }, seen.len())
}

/// `swverif c12gen <seed> <shard> <index>`: print the generated package
fn subcommand(args: &[String]) -> Option<i32> {
    if args.first().map(|s| s.as_str()) == Some("c12selftest") {
        return Some(selftest(true).0);
    }
    if args.first().map(|s| s.as_str()) != Some("c12gen") {
        return None;
    }
    let n: Vec<u64> = args[1..4].iter().map(|s| s.parse().expect("number")).collect();
    let spec = case_spec(n[0], n[1], n[2]);
    println!("{}", render(&spec));
    Some(0)
}
