//! C08: register allocation never clobbers a live value.
//! Monitor (hook H3): the allocator hands every allocated function (virtual-register ops after
//! coalescing and spilling + the virtual->machine register map) to the harness; an offline
//! checker recomputes liveness with its own block-level backward data-flow and checks that no
//! definition overwrites a machine register that holds another live virtual register, and
//! that spill slots are private to one virtual register and lie inside the spill area.
use crate::common::*;
use crate::engine::*;
use crate::swrun::*;
use crate::{Plan, Prop};
use serde_json::{json, Value};
use std::cell::RefCell;
use std::collections::{BTreeMap, BTreeSet, HashMap};
use std::panic::AssertUnwindSafe;
use std::rc::Rc;

pub static META: PropertyMeta = PropertyMeta {
    id: "C08",
    level: "exploration",
    rule: "every function the register allocator processes while compiling SwGen programs (register-pressure mode weighted up; debug and release; std functions pulled in by the programs included): independent liveness + clobber check at every definition, spill-slot privacy and bounds; an evaluation = one allocated function; non-trivial = function with >= 8 virtual registers and >= 2 basic blocks, or with spills; distinct = hash of the function's op texts",
    assumptions: &[
        "the allocator's input (virtual ops) is taken as the program to preserve; def/use sets come from the harness's own table parsed from the printed op where the mnemonic is known, otherwise from the compiler (counted)",
        "the behavioural half (allocated code behaves like the virtual-register program) is observed by C01's executions, whose register-pressure mode forces spills",
    ],
    floor_evaluations: 500,
    floor_nontrivial: 100,
    required_counters: &["definitions_checked", "functions_with_spills", "coalesced_or_plain_moves_seen", "max_live_set", "functions_with_multi_def_instructions"],
};

pub static PROP: Prop = Prop {
    meta: &META,
    plan: |t| Plan { nshards: 16, budget_s: t.pick(55.0, 540.0), mem_gib: 6 },
    shard,
    replay,
    extra: crate::no_extra,
    subcommand,
};

#[derive(Clone, Debug, serde::Serialize, serde::Deserialize)]
pub struct Rec {
    pub ops: Vec<String>,
    pub comments: Vec<String>,
    pub defs: Vec<Vec<String>>,
    pub uses: Vec<Vec<String>>,
    pub succs: Vec<Vec<usize>>,
    pub mapping: Vec<(String, String)>,
    pub allocated_ops: Vec<String>,
}

fn is_virtual(r: &str) -> bool {
    // virtual registers print as $rN / $tmpN...; constant registers as $zero, $one, $$locbase, ...
    !r.starts_with("$$") && !matches!(r, "$zero" | "$one" | "$of" | "$pc" | "$ssp" | "$sp" | "$fp" | "$hp" | "$err" | "$ggas" | "$cgas" | "$bal" | "$is" | "$ret" | "$retl" | "$flag" | "$ds" | "$cr" | "$ra")
}

/// Own def/use table for the common FuelVM mnemonics: (number of leading defined registers).
/// Returns None for mnemonics the table does not know (the compiler's sets are used then).
fn own_def_use(op: &str) -> Option<(Vec<String>, Vec<String>)> {
    let text = op.split(';').next().unwrap_or(op).trim();
    let mut parts = text.split_whitespace();
    let mnem = parts.next()?;
    let regs: Vec<String> = parts.filter(|p| p.starts_with('$')).map(|p| p.trim_end_matches(',').to_string()).collect();
    let ndef = match mnem {
        // rA <- f(rB, rC / imm)
        "add" | "addi" | "and" | "andi" | "div" | "divi" | "eq" | "exp" | "expi" | "gt" | "lt" | "mlog" | "mod" | "modi" | "move" | "movi" | "mroo" | "mul" | "muli" | "not" | "or" | "ori" | "sll" | "slli" | "srl" | "srli" | "sub" | "subi" | "xor" | "xori" | "lw" | "lb" | "lqw" | "lhw" => 1,
        // stores / memory ops / control: no register defined
        "sw" | "sb" | "sqw" | "shw" | "mcp" | "mcpi" | "mcl" | "mcli" | "meq_" | "ret" | "retd" | "rvrt" | "log" | "logd" | "cfe" | "cfei" | "cfs" | "cfsi" | "aloc" | "noop" | "jmp" | "jne" | "ji" | "jnei" | "jnzi" => 0,
        _ => return None,
    };
    if regs.len() < ndef {
        return None;
    }
    let defs = regs[..ndef].to_vec();
    let uses = regs[ndef..].to_vec();
    Some((defs, uses))
}

pub struct CheckOut {
    pub violations: Vec<(String, String)>,
    pub defs_checked: u64,
    pub max_live: u64,
    pub spills: u64,
    pub refills_checked: u64,
    pub moves: u64,
    pub own_table_ops: u64,
    pub fallback_ops: u64,
    pub table_disagreements: u64,
    pub blocks: usize,
    pub vregs: usize,
}

pub fn check(rec: &Rec) -> CheckOut {
    let n = rec.ops.len();
    let mut out = CheckOut { violations: vec![], defs_checked: 0, max_live: 0, spills: 0, refills_checked: 0, moves: 0, own_table_ops: 0, fallback_ops: 0, table_disagreements: 0, blocks: 0, vregs: 0 };
    let map: HashMap<&str, &str> = rec.mapping.iter().map(|(v, p)| (v.as_str(), p.as_str())).collect();
    // dense ids for virtual registers
    let mut ids: HashMap<String, usize> = HashMap::new();
    let mut names: Vec<String> = vec![];
    let mut defs: Vec<Vec<usize>> = vec![vec![]; n];
    let mut uses: Vec<Vec<usize>> = vec![vec![]; n];
    for i in 0..n {
        let comp_d: BTreeSet<String> = rec.defs[i].iter().filter(|r| is_virtual(r)).cloned().collect();
        let comp_u: BTreeSet<String> = rec.uses[i].iter().filter(|r| is_virtual(r)).cloned().collect();
        let (d, u) = match own_def_use(&rec.ops[i]) {
            Some((d, u)) => {
                out.own_table_ops += 1;
                let d: BTreeSet<String> = d.into_iter().filter(|r| is_virtual(r)).collect();
                let u: BTreeSet<String> = u.into_iter().filter(|r| is_virtual(r)).collect();
                if d != comp_d || u != comp_u {
                    out.table_disagreements += 1;
                    // the printed form may not show every operand; prefer the union so that nothing live is missed
                    (d.union(&comp_d).cloned().collect::<BTreeSet<_>>(), u.union(&comp_u).cloned().collect::<BTreeSet<_>>())
                } else {
                    (d, u)
                }
            }
            None => {
                out.fallback_ops += 1;
                (comp_d, comp_u)
            }
        };
        for (set, dst) in [(d, &mut defs[i]), (u, &mut uses[i])] {
            for r in set {
                let id = *ids.entry(r.clone()).or_insert_with(|| {
                    names.push(r.clone());
                    names.len() - 1
                });
                dst.push(id);
            }
        }
    }
    let nv = names.len();
    out.vregs = nv;
    if n == 0 || nv == 0 {
        return out;
    }
    // basic blocks: leaders = 0, successors of multi-succ/non-fallthrough ops, targets
    let mut leader = vec![false; n];
    leader[0] = true;
    let mut preds_count = vec![0usize; n];
    for i in 0..n {
        for &s in &rec.succs[i] {
            if s < n {
                preds_count[s] += 1;
                if s != i + 1 {
                    leader[s] = true;
                }
            }
        }
        if rec.succs[i].len() != 1 || rec.succs[i].first() != Some(&(i + 1)) {
            if i + 1 < n {
                leader[i + 1] = true;
            }
        }
    }
    let mut block_of = vec![0usize; n];
    let mut blocks: Vec<(usize, usize)> = vec![];
    let mut start = 0;
    for i in 1..=n {
        if i == n || leader[i] {
            blocks.push((start, i));
            start = i;
        }
    }
    for (b, (s, e)) in blocks.iter().enumerate() {
        for i in *s..*e {
            block_of[i] = b;
        }
    }
    out.blocks = blocks.len();
    let words = nv.div_ceil(64);
    let nb = blocks.len();
    let mut gen = vec![vec![0u64; words]; nb];
    let mut kill = vec![vec![0u64; words]; nb];
    for (b, (s, e)) in blocks.iter().enumerate() {
        for i in (*s..*e).rev() {
            for &d in &defs[i] {
                kill[b][d / 64] |= 1 << (d % 64);
                gen[b][d / 64] &= !(1 << (d % 64));
            }
            for &u in &uses[i] {
                gen[b][u / 64] |= 1 << (u % 64);
            }
        }
    }
    let mut live_in = vec![vec![0u64; words]; nb];
    let mut live_out = vec![vec![0u64; words]; nb];
    let mut changed = true;
    while changed {
        changed = false;
        for b in (0..nb).rev() {
            let last = blocks[b].1 - 1;
            let mut lo = vec![0u64; words];
            for &s in &rec.succs[last] {
                if s < n {
                    let sb = block_of[s];
                    for w in 0..words {
                        lo[w] |= live_in[sb][w];
                    }
                }
            }
            let mut li = vec![0u64; words];
            for w in 0..words {
                li[w] = gen[b][w] | (lo[w] & !kill[b][w]);
            }
            if lo != live_out[b] || li != live_in[b] {
                live_out[b] = lo;
                live_in[b] = li;
                changed = true;
            }
        }
    }
    // walk each block backwards with the running live set; check definitions
    for (b, (s, e)) in blocks.iter().enumerate() {
        let mut live = live_out[b].clone();
        for i in (*s..*e).rev() {
            // live here = live-out of op i
            let cnt: u32 = live.iter().map(|w| w.count_ones()).sum();
            out.max_live = out.max_live.max(cnt as u64);
            let is_move = rec.ops[i].trim_start().starts_with("move ");
            if is_move {
                out.moves += 1;
            }
            for &d in &defs[i] {
                out.defs_checked += 1;
                let Some(pd) = map.get(names[d].as_str()) else {
                    out.violations.push(("virtual-register-without-machine-register".into(), format!("op {i} `{}` defines {} which has no machine register", rec.ops[i], names[d])));
                    continue;
                };
                for w in 0..nv {
                    if w == d || live[w / 64] & (1 << (w % 64)) == 0 {
                        continue;
                    }
                    if map.get(names[w].as_str()) == Some(pd) {
                        // coalescing exception: `move d, w` may share the register of its source
                        if is_move && uses[i].contains(&w) {
                            continue;
                        }
                        out.violations.push((
                            "live-register-clobbered".into(),
                            format!("op {i} `{}` defines {} in {} while {} (same machine register) is live across it", rec.ops[i], names[d], pd, names[w]),
                        ));
                    }
                }
            }
            for &d in &defs[i] {
                live[d / 64] &= !(1 << (d % 64));
            }
            for &u in &uses[i] {
                live[u / 64] |= 1 << (u % 64);
            }
        }
    }
    // spill slots: (op index, is_store, vreg, slot)
    let mut slot_of: BTreeMap<String, BTreeSet<u64>> = BTreeMap::new();
    let mut slot_ops: Vec<Option<(bool, String, u64)>> = vec![None; n];
    let mut frame: Option<u64> = None;
    let mut spill_bytes: u64 = 0;
    for i in 0..n {
        let full = rec.ops[i].trim();
        let text = full.split(';').next().unwrap_or(full).trim();
        let comment = format!("{} {}", full.split_once(';').map(|x| x.1).unwrap_or(""), rec.comments[i]);
        if text.starts_with("cfei") {
            frame = text.split_whitespace().filter_map(|t| t.trim_start_matches('i').parse::<u64>().ok()).last();
            for part in comment.split("register spills ").skip(1) {
                if let Some(b) = part.split_whitespace().next().and_then(|x| x.parse::<u64>().ok()) {
                    spill_bytes += b;
                }
            }
        }
        let is_store = comment.contains("[spill/refill]: spill");
        let is_refill = comment.contains("[spill/refill]: refill from spill");
        if is_store || is_refill {
            // sw $$locbase vX iN   |   lw vX $$locbase iN   (far slots go through an address register: not tracked)
            let toks: Vec<&str> = text.split_whitespace().collect();
            if toks.len() >= 4 && toks.iter().any(|t| *t == "$$locbase") && matches!(toks[0], "sw" | "lw") {
                let v = toks.iter().skip(1).find(|t| t.starts_with('$') && is_virtual(t)).map(|s| s.to_string());
                let off = toks.last().and_then(|t| t.trim_start_matches('i').parse::<u64>().ok());
                if let (Some(v), Some(off)) = (v, off) {
                    slot_of.entry(v.clone()).or_default().insert(off);
                    slot_ops[i] = Some((toks[0] == "sw", v, off));
                }
            }
        }
    }
    out.spills = slot_of.len() as u64;
    // which virtual register's value can a slot hold at each refill? forward data flow over the
    // blocks: a spill store sets the slot's content to {vreg}; at a refill of vreg X from slot N
    // every reaching content of N must be X (two simultaneously live values in one slot show up
    // as a refill that can see the other value)
    if out.spills > 0 {
        type State = BTreeMap<u64, BTreeSet<String>>;
        let mut preds: Vec<Vec<usize>> = vec![vec![]; nb];
        for (b, (_, e)) in blocks.iter().enumerate() {
            for &s2 in &rec.succs[*e - 1] {
                if s2 < n {
                    preds[block_of[s2]].push(b);
                }
            }
        }
        let transfer = |b: usize, st: &mut State, report: Option<&mut Vec<(String, String)>>| {
            let mut report = report;
            for i in blocks[b].0..blocks[b].1 {
                if let Some((store, v, slot)) = &slot_ops[i] {
                    if *store {
                        st.insert(*slot, [v.clone()].into_iter().collect());
                    } else if let Some(rep) = report.as_deref_mut() {
                        if let Some(content) = st.get(slot) {
                            if content.iter().any(|c| c != v) {
                                rep.push(("spill-slot-holds-another-value-at-refill".into(), format!("op {i} `{}` refills {v} from slot {slot}, which can hold {content:?} there", rec.ops[i])));
                            }
                        }
                    }
                }
            }
        };
        let mut outs: Vec<State> = vec![State::new(); nb];
        let mut changed = true;
        let mut rounds = 0;
        while changed && rounds < 200 {
            changed = false;
            rounds += 1;
            for b in 0..nb {
                let mut st = State::new();
                for &p in &preds[b] {
                    for (k, v) in &outs[p] {
                        st.entry(*k).or_default().extend(v.iter().cloned());
                    }
                }
                transfer(b, &mut st, None);
                if st != outs[b] {
                    outs[b] = st;
                    changed = true;
                }
            }
        }
        for b in 0..nb {
            let mut st = State::new();
            for &p in &preds[b] {
                for (k, v) in &outs[p] {
                    st.entry(*k).or_default().extend(v.iter().cloned());
                }
            }
            let mut rep = vec![];
            transfer(b, &mut st, Some(&mut rep));
            out.refills_checked += slot_ops[blocks[b].0..blocks[b].1].iter().filter(|o| matches!(o, Some((false, _, _)))).count() as u64;
            out.violations.extend(rep);
        }
    }
    for (_, slots) in &slot_of {
        for slot in slots {
            if let Some(f) = frame {
                if slot * 8 + 8 > f {
                    out.violations.push(("spill-slot-outside-frame".into(), format!("spill slot {slot} lies outside the {f}-byte frame")));
                }
                if spill_bytes > 0 && slot * 8 < f.saturating_sub(spill_bytes) {
                    out.violations.push(("spill-slot-overlaps-locals".into(), format!("spill slot {slot} lies below the spill area (frame {f}, spill bytes {spill_bytes})")));
                }
            }
        }
    }
    out
}

pub fn collect<T>(f: impl FnOnce() -> T) -> (T, Vec<Rec>) {
    let recs: Rc<RefCell<Vec<Rec>>> = Rc::new(RefCell::new(vec![]));
    let r2 = recs.clone();
    sway_core::verif::set_regalloc_hook(Some(Box::new(move |r| {
        r2.borrow_mut().push(Rec { ops: r.ops, comments: r.comments, defs: r.defs, uses: r.uses, succs: r.succs, mapping: r.mapping, allocated_ops: r.allocated_ops });
    })));
    struct G;
    impl Drop for G {
        fn drop(&mut self) {
            sway_core::verif::set_regalloc_hook(None);
        }
    }
    let _g = G;
    let out = f();
    drop(_g);
    let v = recs.borrow().clone();
    (out, v)
}

fn absorb(rec: &Rec, what: &str, res: &mut ShardResult, seen: &mut BTreeSet<u64>) {
    let h = hash64(rec.ops.join("\n").as_bytes());
    if !seen.insert(h) {
        res.count("functions_seen_again_skipped");
        return;
    }
    res.evaluations += 1;
    let o = check(rec);
    res.add("definitions_checked", o.defs_checked);
    res.add("ops_own_table", o.own_table_ops);
    res.add("ops_compiler_sets_fallback", o.fallback_ops);
    res.add("own_table_vs_compiler_disagreements", o.table_disagreements);
    res.add("coalesced_or_plain_moves_seen", o.moves);
    res.max("max_live_set", o.max_live);
    res.max("max_ops_in_function", rec.ops.len() as u64);
    if o.spills > 0 {
        res.count("functions_with_spills");
        res.max("max_spilled_registers", o.spills);
        res.add("spill_refills_checked", o.refills_checked);
    }
    if (o.vregs >= 8 && o.blocks >= 2) || o.spills > 0 {
        res.note_nontrivial(h);
    }
    for (sig, desc) in o.violations.iter().take(3) {
        res.violation(format!("{sig}"), format!("{what}: {desc}"), json!({"record": rec}));
    }
    if res.samples.is_empty() && o.spills > 0 {
        res.sample(json!({"function_ops": rec.ops.len(), "virtual_registers": o.vregs, "blocks": o.blocks, "spilled": o.spills, "max_live": o.max_live, "first_ops": rec.ops.iter().take(12).collect::<Vec<_>>(), "mapping_sample": rec.mapping.iter().take(8).collect::<Vec<_>>()}));
    }
}

/// A script that keeps `n` values alive at once (defined from the two inputs, all used after the
/// last definition, half of them also inside a loop), so that release builds (after mem2reg)
/// exceed the allocatable registers and spill. Returns (source, script data, expected result).
fn pressure_script(rng: &mut rand::rngs::StdRng) -> (String, Vec<u8>, u64) {
    use rand::Rng;
    let n = rng.gen_range(40..=90usize);
    let x: u64 = rng.gen();
    let y: u64 = rng.gen();
    let (a, b) = (x & 0xffff, y & 0xffff);
    let mut src = String::from("script;\nfn main(x: u64, y: u64) -> u64 {\n    let a: u64 = x & 0xffffu64;\n    let b: u64 = y & 0xffffu64;\n");
    let mut vals = vec![];
    for k in 0..n {
        let c: u64 = rng.gen_range(1..1000);
        let d: u64 = rng.gen_range(0..1000);
        let (text, v) = match rng.gen_range(0..4) {
            0 => (format!("a * {c}u64 + b + {d}u64"), a * c + b + d),
            1 => (format!("(a ^ {c}u64) + b * {d}u64"), (a ^ c) + b * d),
            2 => (format!("(a + {c}u64) * (b + {d}u64)"), (a + c) * (b + d)),
            _ => (format!("(a | {c}u64) + (b & {d}u64)"), (a | c) + (b & d)),
        };
        src.push_str(&format!("    let v{k}: u64 = {text};\n"));
        vals.push(v);
    }
    let rounds: u64 = rng.gen_range(1..4);
    let mut order: Vec<usize> = (0..n).collect();
    for i in (1..n).rev() {
        order.swap(i, rng.gen_range(0..=i));
    }
    let (in_loop, after) = order.split_at(n / 2);
    src.push_str("    let mut i: u64 = 0u64;\n    let mut acc: u64 = 0u64;\n");
    src.push_str(&format!("    while i < {rounds}u64 {{\n        acc = acc + {};\n        i += 1u64;\n    }}\n", in_loop.iter().map(|k| format!("v{k}")).collect::<Vec<_>>().join(" + ")));
    src.push_str(&format!("    acc + {}\n}}\n", after.iter().map(|k| format!("v{k}")).collect::<Vec<_>>().join(" + ")));
    let expected = rounds * in_loop.iter().map(|k| vals[*k]).sum::<u64>() + after.iter().map(|k| vals[*k]).sum::<u64>();
    let mut data = x.to_be_bytes().to_vec();
    data.extend(y.to_be_bytes());
    (src, data, expected)
}

/// A contract method that keeps `n` values alive across storage-word reads (`srw` defines two
/// registers at once: the word and the "slot was set" flag). Only compiled, not run.
fn storage_pressure_contract(rng: &mut rand::rngs::StdRng) -> String {
    use rand::Rng;
    let n = rng.gen_range(3..=24usize);
    let reads = rng.gen_range(1..=3usize);
    let mut src = String::from("contract;\nabi A {\n    #[storage(read)]\n    fn f(x: u64, y: u64, k: b256) -> u64;\n}\nimpl A for Contract {\n    #[storage(read)]\n    fn f(x: u64, y: u64, k: b256) -> u64 {\n");
    for k in 0..n {
        let c: u64 = rng.gen_range(1..1000);
        src.push_str(&format!("        let v{k}: u64 = (x & 0xffffu64) * {c}u64 + (y & 0xffu64) + {k}u64;\n"));
    }
    for r in 0..reads {
        src.push_str(&format!("        let w{r}: u64 = __state_load_word(k);\n"));
    }
    let mut terms: Vec<String> = (0..n).map(|k| format!("v{k}")).collect();
    terms.extend((0..reads).map(|r| format!("w{r}")));
    for i in (1..terms.len()).rev() {
        terms.swap(i, rng.gen_range(0..=i));
    }
    src.push_str(&format!("        {}\n    }}\n}}\n", terms.join(" + ")));
    src
}

fn shard(ctx: &ShardCtx) -> ShardResult {
    let mut res = ShardResult::default();
    let mut am = Amortised::new(&ctx.work());
    if let Err(e) = am.warm() {
        res.harness_fault = Some(format!("std does not compile: {e}"));
        return res;
    }
    let mut seen = BTreeSet::new();
    let clock = ctx.clock();
    let mut i = ctx.first_index;
    while clock.left() {
        let mut rng = ctx.rng(i);
        if i % 4 == 1 {
            // synthetic high-pressure script: must spill in release, and must still compute
            // the value calculated here
            let (src, data, expected) = pressure_script(&mut rng);
            res.count("mode.synthetic_pressure");
            for profile in Profile::BOTH {
                ctx.begin_case(i, &format!("// C08 {} synthetic pressure\n{src}", profile.name()), &res);
                let (r, recs) = collect(|| catch(AssertUnwindSafe(|| am.compile("gencase", &src, profile))));
                ctx.end_case();
                match r {
                    Ok(Ok(c)) => {
                        let obs = run_script(&c.pkg.bytecode.bytes, &data);
                        res.count("pressure_scripts_executed");
                        if !matches!(&obs.outcome, Outcome::ReturnData(b) if b == &expected.to_be_bytes().to_vec()) {
                            res.violation(format!("allocated-program-computes-wrong-value:{:016x}", hash64(src.as_bytes())), format!("[{}] synthetic pressure script returned {} instead of {expected:016x}", profile.name(), obs.short()), json!({"source": src, "data": hex::encode(&data), "expected": expected}));
                        }
                        am.remove(&c)
                    }
                    _ => {
                        res.count("rejected");
                        let _ = std::fs::remove_dir_all(am.last_dir());
                    }
                }
                for rec in &recs {
                    absorb(rec, &format!("{} build of a synthetic pressure script", profile.name()), &mut res, &mut seen);
                }
            }
            i += 1;
            continue;
        }
        if i % 4 == 3 {
            // synthetic contract with values live across storage-word reads (compiled only)
            let src = storage_pressure_contract(&mut rng);
            res.count("mode.synthetic_storage_contract");
            for profile in Profile::BOTH {
                ctx.begin_case(i, &format!("// C08 {} synthetic storage contract\n{src}", profile.name()), &res);
                let (r, recs) = collect(|| catch(AssertUnwindSafe(|| am.compile("gencase", &src, profile))));
                ctx.end_case();
                match r {
                    Ok(Ok(c)) => {
                        res.count("storage_contracts_compiled");
                        am.remove(&c)
                    }
                    _ => {
                        res.count("rejected");
                        let _ = std::fs::remove_dir_all(am.last_dir());
                    }
                }
                for rec in &recs {
                    if rec.ops.iter().any(|o| o.trim_start().starts_with("srw ")) {
                        res.count("functions_with_multi_def_instructions");
                    }
                    absorb(rec, &format!("{} build of a synthetic storage contract", profile.name()), &mut res, &mut seen);
                }
            }
            i += 1;
            continue;
        }
        let mut scratch = ShardResult::default();
        // weight the register-pressure mode up
        let mode = if i % 3 == 0 { crate::swgen_gen::Mode::Pressure } else { crate::swgen_gen::Mode::pick(&mut rng) };
        let case = make_case_mode(&mut rng, mode, 1, &mut scratch);
        res.count(&format!("mode.{}", mode.name()));
        for profile in Profile::BOTH {
            ctx.begin_case(i, &format!("// C08 {} \n{}", profile.name(), case.src), &res);
            let (r, recs) = collect(|| catch(AssertUnwindSafe(|| am.compile("gencase", &case.src, profile))));
            ctx.end_case();
            match r {
                Ok(Ok(c)) => am.remove(&c),
                _ => {
                    res.count("rejected");
                    let _ = std::fs::remove_dir_all(am.last_dir());
                }
            }
            for rec in &recs {
                absorb(rec, &format!("{} build of a generated program", profile.name()), &mut res, &mut seen);
            }
        }
        i += 1;
    }
    res
}

fn replay(v: &Value) -> ShardResult {
    let mut res = ShardResult::default();
    if let (Some(src), Some(data), Some(expected)) = (v.get("source").and_then(|x| x.as_str()), v.get("data").and_then(|x| x.as_str()), v.get("expected").and_then(|x| x.as_u64())) {
        let work = work_dir("C08").join("replay");
        clean_dir(&work);
        let mut am = Amortised::new(&work);
        for profile in Profile::BOTH {
            res.evaluations += 1;
            if let Ok(Ok(c)) = catch(AssertUnwindSafe(|| am.compile("gencase", src, profile))) {
                let obs = run_script(&c.pkg.bytecode.bytes, &hex::decode(data).unwrap_or_default());
                if !matches!(&obs.outcome, Outcome::ReturnData(b) if b == &expected.to_be_bytes().to_vec()) {
                    res.violation(format!("allocated-program-computes-wrong-value:{:016x}", hash64(src.as_bytes())), format!("[{}] returned {} instead of {expected:016x}", profile.name(), obs.short()), v.clone());
                }
            }
        }
        return res;
    }
    match serde_json::from_value::<Rec>(v["record"].clone()) {
        Ok(rec) => {
            let mut seen = BTreeSet::new();
            absorb(&rec, "replayed record", &mut res, &mut seen);
        }
        Err(e) => res.harness_fault = Some(format!("bad record: {e}")),
    }
    res
}

/// `swverif c08-dump <file.sw>`: print the allocator records of a program (triage helper)
fn subcommand(args: &[String]) -> Option<i32> {
    if args.first().map(|s| s.as_str()) != Some("c08-dump") {
        return None;
    }
    let src = std::fs::read_to_string(&args[1]).expect("read");
    let work = work_dir("c08dump");
    clean_dir(&work);
    let mut am = Amortised::new(&work);
    let profile = if std::env::var("C08_RELEASE").is_ok() { Profile::Release } else { Profile::Debug };
    let (_, recs) = collect(|| am.compile("gencase", &src, profile));
    // the last records belong to the program's own functions
    for rec in recs.iter().rev().take(2) {
        let o = check(rec);
        println!("--- function: {} ops, {} vregs, {} blocks, spills {}, max live {}, own-table ops {}, fallback {}, disagreements {}, violations {:?}", rec.ops.len(), o.vregs, o.blocks, o.spills, o.max_live, o.own_table_ops, o.fallback_ops, o.table_disagreements, o.violations);
        for (i, op) in rec.ops.iter().enumerate().take(60) {
            println!("{i:4} {op:40} | {:40} | d={:?} u={:?} s={:?} ; {}", rec.allocated_ops.get(i).cloned().unwrap_or_default(), rec.defs[i], rec.uses[i], rec.succs[i], rec.comments[i]);
        }
        println!("mapping: {:?}", rec.mapping.iter().take(20).collect::<Vec<_>>());
    }
    Some(0)
}
