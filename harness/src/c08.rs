//! C08: register allocation never clobbers a live value.
//! Monitor (hook H3): the allocator hands every allocated function (virtual-register ops after
//! coalescing and spilling + the virtual->machine register map) to the harness; an offline
//! checker recomputes liveness with its own block-level backward data-flow and checks that no
//! definition overwrites a machine register that holds another live virtual register, and
//! that spill slots are private to one virtual register and lie inside the spill area.
use crate::common::*;
use crate::engine::*;
use crate::swrun::*;
use crate::{Plan, Prop};
use serde_json::{json, Value};
use std::cell::RefCell;
use std::collections::{BTreeMap, BTreeSet, HashMap};
use std::panic::AssertUnwindSafe;
use std::rc::Rc;

pub static META: PropertyMeta = PropertyMeta {
    id: "C08",
    level: "exploration",
    rule: "every function the register allocator processes while compiling SwGen programs (register-pressure mode weighted up; debug and release; std functions pulled in by the programs included): independent liveness + clobber check at every definition, spill-slot privacy and bounds; an evaluation = one allocated function; non-trivial = function with >= 8 virtual registers and >= 2 basic blocks, or with spills; distinct = hash of the function's op texts",
    assumptions: &[
        "the allocator's input (virtual ops) is taken as the program to preserve; def/use sets come from the harness's own table parsed from the printed op where the mnemonic is known, otherwise from the compiler (counted)",
        "the behavioural half (allocated code behaves like the virtual-register program) is observed by C01's executions, whose register-pressure mode forces spills",
    ],
    floor_evaluations: 500,
    floor_nontrivial: 100,
    required_counters: &["definitions_checked", "functions_with_spills", "coalesced_or_plain_moves_seen", "max_live_set"],
};

pub static PROP: Prop = Prop {
    meta: &META,
    plan: |t| Plan { nshards: 16, budget_s: t.pick(55.0, 900.0), mem_gib: 6 },
    shard,
    replay,
    extra: crate::no_extra,
    subcommand,
};

#[derive(Clone, Debug, serde::Serialize, serde::Deserialize)]
pub struct Rec {
    pub ops: Vec<String>,
    pub comments: Vec<String>,
    pub defs: Vec<Vec<String>>,
    pub uses: Vec<Vec<String>>,
    pub succs: Vec<Vec<usize>>,
    pub mapping: Vec<(String, String)>,
    pub allocated_ops: Vec<String>,
}

fn is_virtual(r: &str) -> bool {
    // virtual registers print as $rN / $tmpN...; constant registers as $zero, $one, $$locbase, ...
    !r.starts_with("$$") && !matches!(r, "$zero" | "$one" | "$of" | "$pc" | "$ssp" | "$sp" | "$fp" | "$hp" | "$err" | "$ggas" | "$cgas" | "$bal" | "$is" | "$ret" | "$retl" | "$flag" | "$ds" | "$cr" | "$ra")
}

/// Own def/use table for the common FuelVM mnemonics: (number of leading defined registers).
/// Returns None for mnemonics the table does not know (the compiler's sets are used then).
fn own_def_use(op: &str) -> Option<(Vec<String>, Vec<String>)> {
    let text = op.split(';').next().unwrap_or(op).trim();
    let mut parts = text.split_whitespace();
    let mnem = parts.next()?;
    let regs: Vec<String> = parts.filter(|p| p.starts_with('$')).map(|p| p.trim_end_matches(',').to_string()).collect();
    let ndef = match mnem {
        // rA <- f(rB, rC / imm)
        "add" | "addi" | "and" | "andi" | "div" | "divi" | "eq" | "exp" | "expi" | "gt" | "lt" | "mlog" | "mod" | "modi" | "move" | "movi" | "mroo" | "mul" | "muli" | "not" | "or" | "ori" | "sll" | "slli" | "srl" | "srli" | "sub" | "subi" | "xor" | "xori" | "lw" | "lb" | "lqw" | "lhw" => 1,
        // stores / memory ops / control: no register defined
        "sw" | "sb" | "sqw" | "shw" | "mcp" | "mcpi" | "mcl" | "mcli" | "meq_" | "ret" | "retd" | "rvrt" | "log" | "logd" | "cfe" | "cfei" | "cfs" | "cfsi" | "aloc" | "noop" | "jmp" | "jne" | "ji" | "jnei" | "jnzi" => 0,
        _ => return None,
    };
    if regs.len() < ndef {
        return None;
    }
    let defs = regs[..ndef].to_vec();
    let uses = regs[ndef..].to_vec();
    Some((defs, uses))
}

pub struct CheckOut {
    pub violations: Vec<(String, String)>,
    pub defs_checked: u64,
    pub max_live: u64,
    pub spills: u64,
    pub moves: u64,
    pub own_table_ops: u64,
    pub fallback_ops: u64,
    pub table_disagreements: u64,
    pub blocks: usize,
    pub vregs: usize,
}

pub fn check(rec: &Rec) -> CheckOut {
    let n = rec.ops.len();
    let mut out = CheckOut { violations: vec![], defs_checked: 0, max_live: 0, spills: 0, moves: 0, own_table_ops: 0, fallback_ops: 0, table_disagreements: 0, blocks: 0, vregs: 0 };
    let map: HashMap<&str, &str> = rec.mapping.iter().map(|(v, p)| (v.as_str(), p.as_str())).collect();
    // dense ids for virtual registers
    let mut ids: HashMap<String, usize> = HashMap::new();
    let mut names: Vec<String> = vec![];
    let mut defs: Vec<Vec<usize>> = vec![vec![]; n];
    let mut uses: Vec<Vec<usize>> = vec![vec![]; n];
    for i in 0..n {
        let comp_d: BTreeSet<String> = rec.defs[i].iter().filter(|r| is_virtual(r)).cloned().collect();
        let comp_u: BTreeSet<String> = rec.uses[i].iter().filter(|r| is_virtual(r)).cloned().collect();
        let (d, u) = match own_def_use(&rec.ops[i]) {
            Some((d, u)) => {
                out.own_table_ops += 1;
                let d: BTreeSet<String> = d.into_iter().filter(|r| is_virtual(r)).collect();
                let u: BTreeSet<String> = u.into_iter().filter(|r| is_virtual(r)).collect();
                if d != comp_d || u != comp_u {
                    out.table_disagreements += 1;
                    // the printed form may not show every operand; prefer the union so that nothing live is missed
                    (d.union(&comp_d).cloned().collect::<BTreeSet<_>>(), u.union(&comp_u).cloned().collect::<BTreeSet<_>>())
                } else {
                    (d, u)
                }
            }
            None => {
                out.fallback_ops += 1;
                (comp_d, comp_u)
            }
        };
        for (set, dst) in [(d, &mut defs[i]), (u, &mut uses[i])] {
            for r in set {
                let id = *ids.entry(r.clone()).or_insert_with(|| {
                    names.push(r.clone());
                    names.len() - 1
                });
                dst.push(id);
            }
        }
    }
    let nv = names.len();
    out.vregs = nv;
    if n == 0 || nv == 0 {
        return out;
    }
    // basic blocks: leaders = 0, successors of multi-succ/non-fallthrough ops, targets
    let mut leader = vec![false; n];
    leader[0] = true;
    let mut preds_count = vec![0usize; n];
    for i in 0..n {
        for &s in &rec.succs[i] {
            if s < n {
                preds_count[s] += 1;
                if s != i + 1 {
                    leader[s] = true;
                }
            }
        }
        if rec.succs[i].len() != 1 || rec.succs[i].first() != Some(&(i + 1)) {
            if i + 1 < n {
                leader[i + 1] = true;
            }
        }
    }
    let mut block_of = vec![0usize; n];
    let mut blocks: Vec<(usize, usize)> = vec![];
    let mut start = 0;
    for i in 1..=n {
        if i == n || leader[i] {
            blocks.push((start, i));
            start = i;
        }
    }
    for (b, (s, e)) in blocks.iter().enumerate() {
        for i in *s..*e {
            block_of[i] = b;
        }
    }
    out.blocks = blocks.len();
    let words = nv.div_ceil(64);
    let nb = blocks.len();
    let mut gen = vec![vec![0u64; words]; nb];
    let mut kill = vec![vec![0u64; words]; nb];
    for (b, (s, e)) in blocks.iter().enumerate() {
        for i in (*s..*e).rev() {
            for &d in &defs[i] {
                kill[b][d / 64] |= 1 << (d % 64);
                gen[b][d / 64] &= !(1 << (d % 64));
            }
            for &u in &uses[i] {
                gen[b][u / 64] |= 1 << (u % 64);
            }
        }
    }
    let mut live_in = vec![vec![0u64; words]; nb];
    let mut live_out = vec![vec![0u64; words]; nb];
    let mut changed = true;
    while changed {
        changed = false;
        for b in (0..nb).rev() {
            let last = blocks[b].1 - 1;
            let mut lo = vec![0u64; words];
            for &s in &rec.succs[last] {
                if s < n {
                    let sb = block_of[s];
                    for w in 0..words {
                        lo[w] |= live_in[sb][w];
                    }
                }
            }
            let mut li = vec![0u64; words];
            for w in 0..words {
                li[w] = gen[b][w] | (lo[w] & !kill[b][w]);
            }
            if lo != live_out[b] || li != live_in[b] {
                live_out[b] = lo;
                live_in[b] = li;
                changed = true;
            }
        }
    }
    // walk each block backwards with the running live set; check definitions
    for (b, (s, e)) in blocks.iter().enumerate() {
        let mut live = live_out[b].clone();
        for i in (*s..*e).rev() {
            // live here = live-out of op i
            let cnt: u32 = live.iter().map(|w| w.count_ones()).sum();
            out.max_live = out.max_live.max(cnt as u64);
            let is_move = rec.ops[i].trim_start().starts_with("move ");
            if is_move {
                out.moves += 1;
            }
            for &d in &defs[i] {
                out.defs_checked += 1;
                let Some(pd) = map.get(names[d].as_str()) else {
                    out.violations.push(("virtual-register-without-machine-register".into(), format!("op {i} `{}` defines {} which has no machine register", rec.ops[i], names[d])));
                    continue;
                };
                for w in 0..nv {
                    if w == d || live[w / 64] & (1 << (w % 64)) == 0 {
                        continue;
                    }
                    if map.get(names[w].as_str()) == Some(pd) {
                        // coalescing exception: `move d, w` may share the register of its source
                        if is_move && uses[i].contains(&w) {
                            continue;
                        }
                        out.violations.push((
                            "live-register-clobbered".into(),
                            format!("op {i} `{}` defines {} in {} while {} (same machine register) is live across it", rec.ops[i], names[d], pd, names[w]),
                        ));
                    }
                }
            }
            for &d in &defs[i] {
                live[d / 64] &= !(1 << (d % 64));
            }
            for &u in &uses[i] {
                live[u / 64] |= 1 << (u % 64);
            }
        }
    }
    // spill slots
    let mut slot_of: BTreeMap<String, BTreeSet<u64>> = BTreeMap::new();
    let mut reg_of_slot: BTreeMap<u64, BTreeSet<String>> = BTreeMap::new();
    let mut frame: Option<u64> = None;
    let mut spill_bytes: u64 = 0;
    for i in 0..n {
        let text = rec.ops[i].trim();
        if text.starts_with("cfei") {
            frame = text.split_whitespace().filter_map(|t| t.trim_start_matches('i').parse::<u64>().ok()).last();
            for part in rec.comments[i].split("register spills ").skip(1) {
                if let Some(b) = part.split_whitespace().next().and_then(|x| x.parse::<u64>().ok()) {
                    spill_bytes += b;
                }
            }
        }
        let c = &rec.comments[i];
        if c.contains("[spill/refill]: spill") || c.contains("[spill/refill]: refill from spill") {
            // sw $$locbase vX iN   |   lw vX $$locbase iN   (offset register may be $$tmp for far slots)
            let toks: Vec<&str> = text.split_whitespace().collect();
            if toks.len() >= 4 && toks.iter().any(|t| *t == "$$locbase") {
                let v = toks.iter().skip(1).find(|t| t.starts_with('$') && is_virtual(t)).map(|s| s.to_string());
                let off = toks.last().and_then(|t| t.trim_start_matches('i').parse::<u64>().ok());
                if let (Some(v), Some(off)) = (v, off) {
                    slot_of.entry(v.clone()).or_default().insert(off);
                    reg_of_slot.entry(off).or_default().insert(v);
                }
            }
        }
    }
    out.spills = slot_of.len() as u64;
    for (slot, regs) in &reg_of_slot {
        if regs.len() > 1 {
            out.violations.push(("spill-slot-shared".into(), format!("spill slot {slot} (words from $$locbase) is used by {regs:?}")));
        }
        if let Some(f) = frame {
            if slot * 8 + 8 > f {
                out.violations.push(("spill-slot-outside-frame".into(), format!("spill slot {slot} lies outside the {f}-byte frame")));
            }
            if spill_bytes > 0 && slot * 8 + 8 + spill_bytes < f + 8 && slot * 8 < f.saturating_sub(spill_bytes).saturating_sub(7) {
                out.violations.push(("spill-slot-overlaps-locals".into(), format!("spill slot {slot} lies below the spill area (frame {f}, spill bytes {spill_bytes})")));
            }
        }
    }
    for (v, slots) in &slot_of {
        if slots.len() > 1 {
            out.violations.push(("spilled-register-has-several-slots".into(), format!("{v} is spilled to slots {slots:?}")));
        }
    }
    out
}

pub fn collect<T>(f: impl FnOnce() -> T) -> (T, Vec<Rec>) {
    let recs: Rc<RefCell<Vec<Rec>>> = Rc::new(RefCell::new(vec![]));
    let r2 = recs.clone();
    sway_core::verif::set_regalloc_hook(Some(Box::new(move |r| {
        r2.borrow_mut().push(Rec { ops: r.ops, comments: r.comments, defs: r.defs, uses: r.uses, succs: r.succs, mapping: r.mapping, allocated_ops: r.allocated_ops });
    })));
    struct G;
    impl Drop for G {
        fn drop(&mut self) {
            sway_core::verif::set_regalloc_hook(None);
        }
    }
    let _g = G;
    let out = f();
    drop(_g);
    let v = recs.borrow().clone();
    (out, v)
}

fn absorb(rec: &Rec, what: &str, res: &mut ShardResult, seen: &mut BTreeSet<u64>) {
    let h = hash64(rec.ops.join("\n").as_bytes());
    if !seen.insert(h) {
        res.count("functions_seen_again_skipped");
        return;
    }
    res.evaluations += 1;
    let o = check(rec);
    res.add("definitions_checked", o.defs_checked);
    res.add("ops_own_table", o.own_table_ops);
    res.add("ops_compiler_sets_fallback", o.fallback_ops);
    res.add("own_table_vs_compiler_disagreements", o.table_disagreements);
    res.add("coalesced_or_plain_moves_seen", o.moves);
    res.max("max_live_set", o.max_live);
    res.max("max_ops_in_function", rec.ops.len() as u64);
    if o.spills > 0 {
        res.count("functions_with_spills");
        res.max("max_spilled_registers", o.spills);
    }
    if (o.vregs >= 8 && o.blocks >= 2) || o.spills > 0 {
        res.note_nontrivial(h);
    }
    for (sig, desc) in o.violations.iter().take(3) {
        res.violation(format!("{sig}"), format!("{what}: {desc}"), json!({"record": rec}));
    }
    if res.samples.is_empty() && o.spills > 0 {
        res.sample(json!({"function_ops": rec.ops.len(), "virtual_registers": o.vregs, "blocks": o.blocks, "spilled": o.spills, "max_live": o.max_live, "first_ops": rec.ops.iter().take(12).collect::<Vec<_>>(), "mapping_sample": rec.mapping.iter().take(8).collect::<Vec<_>>()}));
    }
}

fn shard(ctx: &ShardCtx) -> ShardResult {
    let mut res = ShardResult::default();
    let mut am = Amortised::new(&ctx.work());
    if let Err(e) = am.warm() {
        res.harness_fault = Some(format!("std does not compile: {e}"));
        return res;
    }
    let mut seen = BTreeSet::new();
    let clock = ctx.clock();
    let mut i = ctx.first_index;
    while clock.left() {
        let mut rng = ctx.rng(i);
        let mut scratch = ShardResult::default();
        // weight the register-pressure mode up
        let mode = if i % 3 == 0 { crate::swgen_gen::Mode::Pressure } else { crate::swgen_gen::Mode::pick(&mut rng) };
        let case = make_case_mode(&mut rng, mode, 1, &mut scratch);
        res.count(&format!("mode.{}", mode.name()));
        for profile in Profile::BOTH {
            ctx.begin_case(i, &format!("// C08 {} \n{}", profile.name(), case.src), &res);
            let (r, recs) = collect(|| catch(AssertUnwindSafe(|| am.compile("gencase", &case.src, profile))));
            ctx.end_case();
            match r {
                Ok(Ok(c)) => am.remove(&c),
                _ => {
                    res.count("rejected");
                    let _ = std::fs::remove_dir_all(am.last_dir());
                }
            }
            for rec in &recs {
                absorb(rec, &format!("{} build of a generated program", profile.name()), &mut res, &mut seen);
            }
        }
        i += 1;
    }
    res
}

fn replay(v: &Value) -> ShardResult {
    let mut res = ShardResult::default();
    match serde_json::from_value::<Rec>(v["record"].clone()) {
        Ok(rec) => {
            let mut seen = BTreeSet::new();
            absorb(&rec, "replayed record", &mut res, &mut seen);
        }
        Err(e) => res.harness_fault = Some(format!("bad record: {e}")),
    }
    res
}

/// `swverif c08-dump <file.sw>`: print the allocator records of a program (triage helper)
fn subcommand(args: &[String]) -> Option<i32> {
    if args.first().map(|s| s.as_str()) != Some("c08-dump") {
        return None;
    }
    let src = std::fs::read_to_string(&args[1]).expect("read");
    let work = work_dir("c08dump");
    clean_dir(&work);
    let mut am = Amortised::new(&work);
    let (_, recs) = collect(|| am.compile("gencase", &src, Profile::Debug));
    // the last records belong to the program's own functions
    for rec in recs.iter().rev().take(2) {
        let o = check(rec);
        println!("--- function: {} ops, {} vregs, {} blocks, spills {}, max live {}, own-table ops {}, fallback {}, disagreements {}, violations {:?}", rec.ops.len(), o.vregs, o.blocks, o.spills, o.max_live, o.own_table_ops, o.fallback_ops, o.table_disagreements, o.violations);
        for (i, op) in rec.ops.iter().enumerate().take(60) {
            println!("{i:4} {op:40} | {:40} | d={:?} u={:?} s={:?} ; {}", rec.allocated_ops.get(i).cloned().unwrap_or_default(), rec.defs[i], rec.uses[i], rec.succs[i], rec.comments[i]);
        }
        println!("mapping: {:?}", rec.mapping.iter().take(20).collect::<Vec<_>>());
    }
    Some(0)
}
