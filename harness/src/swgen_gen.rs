//! SwGen program generator (type directed). Every generated case is a pure function of the RNG.

use crate::swgen::*;
use num_bigint::BigUint;
use rand::rngs::StdRng;
use rand::Rng;

#[derive(Clone, Copy, Debug, PartialEq, Eq)]
pub enum Mode {
    Plain,
    NearDup,
    ConstRich,
    Pressure,
    AggrHeavy,
    Oob,
}

impl Mode {
    pub fn name(self) -> &'static str {
        match self {
            Mode::Plain => "plain",
            Mode::NearDup => "neardup",
            Mode::ConstRich => "constrich",
            Mode::Pressure => "pressure",
            Mode::AggrHeavy => "aggrheavy",
            Mode::Oob => "oob",
        }
    }
    pub fn pick(rng: &mut StdRng) -> Mode {
        match rng.gen_range(0..100) {
            0..=39 => Mode::Plain,
            40..=54 => Mode::NearDup,
            55..=69 => Mode::ConstRich,
            70..=79 => Mode::Pressure,
            80..=96 => Mode::AggrHeavy,
            _ => Mode::Oob,
        }
    }
}

#[derive(Clone)]
struct VarInfo {
    name: String,
    ty: Ty,
    mutable: bool,
}

pub struct Gen<'r> {
    pub rng: &'r mut StdRng,
    pub mode: Mode,
    types: Types,
    consts: Vec<(Ty, Val)>,
    funcs: Vec<Func>,
    scopes: Vec<Vec<VarInfo>>,
    next_id: usize,
    cur_ret: Ty,
    loop_depth: usize,
    uses_generics: bool,
    /// budget of AST nodes left for the current function
    budget: i64,
    /// variables that must not be assigned (loop counters, ref params being aliased)
    frozen: Vec<String>,
}

const SCALARS: [Ty; 7] = [Ty::U8, Ty::U16, Ty::U32, Ty::U64, Ty::U256, Ty::Bool, Ty::B256];

pub fn gen_int(rng: &mut StdRng, t: &Ty) -> BigUint {
    let bits = t.bits();
    let max = max_of(t);
    match rng.gen_range(0..100) {
        0..=54 => big(rng.gen_range(0..=16)),
        55..=64 => max.clone(),
        65..=69 => &max - big(1),
        70..=79 => {
            let k = rng.gen_range(0..bits);
            pow2(k)
        }
        80..=86 => {
            let k = rng.gen_range(1..bits);
            if rng.gen_bool(0.5) {
                pow2(k) - big(1)
            } else {
                (pow2(k) + big(1)) % pow2(bits)
            }
        }
        _ => {
            let mut bytes = vec![0u8; (bits / 8) as usize];
            rng.fill(&mut bytes[..]);
            // random magnitude
            let keep = rng.gen_range(1..=bytes.len());
            for b in bytes.iter_mut().take((bits / 8) as usize - keep) {
                *b = 0;
            }
            BigUint::from_bytes_be(&bytes)
        }
    }
}

pub fn gen_small_int(rng: &mut StdRng, _t: &Ty) -> BigUint {
    big(rng.gen_range(0..=12))
}

pub fn gen_value(rng: &mut StdRng, t: &Ty, types: &Types, small: bool) -> Val {
    match t {
        Ty::Bool => Val::Bool(rng.gen_bool(0.5)),
        Ty::U8 | Ty::U16 | Ty::U32 | Ty::U64 | Ty::U256 | Ty::B256 => {
            if small {
                Val::Int(gen_small_int(rng, t))
            } else {
                Val::Int(gen_int(rng, t))
            }
        }
        Ty::Tuple(ts) => Val::Tuple(ts.iter().map(|t| gen_value(rng, t, types, small)).collect()),
        Ty::Array(t, n) => Val::Array((0..*n).map(|_| gen_value(rng, t, types, small)).collect()),
        Ty::Struct(i) => Val::Struct(types.structs[*i].clone().iter().map(|t| gen_value(rng, t, types, small)).collect()),
        Ty::Enum(i) => {
            let vs = types.enums[*i].clone();
            let k = rng.gen_range(0..vs.len());
            Val::Enum(k, vs[k].as_ref().map(|t| Box::new(gen_value(rng, t, types, small))))
        }
    }
}

fn e(ty: Ty, k: EK) -> Expr {
    Expr { ty, k: Box::new(k) }
}

impl<'r> Gen<'r> {
    pub fn new(rng: &'r mut StdRng, mode: Mode) -> Self {
        Gen { rng, mode, types: Types::default(), consts: vec![], funcs: vec![], scopes: vec![], next_id: 0, cur_ret: Ty::U64, loop_depth: 0, uses_generics: false, budget: 0, frozen: vec![] }
    }

    fn fresh(&mut self, prefix: &str) -> String {
        self.next_id += 1;
        format!("{prefix}{}", self.next_id)
    }

    fn scalar(&mut self) -> Ty {
        // weight u64 and small ints higher
        match self.rng.gen_range(0..20) {
            0..=2 => Ty::U8,
            3..=4 => Ty::U16,
            5..=6 => Ty::U32,
            7..=11 => Ty::U64,
            12..=14 => Ty::U256,
            15..=17 => Ty::Bool,
            _ => Ty::B256,
        }
    }

    fn any_ty(&mut self, depth: usize) -> Ty {
        let aggr_p = if self.mode == Mode::AggrHeavy { 0.6 } else { 0.3 };
        if depth == 0 || !self.rng.gen_bool(aggr_p) {
            return self.scalar();
        }
        match self.rng.gen_range(0..4) {
            0 => {
                let n = self.rng.gen_range(1..=3);
                Ty::Tuple((0..n).map(|_| self.any_ty(depth - 1)).collect())
            }
            1 => {
                let n = self.rng.gen_range(1..=4);
                Ty::Array(Box::new(self.any_ty(depth - 1)), n)
            }
            2 if !self.types.structs.is_empty() => Ty::Struct(self.rng.gen_range(0..self.types.structs.len())),
            3 if !self.types.enums.is_empty() => Ty::Enum(self.rng.gen_range(0..self.types.enums.len())),
            _ => self.scalar(),
        }
    }

    fn gen_types(&mut self) {
        let (ns, ne) = if self.mode == Mode::AggrHeavy { (self.rng.gen_range(1..=3), self.rng.gen_range(1..=2)) } else { (self.rng.gen_range(0..=2), self.rng.gen_range(0..=2)) };
        for _ in 0..ns {
            let n = self.rng.gen_range(1..=4);
            let fields = (0..n).map(|_| self.any_ty(1)).collect();
            self.types.structs.push(fields);
        }
        for _ in 0..ne {
            let n = self.rng.gen_range(1..=4);
            let vs = (0..n).map(|_| if self.rng.gen_bool(0.35) { None } else { Some(self.any_ty(1)) }).collect();
            self.types.enums.push(vs);
        }
    }

    // ---------------------------------------------------------------- scope helpers

    fn vars(&self) -> Vec<VarInfo> {
        self.scopes.iter().flatten().cloned().collect()
    }

    fn declare(&mut self, name: &str, ty: &Ty, mutable: bool) {
        self.scopes.last_mut().unwrap().push(VarInfo { name: name.to_string(), ty: ty.clone(), mutable });
    }

    /// all read paths (expression) of type `target` reachable from variable `v` (depth <= 2)
    fn paths_from(&mut self, base: Expr, target: &Ty, depth: usize, out: &mut Vec<Expr>) {
        if &base.ty == target {
            out.push(base.clone());
        }
        if depth == 0 {
            return;
        }
        match base.ty.clone() {
            Ty::Tuple(ts) => {
                for (i, t) in ts.iter().enumerate() {
                    self.paths_from(e(t.clone(), EK::TupleGet(base.clone(), i)), target, depth - 1, out);
                }
            }
            Ty::Struct(s) => {
                let fs = self.types.structs[s].clone();
                for (i, t) in fs.iter().enumerate() {
                    self.paths_from(e(t.clone(), EK::Field(base.clone(), i)), target, depth - 1, out);
                }
            }
            Ty::Array(t, n) => {
                // constant in-bounds index (dynamic ones are generated separately)
                let i = self.rng.gen_range(0..n);
                let idx = e(Ty::U64, EK::Lit(Val::Int(big(i as u64))));
                self.paths_from(e((*t).clone(), EK::Index(base.clone(), idx)), target, depth - 1, out);
            }
            _ => {}
        }
    }

    fn var_expr_of(&mut self, target: &Ty) -> Option<Expr> {
        let vars = self.vars();
        let mut out = vec![];
        for v in vars {
            self.paths_from(e(v.ty.clone(), EK::Var(v.name.clone())), target, 2, &mut out);
        }
        if out.is_empty() {
            None
        } else {
            let i = self.rng.gen_range(0..out.len());
            Some(out.swap_remove(i))
        }
    }

    // ---------------------------------------------------------------- expressions

    fn literal(&mut self, t: &Ty) -> Expr {
        let v = gen_value(self.rng, t, &self.types.clone(), false);
        // aggregates as literal expressions are printed through `lit`
        e(t.clone(), EK::Lit(v))
    }

    fn small_u64(&mut self, lo: u64, hi: u64) -> Expr {
        e(Ty::U64, EK::Lit(Val::Int(big(self.rng.gen_range(lo..=hi)))))
    }

    fn int_lit(&mut self, t: &Ty, v: u64) -> Expr {
        e(t.clone(), EK::Lit(Val::Int(big(v))))
    }

    pub fn expr(&mut self, t: &Ty, depth: usize) -> Expr {
        self.budget -= 1;
        let leaf = depth == 0 || self.budget <= 0;
        if leaf {
            return self.leaf(t);
        }
        // prefer variables moderately
        if self.rng.gen_bool(0.18) {
            return self.leaf(t);
        }
        match t {
            Ty::U8 | Ty::U16 | Ty::U32 | Ty::U64 | Ty::U256 => self.int_expr(t, depth),
            Ty::Bool => self.bool_expr(depth),
            Ty::B256 => self.b256_expr(depth),
            _ => self.aggr_expr(t, depth),
        }
    }

    fn leaf(&mut self, t: &Ty) -> Expr {
        let lit_p = if self.mode == Mode::ConstRich { 0.5 } else { 0.2 };
        if !self.rng.gen_bool(lit_p) {
            if let Some(v) = self.var_expr_of(t) {
                return v;
            }
        }
        // constants
        if self.rng.gen_bool(0.3) {
            let cs: Vec<usize> = self.consts.iter().enumerate().filter(|(_, (ct, _))| ct == t).map(|(i, _)| i).collect();
            if !cs.is_empty() {
                let c = cs[self.rng.gen_range(0..cs.len())];
                return e(t.clone(), EK::Const(c));
            }
        }
        self.literal(t)
    }

    fn common(&mut self, t: &Ty, depth: usize) -> Option<Expr> {
        // productions available for every type
        match self.rng.gen_range(0..100) {
            0..=9 => {
                let c = self.bool_expr(depth - 1);
                let a = self.block(t, depth - 1, 1);
                let b = self.block(t, depth - 1, 1);
                Some(e(t.clone(), EK::If(c, a, b)))
            }
            10..=15 => Some(self.match_expr(t, depth)),
            16..=23 => self.call_expr(t, depth),
            24..=26 => {
                let b = self.block(t, depth - 1, 2);
                Some(e(t.clone(), EK::BlockE(b)))
            }
            27..=29 => {
                self.uses_generics = true;
                let c = self.bool_expr(depth - 1);
                let a = self.expr(t, depth - 1);
                let b = self.expr(t, depth - 1);
                Some(e(t.clone(), EK::Pick(c, a, b)))
            }
            30..=31 => {
                self.uses_generics = true;
                let a = self.expr(t, depth - 1);
                let b = self.expr(t, depth - 1);
                Some(e(t.clone(), EK::GpSwapFirst(a, b)))
            }
            32..=35 => self.dyn_index_expr(t, depth),
            _ => None,
        }
    }

    fn dyn_index_expr(&mut self, t: &Ty, depth: usize) -> Option<Expr> {
        // find an array variable with element type t
        let vars = self.vars();
        let cands: Vec<&VarInfo> = vars.iter().filter(|v| matches!(&v.ty, Ty::Array(et, _) if **et == *t)).collect();
        if cands.is_empty() {
            return None;
        }
        let v = cands[self.rng.gen_range(0..cands.len())].clone();
        let n = match &v.ty {
            Ty::Array(_, n) => *n,
            _ => unreachable!(),
        };
        let raw = self.expr(&Ty::U64, depth - 1);
        let idx = if self.mode == Mode::Oob && self.rng.gen_bool(0.5) {
            raw
        } else {
            let nl = self.int_lit(&Ty::U64, n as u64);
            e(Ty::U64, EK::Bin(BinOp::Mod, raw, nl))
        };
        Some(e(t.clone(), EK::Index(e(v.ty.clone(), EK::Var(v.name)), idx)))
    }

    fn tame(&mut self, x: Expr, t: &Ty, k: u64) -> Expr {
        let kl = self.int_lit(t, k);
        e(t.clone(), EK::Bin(BinOp::Mod, x, kl))
    }

    fn int_expr(&mut self, t: &Ty, depth: usize) -> Expr {
        if let Some(x) = self.common(t, depth) {
            return x;
        }
        match self.rng.gen_range(0..100) {
            0..=17 => {
                // add
                let mut a = self.expr(t, depth - 1);
                let mut b = self.expr(t, depth - 1);
                if self.rng.gen_bool(0.75) {
                    let k = if *t == Ty::U8 { 100 } else { 1000 };
                    a = self.tame(a, t, k);
                    b = self.tame(b, t, k);
                }
                e(t.clone(), EK::Bin(BinOp::Add, a, b))
            }
            18..=29 => {
                // sub: mostly guarded
                let a = self.expr(t, depth - 1);
                let b = self.expr(t, depth - 1);
                if self.rng.gen_bool(0.7) {
                    // (a | hi) - (b % k)  cannot underflow when hi >= k
                    let hi = self.int_lit(t, 128);
                    let k = self.int_lit(t, 100);
                    let a2 = e(t.clone(), EK::Bin(BinOp::Or, a, hi));
                    let b2 = e(t.clone(), EK::Bin(BinOp::Mod, b, k));
                    e(t.clone(), EK::Bin(BinOp::Sub, a2, b2))
                } else {
                    e(t.clone(), EK::Bin(BinOp::Sub, a, b))
                }
            }
            30..=41 => {
                let mut a = self.expr(t, depth - 1);
                let mut b = self.expr(t, depth - 1);
                if self.rng.gen_bool(0.8) {
                    let k = if *t == Ty::U8 { 15 } else { 200 };
                    a = self.tame(a, t, k);
                    b = self.tame(b, t, k);
                }
                e(t.clone(), EK::Bin(BinOp::Mul, a, b))
            }
            42..=53 => {
                let op = if self.rng.gen_bool(0.5) { BinOp::Div } else { BinOp::Mod };
                let a = self.expr(t, depth - 1);
                let mut b = self.expr(t, depth - 1);
                if self.rng.gen_bool(0.8) {
                    let one = self.int_lit(t, 1);
                    let seven = self.int_lit(t, 7);
                    b = e(t.clone(), EK::Bin(BinOp::Add, e(t.clone(), EK::Bin(BinOp::Mod, b, seven)), one));
                }
                e(t.clone(), EK::Bin(op, a, b))
            }
            54..=65 => {
                let op = *crate::common::choose(self.rng, &[BinOp::And, BinOp::Or, BinOp::Xor]);
                let a = self.expr(t, depth - 1);
                let b = self.expr(t, depth - 1);
                e(t.clone(), EK::Bin(op, a, b))
            }
            66..=77 => {
                let op = if self.rng.gen_bool(0.5) { BinOp::Shl } else { BinOp::Shr };
                let a = self.expr(t, depth - 1);
                let w = t.bits() as u64;
                let n = if self.rng.gen_bool(0.5) {
                    // literal amounts around interesting points
                    let c = *crate::common::choose(self.rng, &[0, 1, 7, 8, 15, 16, 31, 32, 63, 64, 65, 127, 128, 255, 256, 257, 1000]);
                    let c = if self.rng.gen_bool(0.6) { c.min(w + 1) } else { c };
                    self.int_lit(&Ty::U64, c)
                } else {
                    let x = self.expr(&Ty::U64, depth - 1);
                    let k = self.int_lit(&Ty::U64, w + 2);
                    e(Ty::U64, EK::Bin(BinOp::Mod, x, k))
                };
                e(t.clone(), EK::Bin(op, a, n))
            }
            78..=83 => {
                let a = self.expr(t, depth - 1);
                e(t.clone(), EK::Not(a))
            }
            84..=91 => {
                // widening cast from a smaller int
                let smaller: Vec<Ty> = [Ty::U8, Ty::U16, Ty::U32, Ty::U64].into_iter().filter(|s| s.bits() < t.bits()).collect();
                if smaller.is_empty() {
                    return self.leaf(t);
                }
                let s = smaller[self.rng.gen_range(0..smaller.len())].clone();
                let a = self.expr(&s, depth - 1);
                e(t.clone(), EK::Cast(a))
            }
            92..=95 => {
                // narrowing try cast from a larger int (<= u64)
                let larger: Vec<Ty> = [Ty::U16, Ty::U32, Ty::U64].into_iter().filter(|s| s.bits() > t.bits()).collect();
                if larger.is_empty() || *t == Ty::U256 || *t == Ty::U64 {
                    if *t == Ty::U256 {
                        let a = self.expr(&Ty::B256, depth - 1);
                        return e(t.clone(), EK::Cast(a));
                    }
                    return self.leaf(t);
                }
                let s = larger[self.rng.gen_range(0..larger.len())].clone();
                let a = self.expr(&s, depth - 1);
                let d = self.expr(t, depth - 1);
                e(t.clone(), EK::TryCast(a, d))
            }
            _ => {
                self.uses_generics = true;
                let mut a = self.expr(t, depth - 1);
                if self.rng.gen_bool(0.8) {
                    a = self.tame(a, t, 100);
                }
                e(t.clone(), EK::Tw(a))
            }
        }
    }

    fn bool_expr(&mut self, depth: usize) -> Expr {
        let t = Ty::Bool;
        if depth == 0 {
            return self.leaf(&t);
        }
        if let Some(x) = self.common(&t, depth) {
            return x;
        }
        match self.rng.gen_range(0..100) {
            0..=49 => {
                // comparison of two scalars of the same type
                let st = self.scalar();
                let ops: &[BinOp] = if st == Ty::Bool { &[BinOp::Eq, BinOp::Ne] } else { &[BinOp::Eq, BinOp::Ne, BinOp::Lt, BinOp::Le, BinOp::Gt, BinOp::Ge] };
                let op = *crate::common::choose(self.rng, ops);
                let a = self.expr(&st, depth - 1);
                let b = self.expr(&st, depth - 1);
                e(t, EK::Bin(op, a, b))
            }
            50..=69 => {
                let op = if self.rng.gen_bool(0.5) { BinOp::LAnd } else { BinOp::LOr };
                let mut a = self.bool_expr(depth - 1);
                let b = self.bool_expr(depth - 1);
                // `literal && x` / `literal || x` makes the unchanged compiler fail with an internal
                // error (conditional branch with both targets equal); keep that shape rare
                if matches!(&*a.k, EK::Lit(_)) && !self.rng.gen_bool(0.03) {
                    let st = Ty::U64;
                    let x = self.leaf(&st);
                    let y = self.int_lit(&st, 5);
                    a = e(Ty::Bool, EK::Bin(BinOp::Le, x, y));
                }
                e(t, EK::Bin(op, a, b))
            }
            70..=79 => {
                let a = self.bool_expr(depth - 1);
                e(t, EK::Not(a))
            }
            80..=86 => {
                // tuple equality (std implements PartialEq for small tuples of primitives)
                let t1 = self.scalar();
                let t2 = self.scalar();
                let tt = Ty::Tuple(vec![t1, t2]);
                let a = self.expr(&tt, depth - 1);
                let b = self.expr(&tt, depth - 1);
                let op = if self.rng.gen_bool(0.5) { BinOp::Eq } else { BinOp::Ne };
                e(t, EK::Bin(op, a, b))
            }
            87..=90 => {
                self.uses_generics = true;
                let a = self.bool_expr(depth - 1);
                e(t, EK::Tw(a))
            }
            _ => self.leaf(&t),
        }
    }

    fn b256_expr(&mut self, depth: usize) -> Expr {
        let t = Ty::B256;
        if let Some(x) = self.common(&t, depth) {
            return x;
        }
        match self.rng.gen_range(0..100) {
            0..=39 => {
                let op = *crate::common::choose(self.rng, &[BinOp::And, BinOp::Or, BinOp::Xor]);
                let a = self.expr(&t, depth - 1);
                let b = self.expr(&t, depth - 1);
                e(t, EK::Bin(op, a, b))
            }
            40..=54 => {
                let a = self.expr(&t, depth - 1);
                e(t, EK::Not(a))
            }
            55..=69 => {
                let op = if self.rng.gen_bool(0.5) { BinOp::Shl } else { BinOp::Shr };
                let a = self.expr(&t, depth - 1);
                let c = *crate::common::choose(self.rng, &[0u64, 1, 8, 63, 64, 65, 128, 255, 256, 300]);
                let n = self.int_lit(&Ty::U64, c);
                e(t, EK::Bin(op, a, n))
            }
            70..=84 => {
                let a = self.expr(&Ty::U256, depth - 1);
                e(t, EK::Cast(a))
            }
            _ => self.leaf(&t),
        }
    }

    fn aggr_expr(&mut self, t: &Ty, depth: usize) -> Expr {
        if let Some(x) = self.common(t, depth) {
            return x;
        }
        match t.clone() {
            Ty::Tuple(ts) => {
                let es = ts.iter().map(|t| self.expr(t, depth - 1)).collect();
                e(t.clone(), EK::Tuple(es))
            }
            Ty::Array(et, n) => {
                if self.rng.gen_bool(0.25) {
                    let x = self.expr(&et, depth - 1);
                    e(t.clone(), EK::ArrayRepeat(x, n))
                } else {
                    let es = (0..n).map(|_| self.expr(&et, depth - 1)).collect();
                    e(t.clone(), EK::Array(es))
                }
            }
            Ty::Struct(s) => {
                let fs = self.types.structs[s].clone();
                let es = fs.iter().map(|t| self.expr(t, depth - 1)).collect();
                e(t.clone(), EK::Struct(s, es))
            }
            Ty::Enum(en) => {
                let vs = self.types.enums[en].clone();
                let k = self.rng.gen_range(0..vs.len());
                let p = vs[k].as_ref().map(|pt| self.expr(pt, depth - 1));
                e(t.clone(), EK::EnumNew(en, k, p))
            }
            _ => self.leaf(t),
        }
    }

    fn call_expr(&mut self, t: &Ty, depth: usize) -> Option<Expr> {
        // functions without ref mut params can be called anywhere
        let cands: Vec<usize> = self.funcs.iter().enumerate().filter(|(_, f)| f.ret == *t && f.params.iter().all(|p| !p.2)).map(|(i, _)| i).collect();
        if cands.is_empty() {
            return None;
        }
        let f = cands[self.rng.gen_range(0..cands.len())];
        let ptys: Vec<Ty> = self.funcs[f].params.iter().map(|p| p.1.clone()).collect();
        let args = ptys.iter().map(|pt| self.expr(pt, depth - 1)).collect();
        Some(e(t.clone(), EK::Call(f, args)))
    }

    // ---------------------------------------------------------------- patterns / match

    /// exhaustive arm list for scrutinee type `st`: returns patterns (last one is a catch-all
    /// whenever needed) together with the bindings each introduces.
    fn pattern_for(&mut self, st: &Ty, depth: usize) -> (Pat, Vec<(String, Ty)>) {
        match st.clone() {
            _ if depth == 0 || self.rng.gen_bool(0.2) => {
                if self.rng.gen_bool(0.5) {
                    (Pat::Wild, vec![])
                } else {
                    let n = self.fresh("m");
                    (Pat::Bind(n.clone()), vec![(n, st.clone())])
                }
            }
            Ty::Bool => (Pat::Bool(self.rng.gen_bool(0.5)), vec![]),
            t @ (Ty::U8 | Ty::U16 | Ty::U32 | Ty::U64) => {
                if self.rng.gen_bool(0.3) {
                    let n = self.rng.gen_range(2..=3);
                    (Pat::Or((0..n).map(|_| Pat::Int(gen_small_int(self.rng, &t))).collect()), vec![])
                } else {
                    let cs: Vec<usize> = self.consts.iter().enumerate().filter(|(_, (ct, _))| *ct == t).map(|(i, _)| i).collect();
                    // named-constant patterns make the unchanged compiler fail with an internal error
                    // ("expected all patterns to be of the same type") on most such matches; they are
                    // generated rarely so that the other properties keep their throughput
                    if !cs.is_empty() && self.rng.gen_bool(0.02) {
                        (Pat::Const(cs[self.rng.gen_range(0..cs.len())]), vec![])
                    } else {
                        (Pat::Int(gen_small_int(self.rng, &t)), vec![])
                    }
                }
            }
            Ty::Tuple(ts) => {
                let mut binds = vec![];
                let ps = ts
                    .iter()
                    .map(|t| {
                        let (p, b) = self.pattern_for(t, depth - 1);
                        binds.extend(b);
                        p
                    })
                    .collect();
                (Pat::Tuple(ps), binds)
            }
            Ty::Struct(s) => {
                let fs = self.types.structs[s].clone();
                let mut binds = vec![];
                let ps = fs
                    .iter()
                    .map(|t| {
                        if self.rng.gen_bool(0.3) {
                            None
                        } else {
                            let (p, b) = self.pattern_for(t, depth - 1);
                            binds.extend(b);
                            Some(p)
                        }
                    })
                    .collect();
                (Pat::Struct(s, ps), binds)
            }
            Ty::Enum(en) => {
                let vs = self.types.enums[en].clone();
                let k = self.rng.gen_range(0..vs.len());
                match &vs[k] {
                    Some(pt) => {
                        let (p, b) = self.pattern_for(pt, depth - 1);
                        (Pat::Enum(en, k, Some(Box::new(p))), b)
                    }
                    None => (Pat::Enum(en, k, None), vec![]),
                }
            }
            _ => (Pat::Wild, vec![]),
        }
    }

    fn match_expr(&mut self, t: &Ty, depth: usize) -> Expr {
        // scrutinee type: something matchable
        let st = match self.rng.gen_range(0..10) {
            0..=2 => Ty::U64,
            3 => Ty::U8,
            4 => Ty::Bool,
            5 if !self.types.enums.is_empty() => Ty::Enum(self.rng.gen_range(0..self.types.enums.len())),
            6 if !self.types.structs.is_empty() => Ty::Struct(self.rng.gen_range(0..self.types.structs.len())),
            7 => Ty::Tuple(vec![Ty::Bool, Ty::U8]),
            8 if !self.types.enums.is_empty() => Ty::Tuple(vec![Ty::Enum(0), Ty::Bool]),
            _ => Ty::U16,
        };
        let mut scrut = self.expr(&st, depth - 1);
        if st.is_int() && self.rng.gen_bool(0.7) {
            scrut = self.tame(scrut, &st, 8);
        }
        let mut arms = vec![];
        match &st {
            Ty::Enum(en) if self.rng.gen_bool(0.6) => {
                // one arm per variant in random order -> exhaustive without wildcard
                let n = self.types.enums[*en].len();
                let mut order: Vec<usize> = (0..n).collect();
                for i in (1..n).rev() {
                    let j = self.rng.gen_range(0..=i);
                    order.swap(i, j);
                }
                for k in order {
                    let (p, binds) = match self.types.enums[*en][k].clone() {
                        Some(pt) => {
                            let n = self.fresh("m");
                            (Pat::Enum(*en, k, Some(Box::new(Pat::Bind(n.clone())))), vec![(n, pt)])
                        }
                        None => (Pat::Enum(*en, k, None), vec![]),
                    };
                    let b = self.arm_block(t, depth, &binds);
                    arms.push((p, b));
                }
            }
            Ty::Bool if self.rng.gen_bool(0.6) => {
                let first = self.rng.gen_bool(0.5);
                for v in [first, !first] {
                    let b = self.arm_block(t, depth, &[]);
                    arms.push((Pat::Bool(v), b));
                }
            }
            _ => {
                let n = self.rng.gen_range(1..=3);
                for _ in 0..n {
                    let (p, binds) = self.pattern_for(&st, 2);
                    // an irrefutable pattern ends the list
                    let irrefutable = matches!(p, Pat::Wild | Pat::Bind(_));
                    let b = self.arm_block(t, depth, &binds);
                    arms.push((p, b));
                    if irrefutable {
                        break;
                    }
                }
                if !matches!(arms.last().unwrap().0, Pat::Wild | Pat::Bind(_)) {
                    let b = self.arm_block(t, depth, &[]);
                    arms.push((Pat::Wild, b));
                }
            }
        }
        e(t.clone(), EK::Match(scrut, arms))
    }

    fn arm_block(&mut self, t: &Ty, depth: usize, binds: &[(String, Ty)]) -> Block {
        self.scopes.push(vec![]);
        for (n, bt) in binds {
            self.declare(n, bt, false);
        }
        let b = self.block_noscope(t, depth.saturating_sub(1), 1);
        self.scopes.pop();
        b
    }

    // ---------------------------------------------------------------- statements / blocks

    pub fn block(&mut self, t: &Ty, depth: usize, max_stmts: usize) -> Block {
        self.scopes.push(vec![]);
        let b = self.block_noscope(t, depth, max_stmts);
        self.scopes.pop();
        b
    }

    fn block_noscope(&mut self, t: &Ty, depth: usize, max_stmts: usize) -> Block {
        let n = if self.budget <= 0 || max_stmts == 0 { 0 } else { self.rng.gen_range(0..=max_stmts) };
        let mut stmts = vec![];
        for _ in 0..n {
            self.stmt(depth, &mut stmts);
        }
        let tail = self.expr(t, depth);
        Block { stmts, tail: Some(tail) }
    }

    fn stmts_block(&mut self, depth: usize, max_stmts: usize) -> Vec<Stmt> {
        self.scopes.push(vec![]);
        let n = self.rng.gen_range(1..=max_stmts.max(1));
        let mut stmts = vec![];
        for _ in 0..n {
            self.stmt(depth, &mut stmts);
        }
        self.scopes.pop();
        stmts
    }

    fn mutable_targets(&mut self) -> Vec<(LValue, Ty)> {
        // assignable places: mutable variables and their scalar/aggregate sub-places (depth 1)
        let mut out = vec![];
        for v in self.vars() {
            if !v.mutable || self.frozen.contains(&v.name) {
                continue;
            }
            out.push((LValue { var: v.name.clone(), path: vec![] }, v.ty.clone()));
            match &v.ty {
                Ty::Tuple(ts) => {
                    for (i, t) in ts.iter().enumerate() {
                        out.push((LValue { var: v.name.clone(), path: vec![Access::TupleIdx(i)] }, t.clone()));
                    }
                }
                Ty::Struct(s) => {
                    for (i, t) in self.types.structs[*s].clone().iter().enumerate() {
                        out.push((LValue { var: v.name.clone(), path: vec![Access::Field(i)] }, t.clone()));
                    }
                }
                Ty::Array(t, n) => {
                    let i = self.rng.gen_range(0..*n);
                    out.push((LValue { var: v.name.clone(), path: vec![Access::Index(e(Ty::U64, EK::Lit(Val::Int(big(i as u64)))))] }, (**t).clone()));
                    // dynamic in-bounds index through an immutable u64 variable
                    let idxvars: Vec<VarInfo> = self.vars().into_iter().filter(|x| x.ty == Ty::U64 && x.name != v.name).collect();
                    if !idxvars.is_empty() {
                        let iv = idxvars[self.rng.gen_range(0..idxvars.len())].clone();
                        let nl = self.int_lit(&Ty::U64, *n as u64);
                        let idx = e(Ty::U64, EK::Bin(BinOp::Mod, e(Ty::U64, EK::Var(iv.name)), nl));
                        out.push((LValue { var: v.name.clone(), path: vec![Access::Index(idx)] }, (**t).clone()));
                    }
                }
                _ => {}
            }
        }
        out
    }

    fn likely_true(&mut self, depth: usize) -> Expr {
        // a condition that is true for most inputs but still input dependent
        let t = if self.rng.gen_bool(0.6) { Ty::U64 } else { Ty::U8 };
        let x = self.expr(&t, depth.saturating_sub(1));
        let k = self.int_lit(&t, 16);
        let limv = if self.rng.gen_bool(0.85) { 16 } else { 3 };
        let lim = self.int_lit(&t, limv);
        e(Ty::Bool, EK::Bin(BinOp::Lt, e(t.clone(), EK::Bin(BinOp::Mod, x, k)), lim))
    }

    fn stmt(&mut self, depth: usize, out: &mut Vec<Stmt>) {
        self.budget -= 1;
        let d = depth.saturating_sub(1).max(1);
        let choice = self.rng.gen_range(0..100);
        match choice {
            0..=34 => {
                let t = self.any_ty(2);
                let ex = self.let_init(&t, d);
                let name = self.fresh("v");
                let mutable = self.rng.gen_bool(0.5);
                out.push(Stmt::Let { name: name.clone(), mutable, ty: t.clone(), e: ex });
                self.declare(&name, &t, mutable);
            }
            35..=49 => {
                let targets = self.mutable_targets();
                if targets.is_empty() {
                    return self.stmt_fallback_let(d, out);
                }
                let (l, t) = targets[self.rng.gen_range(0..targets.len())].clone();
                if t.is_int() && self.rng.gen_bool(0.45) {
                    let op = *crate::common::choose(self.rng, &[BinOp::Add, BinOp::Sub, BinOp::Mul, BinOp::Div, BinOp::Shl, BinOp::Shr]);
                    let rhs = match op {
                        BinOp::Shl | BinOp::Shr => self.small_u64(0, 9),
                        BinOp::Div => {
                            let x = self.expr(&t, d);
                            let seven = self.int_lit(&t, 7);
                            let one = self.int_lit(&t, 1);
                            e(t.clone(), EK::Bin(BinOp::Add, e(t.clone(), EK::Bin(BinOp::Mod, x, seven)), one))
                        }
                        BinOp::Mul => {
                            let x = self.expr(&t, d);
                            self.tame(x, &t, 4)
                        }
                        _ => {
                            let x = self.expr(&t, d);
                            self.tame(x, &t, 10)
                        }
                    };
                    out.push(Stmt::OpAssign(op, l, t, rhs));
                } else {
                    let ex = self.expr(&t, d);
                    out.push(Stmt::Assign(l, ex));
                }
            }
            50..=59 => {
                if self.loop_depth >= 2 {
                    return self.stmt_fallback_let(d, out);
                }
                let counter = self.fresh("i");
                let limit = self.rng.gen_range(0..=6);
                self.loop_depth += 1;
                self.scopes.push(vec![]);
                self.declare(&counter, &Ty::U64, false);
                let mut body = self.stmts_block(d, 3);
                // optional break / continue under a condition
                if self.rng.gen_bool(0.4) {
                    let c = self.bool_expr(1);
                    let s = if self.rng.gen_bool(0.5) { Stmt::Break } else { Stmt::Continue };
                    let pos = self.rng.gen_range(0..=body.len());
                    body.insert(pos.min(body.len()), Stmt::If(c, vec![s], vec![]));
                }
                self.scopes.pop();
                // loop-carried values that shift / swap / rotate (`t = a; a = b; b = t;`): copies
                // whose source is redefined on the back edge. The variables are declared right
                // before the loop and logged after it, so the rotation is always observable. Register
                // types only: rotations of u256 / b256 locals in nested loops hit the open finding
                // C01 `witness:memcpyprop-reverse-u256-rotation-in-nested-loop` (kept as a fixed witness).
                let mut rot_vars: Vec<(String, Ty)> = vec![];
                if self.rng.gen_bool(0.5) {
                    let t = crate::common::choose(self.rng, &[Ty::U64, Ty::U64, Ty::U8, Ty::U16, Ty::U32, Ty::Bool]).clone();
                    let k = self.rng.gen_range(2..=3usize);
                    let mut ns = vec![];
                    for _ in 0..k {
                        let name = self.fresh("r");
                        let init = self.let_init(&t, 1);
                        out.push(Stmt::Let { name: name.clone(), mutable: true, ty: t.clone(), e: init });
                        ns.push(name);
                    }
                    let tmp = self.fresh("t");
                    let var = |n: &str| e(t.clone(), EK::Var(n.to_string()));
                    let lv = |n: &str| LValue { var: n.to_string(), path: vec![] };
                    let mut rot = vec![Stmt::Let { name: tmp.clone(), mutable: false, ty: t.clone(), e: var(&ns[0]) }];
                    for j in 0..k - 1 {
                        rot.push(Stmt::Assign(lv(&ns[j]), var(&ns[j + 1])));
                    }
                    rot.push(Stmt::Assign(lv(&ns[k - 1]), var(&tmp)));
                    let pos = self.rng.gen_range(0..=body.len());
                    for (o, st) in rot.into_iter().enumerate() {
                        body.insert((pos + o).min(body.len()), st);
                    }
                    rot_vars = ns.into_iter().map(|n| (n, t.clone())).collect();
                }
                self.loop_depth -= 1;
                let style = if self.rng.gen_bool(0.5) { 1 } else { 0 };
                out.push(Stmt::While { counter: counter.clone(), limit, body, style });
                for (n, t) in rot_vars {
                    out.push(Stmt::Log(e(t.clone(), EK::Var(n.clone()))));
                    // visible (and frozen: not reassigned by later random statements is not needed) afterwards
                    self.declare(&n, &t, true);
                }
                // the counter stays visible after the loop (declared by the printer in the enclosing scope)
                self.declare(&counter, &Ty::U64, false);
            }
            60..=69 => {
                let c = self.bool_expr(d);
                let t = self.stmts_block(d, 2);
                let f = if self.rng.gen_bool(0.5) { self.stmts_block(d, 2) } else { vec![] };
                out.push(Stmt::If(c, t, f));
            }
            70..=79 => {
                let t = if self.rng.gen_bool(0.7) { self.scalar() } else { self.any_ty(2) };
                let ex = self.expr(&t, d);
                out.push(Stmt::Log(ex));
            }
            80..=84 => {
                let c = self.likely_true(d);
                if self.rng.gen_bool(0.5) {
                    out.push(Stmt::Require(c, self.rng.gen_range(1..1000)));
                } else {
                    out.push(Stmt::Assert(c));
                }
            }
            85..=87 => {
                let c = self.likely_true(d);
                let nc = e(Ty::Bool, EK::Not(c));
                out.push(Stmt::RevertIf(nc, self.rng.gen_range(1..1000)));
            }
            88..=92 => {
                // early return under a condition
                let c = self.bool_expr(d);
                let rt = self.cur_ret.clone();
                let rv = self.expr(&rt, d);
                out.push(Stmt::If(c, vec![Stmt::Return(rv)], vec![]));
            }
            _ => {
                // call of a function with ref mut params as a let statement
                let cands: Vec<usize> = self.funcs.iter().enumerate().filter(|(_, f)| f.params.iter().any(|p| p.2)).map(|(i, _)| i).collect();
                if cands.is_empty() {
                    return self.stmt_fallback_let(d, out);
                }
                let f = cands[self.rng.gen_range(0..cands.len())];
                let params = self.funcs[f].params.clone();
                let ret = self.funcs[f].ret.clone();
                let mut args = vec![];
                let mut used: Vec<String> = vec![];
                for (_, pt, is_ref) in &params {
                    if *is_ref {
                        let vs: Vec<VarInfo> = self.vars().into_iter().filter(|v| v.mutable && v.ty == *pt && !used.contains(&v.name) && !self.frozen.contains(&v.name)).collect();
                        if vs.is_empty() {
                            return self.stmt_fallback_let(d, out);
                        }
                        let v = vs[self.rng.gen_range(0..vs.len())].clone();
                        used.push(v.name.clone());
                        args.push(e(pt.clone(), EK::Var(v.name)));
                    } else {
                        // by-value arguments: plain leaves that do not mention the ref'd variables
                        args.push(self.literal(pt));
                    }
                }
                let name = self.fresh("v");
                out.push(Stmt::Let { name: name.clone(), mutable: false, ty: ret.clone(), e: e(ret.clone(), EK::Call(f, args)) });
                self.declare(&name, &ret, false);
            }
        }
    }

    fn stmt_fallback_let(&mut self, d: usize, out: &mut Vec<Stmt>) {
        let t = self.any_ty(1);
        let ex = self.expr(&t, d);
        let name = self.fresh("v");
        out.push(Stmt::Let { name: name.clone(), mutable: true, ty: t.clone(), e: ex });
        self.declare(&name, &t, true);
    }

    fn let_init(&mut self, t: &Ty, d: usize) -> Expr {
        self.expr(t, d)
    }

    // ---------------------------------------------------------------- functions

    fn func(&mut self, name: String, params: Vec<(String, Ty, bool)>, ret: Ty, depth: usize, max_stmts: usize, budget: i64) -> Func {
        self.scopes = vec![vec![]];
        for (n, t, r) in &params {
            self.declare(n, t, *r);
        }
        self.cur_ret = ret.clone();
        self.loop_depth = 0;
        self.budget = budget;
        let mut body = Block::default();
        if self.mode == Mode::Pressure && self.rng.gen_bool(0.5) {
            self.pressure_prefix(&mut body.stmts);
        }
        let b = self.block_noscope(&ret, depth, max_stmts);
        body.stmts.extend(b.stmts);
        body.tail = b.tail;
        let inline_never = self.rng.gen_bool(0.3);
        Func { name, params, ret, body, inline_never }
    }

    /// >= 50 simultaneously live u64 scalars folded together at the end
    fn pressure_prefix(&mut self, out: &mut Vec<Stmt>) {
        let n = self.rng.gen_range(50..=90);
        let mut names = vec![];
        for k in 0..n {
            let name = self.fresh("p");
            let base = self.expr(&Ty::U64, 1);
            let kk = self.int_lit(&Ty::U64, 1000 + k as u64);
            let m = self.int_lit(&Ty::U64, 997);
            let ex = e(Ty::U64, EK::Bin(BinOp::Add, e(Ty::U64, EK::Bin(BinOp::Mod, base, m)), kk));
            out.push(Stmt::Let { name: name.clone(), mutable: false, ty: Ty::U64, e: ex });
            names.push(name);
        }
        // fold: all stay live until here
        let acc = self.fresh("v");
        let mut ex = e(Ty::U64, EK::Var(names[0].clone()));
        for (k, nme) in names.iter().enumerate().skip(1) {
            let v = e(Ty::U64, EK::Var(nme.clone()));
            let op = if k % 3 == 0 { BinOp::Xor } else { BinOp::Add };
            ex = e(Ty::U64, EK::Bin(op, ex, v));
        }
        out.push(Stmt::Let { name: acc.clone(), mutable: true, ty: Ty::U64, e: ex });
        for nme in &names {
            // the individual values are not needed as variables afterwards
            let _ = nme;
        }
        self.declare(&acc, &Ty::U64, true);
        out.push(Stmt::Log(e(Ty::U64, EK::Var(acc))));
    }

    pub fn program(mut self) -> Program {
        self.gen_types();
        let nc = self.rng.gen_range(0..=4);
        for _ in 0..nc {
            let t = match self.rng.gen_range(0..5) {
                0 => Ty::U8,
                1 => Ty::U64,
                2 => Ty::U256,
                3 => Ty::Bool,
                _ => Ty::U16,
            };
            let small = self.rng.gen_bool(0.6);
            let v = gen_value(self.rng, &t, &self.types.clone(), small);
            // distinct constant values per type keep generated matches free of duplicate patterns
            self.consts.push((t, v));
        }
        let np = self.rng.gen_range(2..=5);
        let mut main_params: Vec<Ty> = vec![Ty::U64];
        for _ in 1..np {
            let t = if self.rng.gen_bool(0.75) { self.scalar() } else { self.any_ty(2) };
            main_params.push(t);
        }
        let ret = if self.rng.gen_bool(0.5) { self.scalar() } else { self.any_ty(2) };

        let (depth, max_stmts, budget) = match self.mode {
            Mode::ConstRich => (4, 4, 120),
            Mode::Pressure => (3, 3, 80),
            _ => (4, 5, 140),
        };

        // helpers
        let nh = self.rng.gen_range(0..=4);
        for _ in 0..nh {
            let npar = self.rng.gen_range(1..=3);
            let mut params = vec![];
            for _ in 0..npar {
                let t = self.any_ty(2);
                let is_ref = self.rng.gen_bool(0.15);
                let n = self.fresh("a");
                params.push((n, t, is_ref));
            }
            let rt = if self.rng.gen_bool(0.6) { self.scalar() } else { self.any_ty(2) };
            let name = format!("f{}", self.funcs.len());
            let f = self.func(name, params, rt, depth - 1, max_stmts - 1, budget / 2);
            self.funcs.push(f);
            if self.mode == Mode::NearDup && self.rng.gen_bool(0.7) {
                let orig = self.funcs.last().unwrap().clone();
                if let Some(dup) = near_duplicate(&orig, self.rng, format!("f{}", self.funcs.len())) {
                    self.funcs.push(dup);
                }
            }
        }
        // entries
        let ne = self.rng.gen_range(1..=3);
        let mut entries = vec![];
        for _ in 0..ne {
            let params: Vec<(String, Ty, bool)> = main_params.iter().enumerate().map(|(i, t)| (format!("x{i}"), t.clone(), false)).collect();
            let name = format!("f{}", self.funcs.len());
            let mut f = self.func(name, params, ret.clone(), depth, max_stmts, budget);
            if self.mode == Mode::NearDup {
                // call every near-duplicate pair on the same arguments and log both results
                let mut extra = vec![];
                let n = self.funcs.len();
                for i in 0..n {
                    if self.funcs[i].params.iter().any(|p| p.2) {
                        continue;
                    }
                    let ptys: Vec<Ty> = self.funcs[i].params.iter().map(|p| p.1.clone()).collect();
                    // arguments from the entry's parameters where types match, else literals
                    self.scopes = vec![f.params.iter().map(|(n, t, _)| VarInfo { name: n.clone(), ty: t.clone(), mutable: false }).collect()];
                    self.budget = 20;
                    let args: Vec<Expr> = ptys.iter().map(|t| self.expr(t, 1)).collect();
                    let rt = self.funcs[i].ret.clone();
                    extra.push(Stmt::Log(e(rt, EK::Call(i, args))));
                }
                extra.extend(f.body.stmts);
                f.body.stmts = extra;
            }
            f.inline_never = f.inline_never && self.rng.gen_bool(0.5);
            entries.push(self.funcs.len());
            self.funcs.push(f);
        }
        Program { types: self.types, consts: self.consts, funcs: self.funcs, main_params: main_params[..].to_vec(), ret, entries, uses_generics: self.uses_generics }
    }
}

/// Clone a function and change exactly one small thing (the fn-dedup trap).
pub fn near_duplicate(f: &Func, rng: &mut StdRng, name: String) -> Option<Func> {
    let mut g = f.clone();
    g.name = name;
    // collect mutable references to candidate sites by walking; apply the k-th
    let total = count_sites_block(&g.body);
    if total == 0 {
        return None;
    }
    let mut k = rng.gen_range(0..total) as i64;
    let variant = rng.gen_range(0..3);
    mutate_block(&mut g.body, &mut k, variant);
    Some(g)
}

fn count_sites_block(b: &Block) -> usize {
    let mut n = 0;
    for s in &b.stmts {
        n += count_sites_stmt(s);
    }
    if let Some(t) = &b.tail {
        n += count_sites_expr(t);
    }
    n
}
fn count_sites_stmts(ss: &[Stmt]) -> usize {
    ss.iter().map(count_sites_stmt).sum()
}
fn count_sites_stmt(s: &Stmt) -> usize {
    match s {
        Stmt::Let { e, .. } | Stmt::Assign(_, e) | Stmt::OpAssign(_, _, _, e) | Stmt::Return(e) | Stmt::Log(e) | Stmt::Require(e, _) | Stmt::Assert(e) | Stmt::RevertIf(e, _) | Stmt::Expr(e) => count_sites_expr(e),
        Stmt::While { body, .. } => count_sites_stmts(body),
        Stmt::If(c, t, f) => count_sites_expr(c) + count_sites_stmts(t) + count_sites_stmts(f),
        Stmt::Break | Stmt::Continue => 0,
    }
}
fn count_sites_expr(x: &Expr) -> usize {
    let own = match &*x.k {
        EK::Lit(Val::Int(_)) => 1,
        EK::Lit(Val::Bool(_)) => 1,
        EK::Bin(..) => 1,
        _ => 0,
    };
    own + match &*x.k {
        EK::Bin(_, a, b) => count_sites_expr(a) + count_sites_expr(b),
        EK::Not(a) | EK::TupleGet(a, _) | EK::Field(a, _) | EK::ArrayRepeat(a, _) | EK::Cast(a) | EK::Tw(a) => count_sites_expr(a),
        EK::If(c, t, f) => count_sites_expr(c) + count_sites_block(t) + count_sites_block(f),
        EK::Tuple(es) | EK::Array(es) | EK::Struct(_, es) | EK::Call(_, es) => es.iter().map(count_sites_expr).sum(),
        EK::Index(a, i) => count_sites_expr(a) + count_sites_expr(i),
        EK::EnumNew(_, _, p) => p.as_ref().map(count_sites_expr).unwrap_or(0),
        EK::Match(s, arms) => count_sites_expr(s) + arms.iter().map(|(_, b)| count_sites_block(b)).sum::<usize>(),
        EK::TryCast(a, d) | EK::GpSwapFirst(a, d) => count_sites_expr(a) + count_sites_expr(d),
        EK::BlockE(b) => count_sites_block(b),
        EK::Pick(c, a, b) => count_sites_expr(c) + count_sites_expr(a) + count_sites_expr(b),
        _ => 0,
    }
}

fn mutate_block(b: &mut Block, k: &mut i64, variant: u32) {
    for s in &mut b.stmts {
        mutate_stmt(s, k, variant);
    }
    if let Some(t) = &mut b.tail {
        mutate_expr(t, k, variant);
    }
}
fn mutate_stmts(ss: &mut [Stmt], k: &mut i64, variant: u32) {
    for s in ss {
        mutate_stmt(s, k, variant);
    }
}
fn mutate_stmt(s: &mut Stmt, k: &mut i64, variant: u32) {
    match s {
        Stmt::Let { e, .. } | Stmt::Assign(_, e) | Stmt::OpAssign(_, _, _, e) | Stmt::Return(e) | Stmt::Log(e) | Stmt::Require(e, _) | Stmt::Assert(e) | Stmt::RevertIf(e, _) | Stmt::Expr(e) => mutate_expr(e, k, variant),
        Stmt::While { body, .. } => mutate_stmts(body, k, variant),
        Stmt::If(c, t, f) => {
            mutate_expr(c, k, variant);
            mutate_stmts(t, k, variant);
            mutate_stmts(f, k, variant);
        }
        Stmt::Break | Stmt::Continue => {}
    }
}
fn mutate_expr(x: &mut Expr, k: &mut i64, variant: u32) {
    let is_site = matches!(&*x.k, EK::Lit(Val::Int(_)) | EK::Lit(Val::Bool(_)) | EK::Bin(..));
    if is_site {
        if *k == 0 {
            *k = -1;
            let ty = x.ty.clone();
            match &mut *x.k {
                EK::Lit(Val::Int(i)) => {
                    // +-1 within the type
                    if *i == max_of(&ty) {
                        *i -= big(1);
                    } else {
                        *i += big(1);
                    }
                }
                EK::Lit(Val::Bool(b)) => *b = !*b,
                EK::Bin(op, a, b) => {
                    let new = match (*op, variant) {
                        (BinOp::Add, _) => Some(BinOp::Sub),
                        (BinOp::Sub, 0) => Some(BinOp::Add),
                        (BinOp::And, _) => Some(BinOp::Or),
                        (BinOp::Or, _) => Some(BinOp::Xor),
                        (BinOp::Xor, _) => Some(BinOp::And),
                        (BinOp::Lt, _) => Some(BinOp::Le),
                        (BinOp::Le, _) => Some(BinOp::Lt),
                        (BinOp::Gt, _) => Some(BinOp::Ge),
                        (BinOp::Ge, _) => Some(BinOp::Gt),
                        (BinOp::Eq, _) => Some(BinOp::Ne),
                        (BinOp::Ne, _) => Some(BinOp::Eq),
                        (BinOp::Shl, _) => Some(BinOp::Shr),
                        (BinOp::Shr, _) => Some(BinOp::Shl),
                        (BinOp::LAnd, _) => Some(BinOp::LOr),
                        (BinOp::LOr, _) => Some(BinOp::LAnd),
                        _ => None,
                    };
                    match new {
                        Some(n) => *op = n,
                        None => {
                            // swap operands of a non-commutative op when the types agree
                            if a.ty == b.ty {
                                std::mem::swap(a, b);
                            } else {
                                *op = match *op {
                                    BinOp::Div => BinOp::Mod,
                                    BinOp::Mod => BinOp::Div,
                                    o => o,
                                };
                            }
                        }
                    }
                }
                _ => {}
            }
            return;
        }
        if *k > 0 {
            *k -= 1;
        }
    }
    match &mut *x.k {
        EK::Bin(_, a, b) => {
            mutate_expr(a, k, variant);
            mutate_expr(b, k, variant);
        }
        EK::Not(a) | EK::TupleGet(a, _) | EK::Field(a, _) | EK::ArrayRepeat(a, _) | EK::Cast(a) | EK::Tw(a) => mutate_expr(a, k, variant),
        EK::If(c, t, f) => {
            mutate_expr(c, k, variant);
            mutate_block(t, k, variant);
            mutate_block(f, k, variant);
        }
        EK::Tuple(es) | EK::Array(es) | EK::Struct(_, es) | EK::Call(_, es) => {
            for a in es {
                mutate_expr(a, k, variant);
            }
        }
        EK::Index(a, i) => {
            mutate_expr(a, k, variant);
            mutate_expr(i, k, variant);
        }
        EK::EnumNew(_, _, Some(p)) => mutate_expr(p, k, variant),
        EK::Match(s, arms) => {
            mutate_expr(s, k, variant);
            for (_, b) in arms {
                mutate_block(b, k, variant);
            }
        }
        EK::TryCast(a, d) | EK::GpSwapFirst(a, d) => {
            mutate_expr(a, k, variant);
            mutate_expr(d, k, variant);
        }
        EK::BlockE(b) => mutate_block(b, k, variant),
        EK::Pick(c, a, b) => {
            mutate_expr(c, k, variant);
            mutate_expr(a, k, variant);
            mutate_expr(b, k, variant);
        }
        _ => {}
    }
}

/// Input vectors for one program: (sel, args). Mix of small and boundary-biased vectors.
pub fn gen_inputs(rng: &mut StdRng, p: &Program, n: usize) -> Vec<(u64, Vec<Val>)> {
    let mut out = vec![];
    for i in 0..n {
        let sel = if p.entries.len() == 1 { 0 } else { rng.gen_range(0..p.entries.len() as u64 + 1) };
        let small = i % 2 == 0;
        let args = p.main_params.iter().map(|t| gen_value(rng, t, &p.types, small)).collect();
        out.push((sel, args));
    }
    out
}
