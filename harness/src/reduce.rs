//! AST-level test-case reducer for SwGen programs (triage tool, not part of any verdict):
//! shrinks a program while a caller-supplied predicate ("still shows the behaviour") holds.

use crate::swgen::*;

pub fn default_val(t: &Ty, types: &Types) -> Val {
    match t {
        Ty::Bool => Val::Bool(false),
        Ty::U8 | Ty::U16 | Ty::U32 | Ty::U64 | Ty::U256 | Ty::B256 => Val::Int(big(1)),
        Ty::Tuple(ts) => Val::Tuple(ts.iter().map(|t| default_val(t, types)).collect()),
        Ty::Array(t, n) => Val::Array((0..*n).map(|_| default_val(t, types)).collect()),
        Ty::Struct(i) => Val::Struct(types.structs[*i].iter().map(|t| default_val(t, types)).collect()),
        Ty::Enum(i) => Val::Enum(0, types.enums[*i][0].as_ref().map(|t| Box::new(default_val(t, types)))),
    }
}

fn children_mut(x: &mut Expr) -> Vec<&mut Expr> {
    match &mut *x.k {
        EK::Bin(_, a, b) | EK::Index(a, b) | EK::TryCast(a, b) | EK::GpSwapFirst(a, b) => vec![a, b],
        EK::Not(a) | EK::TupleGet(a, _) | EK::Field(a, _) | EK::ArrayRepeat(a, _) | EK::Cast(a) | EK::Tw(a) => vec![a],
        EK::Tuple(es) | EK::Array(es) | EK::Struct(_, es) | EK::Call(_, es) => es.iter_mut().collect(),
        EK::EnumNew(_, _, Some(p)) => vec![p],
        EK::Pick(c, a, b) => vec![c, a, b],
        EK::If(c, _, _) => vec![c],
        EK::Match(s, _) => vec![s],
        _ => vec![],
    }
}

fn blocks_mut(x: &mut Expr) -> Vec<&mut Block> {
    match &mut *x.k {
        EK::If(_, t, f) => vec![t, f],
        EK::Match(_, arms) => arms.iter_mut().map(|(_, b)| b).collect(),
        EK::BlockE(b) => vec![b],
        _ => vec![],
    }
}

/// visit every expression (pre-order); the callback returns true to stop descending into it
fn walk_expr(x: &mut Expr, f: &mut dyn FnMut(&mut Expr) -> bool) {
    if f(x) {
        return;
    }
    // children first, then nested blocks
    {
        for c in children_mut(x) {
            walk_expr(c, f);
        }
    }
    for b in blocks_mut(x) {
        walk_block(b, f);
    }
}

fn walk_stmts(ss: &mut [Stmt], f: &mut dyn FnMut(&mut Expr) -> bool) {
    for s in ss {
        match s {
            Stmt::Let { e, .. } | Stmt::Assign(_, e) | Stmt::OpAssign(_, _, _, e) | Stmt::Return(e) | Stmt::Log(e) | Stmt::Require(e, _) | Stmt::Assert(e) | Stmt::RevertIf(e, _) | Stmt::Expr(e) => walk_expr(e, f),
            Stmt::While { body, .. } => walk_stmts(body, f),
            Stmt::If(c, t, e) => {
                walk_expr(c, f);
                walk_stmts(t, f);
                walk_stmts(e, f);
            }
            Stmt::Break | Stmt::Continue => {}
        }
    }
}

fn walk_block(b: &mut Block, f: &mut dyn FnMut(&mut Expr) -> bool) {
    walk_stmts(&mut b.stmts, f);
    if let Some(t) = &mut b.tail {
        walk_expr(t, f);
    }
}

fn count_exprs(p: &mut Program) -> usize {
    let mut n = 0;
    for func in &mut p.funcs {
        walk_block(&mut func.body, &mut |_| {
            n += 1;
            false
        });
    }
    n
}

/// apply `edit` to the k-th expression (pre-order over all functions); returns whether it changed anything
fn edit_expr(p: &mut Program, k: usize, edit: &mut dyn FnMut(&mut Expr) -> bool) -> bool {
    let mut i = 0usize;
    let mut changed = false;
    for func in &mut p.funcs {
        walk_block(&mut func.body, &mut |x| {
            if i == k {
                changed = edit(x);
                i += 1;
                return true;
            }
            i += 1;
            false
        });
    }
    changed
}

/// statement lists, flattened: visit every Vec<Stmt>
fn walk_stmt_lists(b: &mut Block, f: &mut dyn FnMut(&mut Vec<Stmt>)) {
    fn in_stmts(ss: &mut Vec<Stmt>, f: &mut dyn FnMut(&mut Vec<Stmt>)) {
        f(ss);
        for s in ss.iter_mut() {
            match s {
                Stmt::While { body, .. } => in_stmts(body, f),
                Stmt::If(c, t, e) => {
                    in_expr(c, f);
                    in_stmts(t, f);
                    in_stmts(e, f);
                }
                Stmt::Let { e, .. } | Stmt::Assign(_, e) | Stmt::OpAssign(_, _, _, e) | Stmt::Return(e) | Stmt::Log(e) | Stmt::Require(e, _) | Stmt::Assert(e) | Stmt::RevertIf(e, _) | Stmt::Expr(e) => in_expr(e, f),
                _ => {}
            }
        }
    }
    fn in_expr(x: &mut Expr, f: &mut dyn FnMut(&mut Vec<Stmt>)) {
        for c in children_mut(x) {
            in_expr(c, f);
        }
        for b in blocks_mut(x) {
            in_stmts(&mut b.stmts, f);
            if let Some(t) = &mut b.tail {
                in_expr(t, f);
            }
        }
    }
    in_stmts(&mut b.stmts, f);
    if let Some(t) = &mut b.tail {
        in_expr(t, f);
    }
}

pub fn reduce(mut p: Program, interesting: &mut dyn FnMut(&Program) -> bool, max_evals: usize) -> Program {
    let mut evals = 0usize;
    let mut try_candidate = |cand: Program, cur: &mut Program, evals: &mut usize| -> bool {
        if *evals >= max_evals {
            return false;
        }
        *evals += 1;
        if interesting(&cand) {
            *cur = cand;
            true
        } else {
            false
        }
    };
    loop {
        let mut progress = false;
        // 0. drop entries
        while p.entries.len() > 1 {
            let mut dropped = false;
            for i in 0..p.entries.len() {
                let mut cand = p.clone();
                cand.entries.remove(i);
                if try_candidate(cand, &mut p, &mut evals) {
                    dropped = true;
                    progress = true;
                    break;
                }
            }
            if !dropped {
                break;
            }
        }
        // 1. trivialise whole function bodies
        for fi in 0..p.funcs.len() {
            let already = p.funcs[fi].body.stmts.is_empty() && matches!(p.funcs[fi].body.tail.as_ref().map(|t| &*t.k), Some(EK::Lit(_)));
            if already {
                continue;
            }
            let mut cand = p.clone();
            let rt = cand.funcs[fi].ret.clone();
            let v = default_val(&rt, &cand.types);
            cand.funcs[fi].body = Block { stmts: vec![], tail: Some(Expr { ty: rt, k: Box::new(EK::Lit(v)) }) };
            if try_candidate(cand, &mut p, &mut evals) {
                progress = true;
            }
        }
        // 2. remove statements
        for fi in 0..p.funcs.len() {
            let mut list_idx = 0usize;
            loop {
                // count lists
                let mut nlists = 0usize;
                let mut lens = vec![];
                {
                    let mut tmp = p.funcs[fi].body.clone();
                    walk_stmt_lists(&mut tmp, &mut |ss| {
                        nlists += 1;
                        lens.push(ss.len());
                    });
                }
                if list_idx >= nlists {
                    break;
                }
                let mut si = 0usize;
                while si < lens[list_idx] {
                    let mut cand = p.clone();
                    let mut li = 0usize;
                    walk_stmt_lists(&mut cand.funcs[fi].body, &mut |ss| {
                        if li == list_idx && si < ss.len() {
                            ss.remove(si);
                        }
                        li += 1;
                    });
                    if try_candidate(cand, &mut p, &mut evals) {
                        progress = true;
                        lens[list_idx] -= 1;
                        // structure may have changed; recompute lens
                        break;
                    } else {
                        si += 1;
                    }
                }
                if si >= lens[list_idx] {
                    list_idx += 1;
                }
                if evals >= max_evals {
                    break;
                }
            }
        }
        // 3. replace expressions by literals / hoist children
        let mut k = 0usize;
        while k < count_exprs(&mut p) && evals < max_evals {
            let types = p.types.clone();
            let mut cand = p.clone();
            let changed = edit_expr(&mut cand, k, &mut |x| {
                if matches!(&*x.k, EK::Lit(_) | EK::Var(_) | EK::Const(_)) {
                    return false;
                }
                let v = default_val(&x.ty, &types);
                *x.k = EK::Lit(v);
                true
            });
            if changed && try_candidate(cand, &mut p, &mut evals) {
                progress = true;
                continue;
            }
            // hoist a same-typed child
            let mut hoisted = false;
            for ci in 0..3 {
                let mut cand = p.clone();
                let changed = edit_expr(&mut cand, k, &mut |x| {
                    let ty = x.ty.clone();
                    let mut repl = None;
                    {
                        let cs = children_mut(x);
                        if let Some(c) = cs.into_iter().filter(|c| c.ty == ty).nth(ci) {
                            repl = Some(c.clone());
                        }
                    }
                    if repl.is_none() {
                        for b in blocks_mut(x) {
                            if b.stmts.is_empty() {
                                if let Some(t) = &b.tail {
                                    if t.ty == ty && repl.is_none() && ci == 2 {
                                        repl = Some(t.clone());
                                    }
                                }
                            }
                        }
                    }
                    match repl {
                        Some(r) => {
                            *x = r;
                            true
                        }
                        None => false,
                    }
                });
                if changed && try_candidate(cand, &mut p, &mut evals) {
                    progress = true;
                    hoisted = true;
                    break;
                }
            }
            if !hoisted {
                k += 1;
            }
        }
        if !progress || evals >= max_evals {
            break;
        }
    }
    p
}
