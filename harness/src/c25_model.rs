//! C25 helper: event records, the oracle over the coordinator's total order, and an independent
//! file-system model of the trace (read cross-check + cause analysis for signatures).
use serde::{Deserialize, Serialize};

#[derive(Clone, Copy, Debug, Serialize, Deserialize, PartialEq, Eq, Hash, PartialOrd, Ord)]
pub enum Op {
    Lock,
    Release,
    IsDirty,
    Cleanup,
    New,
}

impl Op {
    pub const ALL: [Op; 5] = [Op::Lock, Op::Release, Op::IsDirty, Op::Cleanup, Op::New];
    pub fn name(self) -> &'static str {
        match self {
            Op::Lock => "lock",
            Op::Release => "release",
            Op::IsDirty => "is_dirty",
            Op::Cleanup => "cleanup",
            Op::New => "new",
        }
    }
}

#[derive(Clone, Copy, Debug, Serialize, Deserialize, PartialEq, Eq, Hash, PartialOrd, Ord)]
pub enum Setup {
    /// lock directory exists, no flag file
    NoFile,
    /// actor i really ran lock() before the run starts
    OwnedBy(usize),
    /// flag file holds the pid of a process that has exited (and was reaped)
    DeadPid,
    /// empty flag file (legacy format)
    Empty,
    /// flag file with content that is not a pid
    Garbage,
}

impl Setup {
    pub fn name(self) -> String {
        match self {
            Setup::NoFile => "nofile".into(),
            Setup::OwnedBy(i) => format!("owned{i}"),
            Setup::DeadPid => "deadpid".into(),
            Setup::Empty => "empty".into(),
            Setup::Garbage => "garbage".into(),
        }
    }
}

#[derive(Clone, Copy, Debug, PartialEq, Eq)]
pub enum LockVariant {
    /// lock(): File::create(lock path) then write (unchanged tree)
    CreateThenWrite,
    /// lock(): create + write a private temp file, rename over the lock path (after lock.written)
    TempThenRename,
}

#[derive(Clone, Debug, Serialize, Deserialize, PartialEq, Eq)]
pub enum Ev {
    /// the coordinator wrote the flag file directly (None = no file)
    SetupFile { content: Option<String> },
    Call { a: usize, op: Op, probe: bool },
    /// actor `a` was released from hook point `point` (the file-system operation that follows the
    /// point executes now); `detail` is what the hook reported at that point
    Exec { a: usize, point: String, detail: String },
    Ret { a: usize, op: Op, res: String, probe: bool },
    /// SIGKILL + reap of actor `a`
    Kill { a: usize },
}

#[derive(Clone, Debug, Serialize, Deserialize)]
pub struct RunRecord {
    pub pids: Vec<u32>,
    pub dead_pid: Option<u32>,
    pub events: Vec<Ev>,
}

// ------------------------------------------------------------------------------------------
// Which hook points are scheduling points

/// A point is a scheduling point iff the segment that follows it may perform an operation on
/// shared state (flag file, lock directory listing, or - only when a kill can happen in the
/// run - process liveness via `ps`).
pub fn significant(point: &str, detail: &str, kills_possible: bool, variant: LockVariant) -> bool {
    match point {
        "pid.before_open" | "pid.opened" | "pid.dead_before_remove" | "release.before_remove" | "cleanup.begin" | "cleanup.before_open"
        | "cleanup.dead_before_remove" | "cleanup.unparsable_before_remove" => true,
        // create / write act on the flag file itself on the unchanged tree, on a private temp
        // file once lock() publishes by rename
        "lock.before_create" | "lock.created" => variant == LockVariant::CreateThenWrite,
        // fsync only on the unchanged tree; the rename in the temp-file variant
        "lock.written" => variant == LockVariant::TempThenRename,
        // followed by `ps` if the content parses
        "pid.read" | "cleanup.read" => kills_possible && detail.trim().parse::<usize>().is_ok(),
        // no file-system operation follows (the lock directory always exists: create_dir_all only stats)
        "release.begin" | "release.removed" | "pid.active" | "lock.begin" | "lock.released" | "lock.done" => false,
        // unknown point: be safe
        _ => true,
    }
}

// ------------------------------------------------------------------------------------------
// Oracle over call / return / kill events

#[derive(Clone, Copy, Debug, PartialEq, Eq)]
pub enum St {
    Idle,
    Acquiring,
    Holding,
    Releasing,
    Unknown,
    Dead,
}

#[derive(Clone, Copy, Debug, PartialEq, Eq)]
pub enum Class {
    MustTrue,
    MustFalse,
    Free,
}

#[derive(Clone, Debug)]
pub struct Obs {
    pub actor: usize,
    pub call: usize,
    pub ret: usize,
    pub result: bool,
    pub class: Class,
    pub probe: bool,
    /// for MustTrue: a holder that held throughout
    #[allow(dead_code)]
    pub holder: Option<usize>,
}

#[derive(Clone, Debug, Default)]
pub struct Analysis {
    pub obs: Vec<Obs>,
    /// first violation in time order
    pub violation: Option<(String, String)>,
    pub model_mismatch: Option<String>,
    pub reads_checked: u64,
    /// a helper misbehaved (panic in op, malformed result)
    pub inconclusive: Option<String>,
    pub nonowner_release_err: u64,
    pub double_holders: bool,
}

fn state_timelines(rec: &RunRecord) -> Vec<Vec<St>> {
    // tl[a][t] = state of actor a AFTER event t
    let n = rec.pids.len();
    let mut cur = vec![St::Idle; n];
    let mut before_call = vec![St::Idle; n];
    let mut tl = vec![Vec::with_capacity(rec.events.len()); n];
    for ev in &rec.events {
        match ev {
            Ev::Call { a, op, .. } => match op {
                Op::Lock => {
                    before_call[*a] = cur[*a];
                    cur[*a] = St::Acquiring;
                }
                Op::Release => {
                    before_call[*a] = cur[*a];
                    cur[*a] = St::Releasing;
                }
                _ => {}
            },
            Ev::Ret { a, op, res, .. } => match op {
                Op::Lock => {
                    cur[*a] = if res == "ok" {
                        St::Holding
                    } else if before_call[*a] == St::Idle && res.contains("Cannot remove a dirty lock file") {
                        // refused because another process holds the flag: nothing was written
                        St::Idle
                    } else {
                        St::Unknown
                    }
                }
                Op::Release => {
                    cur[*a] = if res == "ok" {
                        St::Idle
                    } else if before_call[*a] == St::Idle {
                        St::Idle
                    } else {
                        St::Unknown
                    }
                }
                _ => {}
            },
            Ev::Kill { a } => cur[*a] = St::Dead,
            _ => {}
        }
        for a in 0..n {
            tl[a].push(cur[a]);
        }
    }
    tl
}

/// State of every actor after the last event (used to choose who probes at the end of a run).
pub fn final_states(pids: &[u32], events: &[Ev]) -> Vec<St> {
    let rec = RunRecord { pids: pids.to_vec(), dead_pid: None, events: events.to_vec() };
    state_timelines(&rec).into_iter().map(|v| v.last().copied().unwrap_or(St::Idle)).collect()
}

/// Classify every is_dirty observation and find the first violation.
pub fn analyze(rec: &RunRecord, variant: LockVariant) -> Analysis {
    let mut an = Analysis::default();
    let n = rec.pids.len();
    let tl = state_timelines(rec);
    let fs = FsModel::run(rec, variant);
    an.model_mismatch = fs.mismatch.clone();
    an.reads_checked = fs.reads_checked;
    let st_before = |a: usize, t: usize| if t == 0 { St::Idle } else { tl[a][t - 1] };
    let mut open_call: Vec<Option<usize>> = vec![None; n];
    for (t, ev) in rec.events.iter().enumerate() {
        match ev {
            Ev::Call { a, .. } => open_call[*a] = Some(t),
            Ev::Ret { a, op, res, probe } => {
                let c = open_call[*a].take().unwrap_or(t);
                if res == "panic" || res.starts_with("unknown:") {
                    an.inconclusive = Some(format!("actor {a} op {} ended with {res}", op.name()));
                    return an;
                }
                if *op == Op::Release && res.starts_with("err:") {
                    if (0..n).any(|p| p != *a && (c..=t).all(|u| tl[p][u] == St::Holding)) {
                        an.nonowner_release_err += 1;
                    }
                }
                if *op != Op::IsDirty {
                    continue;
                }
                let result = match res.as_str() {
                    "true" => true,
                    "false" => false,
                    _ => {
                        an.inconclusive = Some(format!("is_dirty returned {res:?}"));
                        return an;
                    }
                };
                // state of p throughout [c, t]: before the call event and after every event up to t
                let throughout = |p: usize, ok: &dyn Fn(St) -> bool| ok(st_before(p, c)) && (c..=t).all(|u| ok(tl[p][u]));
                let holder = (0..n).find(|&p| p != *a && throughout(p, &|s| s == St::Holding));
                let all_clear = (0..n).all(|p| if p == *a { throughout(p, &|s| s == St::Idle) } else { throughout(p, &|s| s == St::Idle || s == St::Dead) });
                let class = if holder.is_some() {
                    Class::MustTrue
                } else if all_clear {
                    Class::MustFalse
                } else {
                    Class::Free
                };
                if (0..n).filter(|&p| tl[p][t] == St::Holding).count() >= 2 {
                    an.double_holders = true;
                }
                an.obs.push(Obs { actor: *a, call: c, ret: t, result, class, probe: *probe, holder });
                if an.violation.is_none() {
                    match (class, result) {
                        (Class::MustTrue, false) => {
                            let p = holder.unwrap();
                            let (sig, why) = fs.lost_flag_cause(rec, p, *a, t);
                            an.violation = Some((
                                sig,
                                format!(
                                    "is_dirty by actor {a} (events {c}..{t}) returned false while live actor {p} (pid {}) held the flag throughout (lock() returned Ok, release not started, not killed): {why}",
                                    rec.pids[p]
                                ),
                            ));
                        }
                        (Class::MustFalse, true) => {
                            let seen = fs.last_pid_read(*a, t).unwrap_or_else(|| "nothing".into());
                            let class = content_class(&seen, rec, None);
                            an.violation = Some((
                                format!("stale-flag-visible: is_dirty=true while no live process holds or acquires the flag ; observer read [{class}]"),
                                format!("is_dirty by actor {a} (events {c}..{t}) returned true although no live process holds or is acquiring the flag; it read {seen:?}"),
                            ));
                        }
                        _ => {}
                    }
                }
            }
            _ => {}
        }
    }
    an
}

/// coarse class of a flag-file content as seen by `viewer`
pub fn content_class(content: &str, rec: &RunRecord, viewer: Option<usize>) -> &'static str {
    if content == "nothing" {
        return "absent";
    }
    if content.is_empty() {
        return "empty";
    }
    match content.trim().parse::<usize>() {
        Err(_) => "garbage",
        Ok(pid) => {
            if let Some(v) = viewer {
                if rec.pids[v] as usize == pid {
                    return "own-pid";
                }
            }
            if rec.pids.iter().any(|p| *p as usize == pid) {
                "actor-pid"
            } else {
                "dead-pid"
            }
        }
    }
}

// ------------------------------------------------------------------------------------------
// File-system model

#[derive(Clone, Debug, PartialEq, Eq)]
enum Origin {
    Setup,
    Create(usize, usize),
    Write(usize, usize),
}

#[derive(Clone, Debug)]
struct Inode {
    content: String,
    origin: Origin,
}

#[derive(Clone, Debug)]
struct Observation {
    t: usize,
    ev: &'static str,
    /// None = the file was absent
    content: Option<String>,
    origin: Option<Origin>,
    /// the file the content was read from (it may have been opened earlier and unlinked since)
    inode: Option<usize>,
}

#[derive(Clone, Debug)]
struct Mutation {
    t: usize,
    actor: usize,
    kind: &'static str,
    inode: Option<usize>,
    basis: Option<Observation>,
}

pub struct FsModel {
    muts: Vec<Mutation>,
    /// (t, actor, inode) of every publication of a pid file by lock()
    creates: Vec<(usize, usize, usize)>,
    /// (t, actor, content read by get_locker_pid)
    pid_reads: Vec<(usize, usize, String)>,
    pub mismatch: Option<String>,
    pub reads_checked: u64,
    variant: LockVariant,
    /// content reachable through the flag path after each event (None = no file)
    snap: Vec<Option<String>>,
}

impl FsModel {
    pub fn run(rec: &RunRecord, variant: LockVariant) -> FsModel {
        let n = rec.pids.len();
        let mut inodes: Vec<Inode> = vec![];
        let mut name: Option<usize> = None;
        let mut rd: Vec<Option<usize>> = vec![None; n];
        let mut wr: Vec<Option<usize>> = vec![None; n];
        let mut obs: Vec<Option<Observation>> = vec![None; n];
        let mut expect: Vec<Option<String>> = vec![None; n];
        let mut m = FsModel { muts: vec![], creates: vec![], pid_reads: vec![], mismatch: None, reads_checked: 0, variant, snap: vec![] };
        for (t, ev) in rec.events.iter().enumerate() {
            match ev {
                Ev::SetupFile { content } => {
                    name = content.as_ref().map(|c| {
                        inodes.push(Inode { content: c.clone(), origin: Origin::Setup });
                        inodes.len() - 1
                    });
                }
                Ev::Call { a, .. } => {
                    obs[*a] = None;
                    expect[*a] = None;
                }
                Ev::Exec { a, point, detail } => {
                    let a = *a;
                    let unlink = |kind: &'static str, name: &mut Option<usize>, m: &mut FsModel| {
                        m.muts.push(Mutation { t, actor: a, kind, inode: *name, basis: obs[a].clone() });
                        *name = None;
                    };
                    match point.as_str() {
                        "pid.before_open" => {
                            rd[a] = name;
                            if name.is_none() {
                                obs[a] = Some(Observation { t, ev: "pid.open_failed", content: None, origin: None, inode: None });
                            }
                        }
                        "pid.opened" => {
                            if let Some(i) = rd[a] {
                                let c = inodes[i].content.clone();
                                obs[a] = Some(Observation { t, ev: "pid.read", content: Some(c.clone()), origin: Some(inodes[i].origin.clone()), inode: Some(i) });
                                m.pid_reads.push((t, a, c.clone()));
                                expect[a] = Some(c);
                            } else if m.mismatch.is_none() {
                                m.mismatch = Some(format!("event {t}: actor {a} reached pid.opened but the model has no file"));
                            }
                        }
                        "pid.read" | "cleanup.read" => {
                            match expect[a].take() {
                                Some(c) if &c == detail => m.reads_checked += 1,
                                other => {
                                    if m.mismatch.is_none() {
                                        m.mismatch = Some(format!("event {t}: actor {a} reports having read {detail:?} at {point}, the model predicted {other:?}"));
                                    }
                                }
                            }
                        }
                        "pid.dead_before_remove" => unlink("pid.unlink_dead", &mut name, &mut m),
                        "release.before_remove" => unlink("release.unlink", &mut name, &mut m),
                        "cleanup.dead_before_remove" => unlink("cleanup.unlink_dead", &mut name, &mut m),
                        "cleanup.unparsable_before_remove" => unlink("cleanup.unlink_unparsable", &mut name, &mut m),
                        "cleanup.begin" => {
                            obs[a] = None;
                        }
                        "cleanup.before_open" => {
                            if let Some(i) = name {
                                let c = inodes[i].content.clone();
                                obs[a] = Some(Observation { t, ev: "cleanup.read", content: Some(c.clone()), origin: Some(inodes[i].origin.clone()), inode: Some(i) });
                                expect[a] = Some(c);
                            } else {
                                obs[a] = None;
                            }
                        }
                        "lock.before_create" => match variant {
                            LockVariant::CreateThenWrite => {
                                if let Some(i) = name {
                                    // O_TRUNC on the existing inode
                                    m.muts.push(Mutation { t, actor: a, kind: "lock.create", inode: Some(i), basis: obs[a].clone() });
                                    inodes[i].content.clear();
                                    inodes[i].origin = Origin::Create(a, t);
                                    wr[a] = Some(i);
                                } else {
                                    inodes.push(Inode { content: String::new(), origin: Origin::Create(a, t) });
                                    name = Some(inodes.len() - 1);
                                    wr[a] = name;
                                }
                                m.creates.push((t, a, wr[a].unwrap()));
                            }
                            LockVariant::TempThenRename => {
                                inodes.push(Inode { content: String::new(), origin: Origin::Create(a, t) });
                                wr[a] = Some(inodes.len() - 1);
                            }
                        },
                        "lock.created" => {
                            if let Some(i) = wr[a] {
                                let pid = rec.pids[a].to_string();
                                let old = inodes[i].content.clone();
                                let mut newc = pid.clone();
                                if old.len() > pid.len() {
                                    newc.push_str(&old[pid.len()..]);
                                }
                                if variant == LockVariant::CreateThenWrite {
                                    m.muts.push(Mutation { t, actor: a, kind: "lock.write", inode: Some(i), basis: obs[a].clone() });
                                }
                                inodes[i].content = newc;
                                inodes[i].origin = Origin::Write(a, t);
                            }
                        }
                        "lock.written" => {
                            if variant == LockVariant::TempThenRename {
                                if let Some(i) = wr[a] {
                                    if name.is_some() {
                                        m.muts.push(Mutation { t, actor: a, kind: "lock.rename", inode: name, basis: obs[a].clone() });
                                    }
                                    name = Some(i);
                                    inodes[i].origin = Origin::Write(a, t);
                                    m.creates.push((t, a, i));
                                }
                            }
                        }
                        _ => {}
                    }
                }
                Ev::Ret { .. } | Ev::Kill { .. } => {}
            }
            m.snap.push(name.map(|i| inodes[i].content.clone()));
        }
        m
    }

    pub fn last_pid_read(&self, actor: usize, upto: usize) -> Option<String> {
        self.pid_reads.iter().rev().find(|(t, a, _)| *a == actor && *t <= upto).map(|(_, _, c)| c.clone())
    }

    /// Why is the flag of live holder `p` not visible at event `upto`? Returns (signature, prose).
    /// Signature = canonical minimal event pattern: P = the holder whose flag is lost, Q = the
    /// process whose file-system step detached or overwrote P's pid file.
    pub fn lost_flag_cause(&self, rec: &RunRecord, p: usize, observer: usize, upto: usize) -> (String, String) {
        const TAIL: &str = " ; is_dirty=false while P live";
        // P's current pid file: published by its last successful lock()
        let mut last_ok_ret = None;
        for (t, ev) in rec.events.iter().enumerate().take(upto + 1) {
            if let Ev::Ret { a, op: Op::Lock, res, .. } = ev {
                if *a == p && res == "ok" {
                    last_ok_ret = Some(t);
                }
            }
        }
        let Some(ret_t) = last_ok_ret else {
            return (format!("lost-flag: no successful lock() of P in the trace{TAIL}"), "internal: holder without lock".into());
        };
        let Some(&(t_c, _, inode)) = self.creates.iter().rev().find(|(t, a, _)| *a == p && *t < ret_t) else {
            return (format!("lost-flag: lock() of P returned Ok without publishing a file{TAIL}"), "lock() returned Ok but the model saw no create/rename by it".into());
        };
        // the step after which P's pid stopped being readable through the flag path for the
        // last time; if it never was readable after P published (P wrote into a file that was
        // already detached or taken over), the first foreign step on P's file
        let mine = Some(rec.pids[p].to_string());
        let lost_at = (t_c + 1..=upto.min(self.snap.len().saturating_sub(1))).rev().find(|&t| self.snap[t] != mine && self.snap[t - 1] == mine);
        let culprit = match lost_at {
            Some(t) => self.muts.iter().find(|m| m.t == t && m.actor != p),
            None => None,
        }
        .or_else(|| self.muts.iter().find(|m| m.t > t_c && m.t <= upto && m.actor != p && m.inode == Some(inode)));
        let Some(m) = culprit else {
            let seen = self.last_pid_read(observer, upto);
            let cls = seen.as_deref().map(|c| if c.trim() == rec.pids[p].to_string() { "victim-pid" } else { content_class(c, rec, Some(observer)) }).unwrap_or("absent");
            return (
                format!("lost-flag: no step removed or overwrote P's file ; observer read [{cls}]{TAIL}"),
                format!("no file-system step of another process touched the holder's file; the observer read {seen:?}"),
            );
        };
        let q = m.actor;
        // the step that makes P's pid file visible under the flag path; `lock.create` on the
        // unchanged tree (File::create, content follows later), `lock.rename` once lock()
        // publishes a complete temp file. Histories that do not depend on the difference use
        // the neutral names lock.publish / lock.overwrite.
        let create = if self.is_rename_variant() { "lock.rename" } else { "lock.create" };
        let publish = "lock.publish";
        let kind = match m.kind {
            "lock.create" | "lock.write" | "lock.rename" => "lock.overwrite",
            k => k,
        };
        let (pattern, prose) = match &m.basis {
            None => (format!("{publish}(P) < {kind}(Q)[no-check]"), format!("actor {q} executed {} at event {} without having looked at the file", m.kind, m.t)),
            Some(o) => {
                let shown = o.content.clone().unwrap_or_else(|| "<absent>".into());
                if o.t < t_c || o.inode != Some(inode) {
                    // decision taken on what was there before P published its file (possibly
                    // read later through a descriptor opened before)
                    let cls = match &o.content {
                        None => "not-locked",
                        Some(c) => match content_class(c, rec, Some(q)) {
                            "actor-pid" => {
                                // pid of an actor: live unless killed before the step was taken
                                let pid: u32 = c.trim().parse().unwrap_or(0);
                                let owner = rec.pids.iter().position(|x| *x == pid).unwrap();
                                let dead = rec.events[..m.t].iter().any(|e| matches!(e, Ev::Kill { a } if *a == owner));
                                if dead {
                                    "not-locked"
                                } else {
                                    "live-pid"
                                }
                            }
                            _ => "not-locked",
                        },
                    };
                    let ev = if o.ev.starts_with("pid.") { "pid.check" } else { o.ev };
                    (
                        format!("{ev}[{cls}](Q) < {publish}(P) < {kind}(Q)"),
                        format!(
                            "actor {q} observed {shown:?} at event {} (before the holder published its file at event {t_c}), then executed {} at event {} on the holder's fresh file",
                            o.t, m.kind, m.t
                        ),
                    )
                } else {
                    let mine = rec.pids[p].to_string();
                    // P's pid is in the file only after P's write (create-then-write variant)
                    let t_w = rec.events.iter().enumerate().skip(t_c + 1).find_map(|(t, e)| match e {
                        Ev::Exec { a, point, .. } if *a == p && point == "lock.created" => Some(t),
                        _ => None,
                    });
                    let in_window = !self.is_rename_variant() && t_w.map(|t_w| o.t < t_w).unwrap_or(true);
                    let cls = match &o.content {
                        // truncated by a lock() (P's own or a concurrent locker's on the same
                        // file) and not written yet
                        Some(c) if c.is_empty() && matches!(o.origin, Some(Origin::Create(..))) => "empty".to_string(),
                        Some(c) if c.trim() == mine => "victim-pid".to_string(),
                        // between P's create and P's write the (shared, truncated) file can hold
                        // what a concurrent locker wrote into it
                        Some(_) if in_window => "stale-content".to_string(),
                        Some(c) => format!("other:{}", content_class(c, rec, Some(q))),
                        None => "other:absent".to_string(),
                    };
                    let first = if cls == "victim-pid" { "lock.complete(P)".to_string() } else { format!("{create}(P)") };
                    (
                        format!("{first} < {}[{cls}](Q) < {kind}(Q)", o.ev),
                        format!(
                            "the holder published its file at event {t_c}; actor {q} observed {shown:?} at event {} and executed {} at event {}",
                            o.t, m.kind, m.t
                        ),
                    )
                }
            }
        };
        (format!("{pattern}{TAIL}"), prose)
    }

    fn is_rename_variant(&self) -> bool {
        self.variant == LockVariant::TempThenRename
    }
}
