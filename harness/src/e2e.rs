//! The repository's e2e corpus (test/src/e2e_vm_tests/test_programs) as a workload source:
//! a private copy under the property's work dir (reduced std libs populated from
//! /repo/sway-lib-std exactly as the e2e harness does), and the `run` test descriptions.

use crate::common::*;
use crate::engine::Outcome;
use std::path::{Path, PathBuf};

const E2E: &str = "/repo/test/src/e2e_vm_tests";

fn copy_tree(from: &Path, to: &Path) -> std::io::Result<()> {
    for entry in walkdir::WalkDir::new(from).into_iter().filter_map(|e| e.ok()) {
        let rel = entry.path().strip_prefix(from).unwrap();
        // build output of previous forc runs is not part of the corpus
        if rel.components().any(|c| c.as_os_str() == "out") {
            continue;
        }
        let dst = to.join(rel);
        if entry.file_type().is_dir() {
            std::fs::create_dir_all(&dst)?;
        } else if entry.file_type().is_file() {
            if let Some(p) = dst.parent() {
                std::fs::create_dir_all(p)?;
            }
            std::fs::copy(entry.path(), &dst)?;
        }
    }
    Ok(())
}

/// Make (once per run) the private corpus copy for property `prop`; returns the directory that
/// plays the role of /repo/test/src/e2e_vm_tests.
pub fn prepare(prop: &str) -> Result<PathBuf, String> {
    let base = work_dir(prop).join("e2e");
    let root = base.join("test/src/e2e_vm_tests");
    let marker = base.join(".ready");
    std::fs::create_dir_all(&base).map_err(|e| e.to_string())?;
    let lock = std::fs::File::create(base.join(".lock")).map_err(|e| e.to_string())?;
    unsafe {
        use std::os::fd::AsRawFd;
        libc::flock(lock.as_raw_fd(), libc::LOCK_EX);
    }
    if marker.exists() {
        return Ok(root);
    }
    copy_tree(&Path::new(E2E).join("test_programs"), &root.join("test_programs")).map_err(|e| format!("copy test_programs: {e}"))?;
    copy_tree(&Path::new(E2E).join("reduced_std_libs"), &root.join("reduced_std_libs")).map_err(|e| format!("copy reduced libs: {e}"))?;
    // tests refer to the real std by relative path (../../../../../../../sway-lib-std)
    let link = base.join("sway-lib-std");
    let _ = std::fs::remove_file(&link);
    std::os::unix::fs::symlink("/repo/sway-lib-std", &link).map_err(|e| format!("symlink std: {e}"))?;
    // populate reduced std libs as test/src/reduced_std_libs.rs does
    for entry in std::fs::read_dir(root.join("reduced_std_libs")).map_err(|e| e.to_string())?.flatten() {
        let dir = entry.path();
        let cfg = dir.join("reduced_lib.config");
        if !cfg.exists() {
            continue;
        }
        let modules = std::fs::read_to_string(&cfg).map_err(|e| e.to_string())?;
        for m in modules.lines().map(|l| l.trim()).filter(|l| !l.is_empty()) {
            let from = Path::new("/repo/sway-lib-std/src").join(m);
            let to = dir.join("src").join(m);
            if let Some(p) = to.parent() {
                std::fs::create_dir_all(p).map_err(|e| e.to_string())?;
            }
            std::fs::copy(&from, &to).map_err(|e| format!("reduced lib module {m}: {e}"))?;
        }
    }
    std::fs::write(&marker, "ok").map_err(|e| e.to_string())?;
    Ok(root)
}

#[derive(Clone, Debug)]
pub enum Expected {
    Return(u64),
    ReturnData(Vec<u8>),
    Revert(u64),
}

impl Expected {
    pub fn matches(&self, o: &Outcome) -> bool {
        match (self, o) {
            (Expected::Return(a), Outcome::Return(b)) => a == b,
            (Expected::ReturnData(a), Outcome::ReturnData(b)) => a == b,
            (Expected::Revert(a), Outcome::Revert(b)) => a == b,
            _ => false,
        }
    }
}

#[derive(Clone, Debug)]
pub struct RunTest {
    /// path relative to test_programs
    pub name: String,
    pub dir: PathBuf,
    pub script_data: Vec<u8>,
    pub expected: Option<Expected>,
    pub unsupported_profiles: Vec<String>,
    pub uses_full_std: bool,
}

fn hex_field(t: &toml::Value, key: &str) -> Option<Vec<u8>> {
    t.get(key).and_then(|v| v.as_str()).and_then(|s| hex::decode(s.replace(' ', "")).ok())
}

fn expected_field(t: &toml::Value, key: &str) -> Option<Expected> {
    let tab = t.get(key)?;
    let action = tab.get("action")?.as_str()?;
    let value = tab.get("value")?;
    match (action, value) {
        ("return", toml::Value::Integer(v)) => Some(Expected::Return(*v as u64)),
        ("return_data", toml::Value::String(s)) => hex::decode(s.replace(' ', "")).ok().map(Expected::ReturnData),
        ("revert", toml::Value::Integer(v)) => Some(Expected::Revert(*v as u64)),
        _ => None,
    }
}

/// All `category = "run"` tests of should_pass that use the default experimental settings
/// (new encoding), target the FuelVM and need no deployed contracts. Sorted by name.
pub fn list_run_tests(root: &Path) -> Vec<RunTest> {
    let mut out = vec![];
    let sp = root.join("test_programs/should_pass");
    for entry in walkdir::WalkDir::new(&sp).into_iter().filter_map(|e| e.ok()) {
        if entry.file_name() != "test.toml" {
            continue;
        }
        let Ok(text) = std::fs::read_to_string(entry.path()) else { continue };
        let Ok(t) = text.parse::<toml::Value>() else { continue };
        if t.get("experimental").is_some() {
            continue;
        }
        let cat = t.get("category_new_encoding").or_else(|| t.get("category")).and_then(|c| c.as_str()).unwrap_or("");
        if cat != "run" {
            continue;
        }
        if let Some(targets) = t.get("supported_targets").and_then(|v| v.as_array()) {
            if !targets.iter().any(|x| x.as_str() == Some("fuel")) {
                continue;
            }
        }
        if t.get("contracts").and_then(|c| c.as_array()).map(|a| !a.is_empty()).unwrap_or(false) {
            continue;
        }
        if t.get("witness_data").is_some() {
            continue;
        }
        let dir = entry.path().parent().unwrap().to_path_buf();
        let manifest = std::fs::read_to_string(dir.join("Forc.toml")).unwrap_or_default();
        if manifest.contains("contract-dependencies") {
            continue;
        }
        let name = dir.strip_prefix(root.join("test_programs")).unwrap().to_string_lossy().to_string();
        let script_data = hex_field(&t, "script_data_new_encoding").or_else(|| hex_field(&t, "script_data")).unwrap_or_default();
        let expected = expected_field(&t, "expected_result_new_encoding").or_else(|| expected_field(&t, "expected_result"));
        let unsupported_profiles = t.get("unsupported_profiles").and_then(|v| v.as_array()).map(|a| a.iter().filter_map(|x| x.as_str().map(|s| s.to_string())).collect()).unwrap_or_default();
        let uses_full_std = manifest.contains("/sway-lib-std\"");
        out.push(RunTest { name, dir, script_data, expected, unsupported_profiles, uses_full_std });
    }
    out.sort_by(|a, b| a.name.cmp(&b.name));
    out
}

/// Package directories of should_pass tests of category `run` or `compile` (scripts, contracts,
/// predicates, libraries) that use the default experimental settings and have no contract
/// dependencies: (name, dir, is_contract). Sorted by name, contracts first.
pub fn list_buildable_tests(root: &Path) -> Vec<(String, PathBuf, bool)> {
    let mut out = vec![];
    let sp = root.join("test_programs/should_pass");
    for entry in walkdir::WalkDir::new(&sp).into_iter().filter_map(|e| e.ok()) {
        if entry.file_name() != "test.toml" {
            continue;
        }
        let Ok(text) = std::fs::read_to_string(entry.path()) else { continue };
        let Ok(t) = text.parse::<toml::Value>() else { continue };
        if t.get("experimental").is_some() {
            continue;
        }
        let cat = t.get("category_new_encoding").or_else(|| t.get("category")).and_then(|c| c.as_str()).unwrap_or("");
        if cat != "run" && cat != "compile" {
            continue;
        }
        if let Some(targets) = t.get("supported_targets").and_then(|v| v.as_array()) {
            if !targets.iter().any(|x| x.as_str() == Some("fuel")) {
                continue;
            }
        }
        let dir = entry.path().parent().unwrap().to_path_buf();
        let manifest = std::fs::read_to_string(dir.join("Forc.toml")).unwrap_or_default();
        if manifest.is_empty() || manifest.contains("contract-dependencies") || manifest.contains("[workspace]") {
            continue;
        }
        let main = std::fs::read_to_string(dir.join("src/main.sw")).unwrap_or_default();
        let is_contract = main.trim_start().starts_with("contract;");
        let name = dir.strip_prefix(root.join("test_programs")).unwrap().to_string_lossy().to_string();
        out.push((name, dir, is_contract));
    }
    out.sort_by(|a, b| (!a.2, &a.0).cmp(&(!b.2, &b.0)));
    out
}

/// Deterministic slice of the corpus for (seed, shard): tests are dealt round-robin over the
/// shards after a seed-dependent rotation.
pub fn slice_for<T: Clone>(all: &[T], seed: u64, shard: u64, nshards: u64) -> Vec<T> {
    let n = all.len() as u64;
    if n == 0 {
        return vec![];
    }
    let rot = seed % n;
    (0..n).filter(|i| i % nshards == shard).map(|i| all[((i + rot) % n) as usize].clone()).collect()
}
