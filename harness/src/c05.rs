//! C05: IR text round-trips.
//! Monitor (hook H1): at every stage of the real debug and release pipelines the IR is printed,
//! parsed back, printed, parsed and printed again; finally the program is compiled from the
//! re-parsed IR and must behave like the normally compiled one. Plus the IR files of
//! sway-ir/tests.
use crate::common::*;
use crate::engine::*;
use crate::irhook::*;
use crate::swrun::*;
use crate::{Plan, Prop};
use serde_json::{json, Value};
use std::panic::AssertUnwindSafe;

pub static META: PropertyMeta = PropertyMeta {
    id: "C05",
    level: "exploration",
    rule: "SwGen programs x {debug, release} pipelines: T1 = print(ir), T2 = print(parse(T1)), T3 = print(parse(T2)) after every pass (stages); parse failures, T2 != T1 beyond value/metadata renumbering and T3 != T2 are reported; the bytecode compiled from parse(print(final ir)) runs on 8 inputs against the normal build; plus every .ir file under sway-ir/tests (shard 0); an evaluation = one (program, profile); non-trivial = >= 5 stages round-tripped and the substituted build executed; distinct = hash of (source, profile)",
    assumptions: &["the parser's own verify() call is what 'verifies' means", "fuel-vm 0.66 is the trusted execution substrate"],
    floor_evaluations: 30,
    floor_nontrivial: 10,
    required_counters: &["stages_roundtripped", "substituted_builds_executed", "instr_kinds_seen"],
};

pub static PROP: Prop = Prop {
    meta: &META,
    plan: |t| Plan { nshards: 16, budget_s: t.pick(55.0, 540.0), mem_gib: 6 },
    shard,
    replay,
    extra: crate::no_extra,
    subcommand: crate::no_subcommand,
};

pub const RENUMBER_SIG: &str = "roundtrip-renumbers-value-names";

/// An event detail is `<class>\u{1}<human readable detail>`.
fn split_detail(d: &str) -> (&str, &str) {
    d.split_once('\u{1}').unwrap_or((d, d))
}

fn classify(log: &HookLog, profile: Profile, res: &mut ShardResult, replay: &Value, kinds: &mut std::collections::BTreeSet<String>) {
    kinds.extend(log.instr_kinds.iter().cloned());
    let mut renumbered = 0u64;
    // every class is reported once per shard process (with the first witness); further
    // occurrences are only counted
    static REPORTED: std::sync::Mutex<std::collections::BTreeSet<String>> = std::sync::Mutex::new(std::collections::BTreeSet::new());
    let mut reported = REPORTED.lock().unwrap();
    for ev in &log.rt {
        res.count("stages_roundtripped");
        let (class, human) = split_detail(&ev.detail);
        match ev.kind.as_str() {
            "ok" => res.count("stages_identical_text"),
            "renumbered" => renumbered += 1,
            "parse-failure" | "parse-failure-second" => {
                let sig = format!("ir-parse-failure:{class}");
                res.count("stages_not_parsable");
                // one report per class and module
                res.count(&format!("class.{sig}"));
                if reported.insert(sig.clone()) {
                    res.violation(sig, format!("[{} after {}] printed IR is rejected by the IR parser: {}", profile.name(), ev.stage, human.chars().take(200).collect::<String>()), replay.clone());
                }
            }
            "text-differs" | "second-roundtrip-differs" => {
                res.count("stages_text_differs");
                for c in class.split('|') {
                    let sig = format!("{}:{c}", if ev.kind == "text-differs" { "roundtrip-text-differs" } else { "second-roundtrip-differs" });
                    res.count(&format!("class.{sig}"));
                    if reported.insert(sig.clone()) {
                        res.violation(sig, format!("[{} after {}] print(parse(print(ir))) differs from print(ir) beyond renumbering; first differing line: {}", profile.name(), ev.stage, human.chars().take(300).collect::<String>()), replay.clone());
                    }
                }
            }
            _ => {}
        }
    }
    if renumbered > 0 {
        res.add("stages_renumbered_only", renumbered);
        // one aggregated report per shard
        if reported.insert(RENUMBER_SIG.to_string()) {
            res.violation(RENUMBER_SIG, format!("print -> parse -> print renames SSA values / metadata indices ({renumbered} stages of this module); the texts are equal after renaming in order of first occurrence"), json!({"note": "aggregated; see any stage of any module"}));
        }
    }
}

/// Class of the error with which the re-parsed IR is rejected by the rest of the pipeline.
fn not_compilable_class(am: &mut Amortised, src: &str, profile: Profile) -> String {
    let dir = am.write_unique(src);
    let cfg = HookCfg { roundtrip_each: false, substitute_final: true, ..Default::default() };
    let (d, _) = with_hook(cfg, false, || catch(AssertUnwindSafe(|| am.diagnose_dir(&dir, profile))));
    let _ = std::fs::remove_dir_all(&dir);
    match d {
        Ok(Ok((errs, _))) => errs.first().map(|e| bucket(&format!("{e}").chars().take(70).collect::<String>())).unwrap_or_else(|| "no diagnostic".into()),
        _ => "diagnostics unavailable".into(),
    }
}

fn run_one(am: &mut Amortised, case: &Case, profile: Profile, res: &mut ShardResult, kinds: &mut std::collections::BTreeSet<String>) {
    res.evaluations += 1;
    let replay = case.replay_json(json!({"profile": profile.name()}));
    // normal build
    let normal = match catch(AssertUnwindSafe(|| am.compile("gencase", &case.src, profile))) {
        Ok(Ok(c)) => c,
        _ => {
            res.count("rejected");
            let _ = std::fs::remove_dir_all(am.last_dir());
            return;
        }
    };
    let cfg = HookCfg { roundtrip_each: true, substitute_final: true, ..Default::default() };
    let (r, log) = with_hook(cfg, false, || catch(AssertUnwindSafe(|| am.compile("gencase", &case.src, profile))));
    classify(&log, profile, res, &replay, kinds);
    let sub = match r {
        Ok(Ok(c)) => c,
        Ok(Err(_)) => {
            let _ = std::fs::remove_dir_all(am.last_dir());
            // the normal build succeeded: the re-parsed IR is not accepted (unless the parser already failed above)
            if !log.rt.iter().any(|e| e.kind.starts_with("parse-failure")) {
                let class = not_compilable_class(am, &case.src, profile);
                res.violation(format!("reparsed-ir-not-compilable:{class}"), format!("[{}] the program compiles normally but not from parse(print(final ir)): {class}", profile.name()), replay);
            }
            am.remove(&normal);
            return;
        }
        Err((loc, msg)) => {
            res.violation(format!("roundtrip-panic:{}", panic_signature(&loc, &msg)), format!("[{}] panic while round-tripping / compiling re-parsed IR at {loc}: {}", profile.name(), msg.chars().take(160).collect::<String>()), replay);
            let _ = std::fs::remove_dir_all(am.last_dir());
            am.remove(&normal);
            return;
        }
    };
    res.count("substituted_builds_executed");
    if sub.pkg.bytecode.bytes == normal.pkg.bytecode.bytes {
        res.count("substituted_bytecode_identical");
    }
    for (k, d) in case.script_data.iter().enumerate() {
        let a = run_script(&normal.pkg.bytecode.bytes, d);
        let b = run_script(&sub.pkg.bytecode.bytes, d);
        res.count("executions_compared");
        if !(a.outcome == b.outcome && a.logs == b.logs) {
            res.violation(format!("reparsed-ir-behaves-differently:{:016x}", hash64(case.src.as_bytes())), format!("[{} input {k}] normal build: {} / build from re-parsed IR: {}", profile.name(), a.short(), b.short()), replay.clone());
            break;
        }
    }
    if log.rt.len() >= 5 {
        res.note_nontrivial(hash64(format!("{}{}", case.src, profile.name()).as_bytes()));
    }
    if res.samples.len() < 2 {
        res.sample(json!({"profile": profile.name(), "stages": log.rt.iter().map(|e| format!("{}:{}", e.stage, e.kind)).collect::<Vec<_>>(), "source_head": case.src.lines().take(8).collect::<Vec<_>>()}));
    }
    am.remove(&normal);
    am.remove(&sub);
}

/// The .ir files of sway-ir/tests: parse -> print -> parse -> print must reach a fix point.
fn ir_test_files(res: &mut ShardResult) {
    let se = sway_types::SourceEngine::default();
    for entry in walkdir::WalkDir::new("/repo/sway-ir/tests").into_iter().filter_map(|e| e.ok()) {
        if entry.path().extension().map(|x| x == "ir").unwrap_or(false) {
            let Ok(text) = std::fs::read_to_string(entry.path()) else { continue };
            res.evaluations += 1;
            res.count("ir_test_files");
            let rel = entry.path().strip_prefix("/repo").unwrap().display().to_string();
            // these files are written in the old-encoding dialect; the repository's own IR tests
            // (sway-ir/tests/tests.rs) parse them with new_encoding = false, so does this monitor
            let exp = sway_features::ExperimentalFeatures { new_encoding: false, ..Default::default() };
            let r = catch(AssertUnwindSafe(|| {
                let m0 = sway_ir::parser::parse(&text, &se, exp, sway_ir::Backtrace::default()).map_err(|e| e.to_string())?;
                let t1 = sway_ir::printer::to_string(&m0);
                let m1 = sway_ir::parser::parse(&t1, &se, exp, sway_ir::Backtrace::default()).map_err(|e| format!("printed text rejected: {e}"))?;
                let t2 = sway_ir::printer::to_string(&m1);
                Ok::<(String, String), String>((t1, t2))
            }));
            match r {
                Ok(Ok((t1, t2))) => {
                    res.count("stages_roundtripped");
                    if t1 == t2 {
                        res.count("stages_identical_text");
                    } else if canonical_names(&t1) == canonical_names(&t2) {
                        res.violation(RENUMBER_SIG, "print -> parse -> print renames SSA values / metadata indices".to_string(), json!({"ir_file": rel}));
                    } else {
                        res.violation(format!("roundtrip-text-differs:irfile:{rel}"), format!("{rel}: print(parse(print(m))) differs from print(m)"), json!({"ir_file": rel}));
                    }
                }
                Ok(Err(e)) => {
                    if e.starts_with("printed text rejected") {
                        res.violation(format!("ir-parse-failure:irfile:{rel}"), format!("{rel}: {e}"), json!({"ir_file": rel}));
                    } else {
                        res.count("ir_test_files_not_parsable_as_given");
                    }
                }
                Err((loc, msg)) => res.violation(format!("roundtrip-panic:{}", panic_signature(&loc, &msg)), format!("{rel}: panic at {loc}: {msg}"), json!({"ir_file": rel})),
            }
        }
    }
}

fn shard(ctx: &ShardCtx) -> ShardResult {
    let mut res = ShardResult::default();
    let mut kinds = std::collections::BTreeSet::new();
    if ctx.shard == 0 && ctx.first_index == 0 {
        ir_test_files(&mut res);
    }
    let mut am = Amortised::new(&ctx.work());
    if let Err(e) = am.warm() {
        res.harness_fault = Some(format!("std does not compile: {e}"));
        return res;
    }
    let mut i = ctx.first_index;
    let clock = ctx.clock();
    // round-tripping every stage of a large corpus program is slow: generous per-case watchdog
    set_watchdog_limit(std::time::Duration::from_secs(240));
    // corpus programs (contracts first: storage, contract-call, asm-block and message
    // instructions that generated scripts never contain): every stage of the real pipeline
    // is round-tripped; the build from the re-parsed IR must produce the same bytecode
    if ctx.first_index == 0 {
        if let Ok(root) = crate::e2e::prepare("C05") {
            let all = crate::e2e::list_buildable_tests(&root);
            let mine = crate::e2e::slice_for(&all, ctx.seed, ctx.shard, ctx.nshards);
            for (name, dir, _) in mine {
                if clock.elapsed() > ctx.budget.mul_f64(0.3) {
                    break;
                }
                let profile = if hash64(name.as_bytes()) % 2 == 0 { Profile::Debug } else { Profile::Release };
                ctx.begin_case(0, &format!("e2e {name}"), &res);
                let normal = catch(AssertUnwindSafe(|| plain_build(&dir, profile)));
                let cfg = HookCfg { roundtrip_each: true, substitute_final: true, ..Default::default() };
                let (sub, log) = with_hook(cfg, false, || catch(AssertUnwindSafe(|| plain_build(&dir, profile))));
                ctx.end_case();
                let Ok(Ok(normal)) = normal else {
                    res.count("e2e_not_buildable");
                    continue;
                };
                res.evaluations += 1;
                res.count("e2e_programs_roundtripped");
                let replay = json!({"e2e": name, "profile": profile.name()});
                classify(&log, profile, &mut res, &replay, &mut kinds);
                match sub {
                    Ok(Ok(sub)) => {
                        res.count("substituted_builds_executed");
                        if sub.bytecode.bytes != normal.bytecode.bytes {
                            res.violation(format!("reparsed-ir-gives-different-bytecode:e2e:{name}"), format!("e2e program {name} ({}): the build from parse(print(final ir)) differs from the normal build", profile.name()), replay);
                        } else {
                            res.count("substituted_bytecode_identical");
                        }
                        if log.rt.len() >= 5 {
                            res.note_nontrivial(hash64(format!("{name}{}", profile.name()).as_bytes()));
                        }
                    }
                    Ok(Err(_)) => {
                        if !log.rt.iter().any(|e| e.kind.starts_with("parse-failure")) {
                            res.violation("reparsed-ir-not-compilable:e2e-program".to_string(), format!("e2e program {name} ({}) compiles normally but not from parse(print(final ir))", profile.name()), replay);
                        }
                    }
                    Err((loc, msg)) => res.violation(format!("roundtrip-panic:{}", panic_signature(&loc, &msg)), format!("e2e program {name}: panic at {loc}: {}", msg.chars().take(160).collect::<String>()), replay),
                }
            }
        }
    }
    while clock.left() {
        let mut scratch = ShardResult::default();
        let case = case_at(ctx.seed ^ 0x0c05, ctx.shard, i / 2, 8, &mut scratch);
        let profile = if i % 2 == 0 { Profile::Debug } else { Profile::Release };
        ctx.begin_case(i, &format!("// origin: {:?} {}\n{}", case.origin, profile.name(), case.src), &res);
        run_one(&mut am, &case, profile, &mut res, &mut kinds);
        ctx.end_case();
        res.counters.insert("instr_kinds_seen".into(), kinds.len() as u64);
        i += 1;
    }
    res.counters.insert("max_instr_kinds_seen".into(), kinds.len() as u64);
    if res.samples.len() < 4 {
        res.sample(json!({"instruction_kinds_seen_in_printed_ir": kinds.iter().take(80).collect::<Vec<_>>()}));
    }
    res
}

fn replay(v: &Value) -> ShardResult {
    let mut res = ShardResult::default();
    let mut kinds = std::collections::BTreeSet::new();
    if v.get("ir_file").is_some() || v.get("note").is_some() {
        ir_test_files(&mut res);
        return res;
    }
    let work = work_dir("C05").join("replay");
    clean_dir(&work);
    let mut am = Amortised::new(&work);
    let Some(case) = case_from_replay(v) else {
        res.harness_fault = Some("the generator no longer reproduces the recorded program".into());
        return res;
    };
    let profile = if v["extra"]["profile"].as_str() == Some("release") { Profile::Release } else { Profile::Debug };
    run_one(&mut am, &case, profile, &mut res, &mut kinds);
    res
}
