//! C27 numerics: boundary-biased inputs + BigUint reference models for std U128, u256, the
//! narrow integers' std math (pow / sqrt / log / log2, wrapping_*, shifts) and the primitive
//! conversions. An evaluation whose model result is "reverts" (overflow, division by zero,
//! log/sqrt domain error under the default VM flags) is generated only as the LAST statement of
//! a test that is expected to revert.
use super::{e_bool, e_opt, e_u64, Sizes, TestCase, TB};
use num_bigint::BigUint;
use rand::{rngs::StdRng, Rng};

#[derive(Clone, Copy, PartialEq, Eq, Debug)]
pub enum NT {
    U8,
    U16,
    U32,
    U64,
    U128,
    U256,
}

fn big(v: u64) -> BigUint {
    BigUint::from(v)
}
fn pow2(k: u32) -> BigUint {
    BigUint::from(1u8) << (k as usize)
}
fn is_zero(v: &BigUint) -> bool {
    v.bits() == 0
}
fn to_u64(v: &BigUint) -> u64 {
    let d = v.to_u64_digits();
    d.first().copied().unwrap_or(0)
}

impl NT {
    pub fn bits(self) -> u32 {
        match self {
            NT::U8 => 8,
            NT::U16 => 16,
            NT::U32 => 32,
            NT::U64 => 64,
            NT::U128 => 128,
            NT::U256 => 256,
        }
    }
    /// Sway type name
    pub fn name(self) -> &'static str {
        match self {
            NT::U8 => "u8",
            NT::U16 => "u16",
            NT::U32 => "u32",
            NT::U64 => "u64",
            NT::U128 => "U128",
            NT::U256 => "u256",
        }
    }
    pub fn tag(self) -> &'static str {
        match self {
            NT::U128 => "u128",
            o => o.name(),
        }
    }
    pub fn modulus(self) -> BigUint {
        pow2(self.bits())
    }
    pub fn max(self) -> BigUint {
        self.modulus() - 1u8
    }
    pub fn fits(self, v: &BigUint) -> bool {
        v.bits() <= self.bits() as u64
    }
    /// an expression of this type with value v that the optimiser cannot fold
    pub fn expr(self, v: &BigUint) -> String {
        debug_assert!(self.fits(v));
        match self {
            NT::U8 => format!("o8({v}u8)"),
            NT::U16 => format!("o16({v}u16)"),
            NT::U32 => format!("o32({v}u32)"),
            NT::U64 => format!("o64({v}u64)"),
            NT::U256 => format!("o256(0x{v:064x}u256)"),
            NT::U128 => {
                let hi = v >> 64usize;
                let lo = v & &(pow2(64) - 1u8);
                format!("U128::from((o64({hi}u64), o64({lo}u64)))")
            }
        }
    }
    /// canonical ABI encoding
    pub fn enc(self, v: &BigUint) -> Vec<u8> {
        let n = (self.bits() / 8) as usize;
        let b = v.to_bytes_be();
        let b: Vec<u8> = if is_zero(v) { vec![] } else { b };
        let mut o = vec![0u8; n.saturating_sub(b.len())];
        o.extend(b);
        debug_assert_eq!(o.len(), n);
        o
    }
    fn prims_narrower(self) -> Vec<NT> {
        [NT::U8, NT::U16, NT::U32, NT::U64].into_iter().filter(|t| t.bits() < self.bits()).collect()
    }
}

/// boundary-biased value of the type + the name of its class
pub fn gen_val(rng: &mut StdRng, t: NT) -> (BigUint, &'static str) {
    let bits = t.bits();
    let max = t.max();
    let r = rng.gen_range(0..100);
    let (v, c): (BigUint, &'static str) = match r {
        0..=8 => (big(0), "zero"),
        9..=15 => (big(1), "one"),
        16..=19 => (big(2), "two"),
        20..=27 => (big(rng.gen_range(3..=16)), "small"),
        28..=36 => (max.clone(), "max"),
        37..=41 => (max.clone() - 1u8, "max-1"),
        42..=50 => (pow2(rng.gen_range(2..bits)), "pow2"),
        51..=57 => (pow2(rng.gen_range(2..=bits)) - 1u8, "pow2-1"),
        58..=63 => (pow2(rng.gen_range(2..bits)) + 1u8, "pow2+1"),
        64..=67 => (pow2(bits - 1), "half"),
        68..=75 => {
            // around a perfect square
            let nb = rng.gen_range(1..=bits / 2);
            let k = rand_bits(rng, nb);
            let sq = &k * &k;
            match rng.gen_range(0..3) {
                0 => (sq, "square"),
                1 if !is_zero(&sq) => (sq - 1u8, "square-1"),
                _ => (sq + 1u8, "square+1"),
            }
        }
        76..=82 if bits > 64 => {
            // around a machine word boundary
            let k = 64 * rng.gen_range(1..bits / 64);
            match rng.gen_range(0..3) {
                0 => (pow2(k), "word"),
                1 => (pow2(k) - 1u8, "word-1"),
                _ => (pow2(k) + 1u8, "word+1"),
            }
        }
        83..=89 if bits > 8 => narrow_boundary(rng, t),
        _ => {
            let nb = rng.gen_range(1..=bits);
            (rand_bits(rng, nb), "random")
        }
    };
    if !t.fits(&v) {
        return (max, "max");
    }
    // the class of a special value does not depend on how it was drawn
    let c = if is_zero(&v) {
        "zero"
    } else if v == big(1) {
        "one"
    } else if v == big(2) {
        "two"
    } else if v == max {
        "max"
    } else {
        c
    };
    (v, c)
}

/// `U128::log` / `u256::log` first estimate the result as floor(log2 a) / floor(log2 base) and then
/// correct the over-estimate by computing base^estimate. On the unchanged tree that correction is
/// defective exactly when base^estimate overflows the type (genuine defect, see
/// known_findings.d/C27.json): this region is explored through a FIXED enumerated set of inputs
/// (each with its own signature), everything outside of it randomly.
pub fn log_estimate_overflows(t: NT, a: &BigUint, base: &BigUint) -> bool {
    if is_zero(a) || base.bits() <= 1 || a < base {
        return false;
    }
    let est = (a.bits() - 1) / (base.bits() - 1);
    m_pow(t, base, est as u32).is_none()
}

/// The enumerated inputs of the defective region of `log` for U128 / u256.
pub fn log_enum(t: NT) -> Vec<(BigUint, BigUint)> {
    let bits = t.bits();
    let largest_pow = |b: u64| {
        let mut p = big(b);
        while t.fits(&(&p * big(b))) {
            p *= big(b);
        }
        p
    };
    let avals = vec![t.max(), pow2(bits - 1), pow2(bits - 1) + 1u8, largest_pow(10), largest_pow(3), pow2(bits - 8) - 1u8];
    let bases = vec![big(3), big(7), big(10), big(65537)];
    let mut out = vec![];
    for a in &avals {
        for b in &bases {
            if log_estimate_overflows(t, a, b) {
                out.push((a.clone(), b.clone()));
            }
        }
    }
    out
}

pub fn log_enum_class(a: &BigUint, b: &BigUint) -> String {
    format!("enum:a={a:#x},base={b}")
}

/// a value around the maximum of a narrower integer type (where conversions change behaviour)
fn narrow_boundary(rng: &mut StdRng, t: NT) -> (BigUint, &'static str) {
    let ns: Vec<u32> = [8u32, 16, 32, 64].into_iter().filter(|n| *n < t.bits()).collect();
    let n = ns[rng.gen_range(0..ns.len())];
    match rng.gen_range(0..3) {
        0 => (pow2(n) - 1u8, "narrow-max"),
        1 => (pow2(n), "narrow-max+1"),
        _ => (pow2(n) + 1u8, "narrow-max+2"),
    }
}

/// uniformly random value with at most `bits` bits
fn rand_bits(rng: &mut StdRng, bits: u32) -> BigUint {
    let nbytes = ((bits + 7) / 8) as usize;
    let mut b = vec![0u8; nbytes];
    rng.fill(&mut b[..]);
    BigUint::from_bytes_be(&b) & (pow2(bits) - 1u8)
}

/// One evaluated function: statements, the logged expressions with the model's value, or the
/// expression that the model says reverts.
pub struct Item {
    pub t: NT,
    pub f: String,
    pub op: String,
    pub class: String,
    pub pre: Vec<String>,
    pub logs: Vec<(String, Vec<u8>)>,
    /// (helper call, expected observations) for calls that log several values
    pub dumps: Vec<(String, Vec<Vec<u8>>)>,
    pub reverting: Option<String>,
    pub classes: Vec<&'static str>,
}

impl Item {
    fn new(t: NT, f: &str) -> Item {
        Item { t, f: f.to_string(), op: format!("{}.{f}", t.tag()), class: String::new(), pre: vec![], logs: vec![], dumps: vec![], reverting: None, classes: vec![] }
    }
    fn operand(&mut self, t: NT, name: &str, v: &BigUint, class: &'static str) {
        self.pre.push(format!("let {name}: {} = {};", t.name(), t.expr(v)));
        if !self.class.is_empty() {
            self.class.push('/');
        }
        self.class.push_str(class);
        self.classes.push(class);
    }
    /// result of type t (None = the model says the evaluation reverts)
    fn result(&mut self, t: NT, expr: String, r: Option<BigUint>) {
        match r {
            Some(v) => self.logs.push((expr, t.enc(&v))),
            None => self.reverting = Some(format!("log({expr});")),
        }
    }
}

// ---- reference models ---------------------------------------------------------------------

pub fn m_add(t: NT, a: &BigUint, b: &BigUint) -> Option<BigUint> {
    let r = a + b;
    t.fits(&r).then_some(r)
}
pub fn m_sub(_t: NT, a: &BigUint, b: &BigUint) -> Option<BigUint> {
    (a >= b).then(|| a - b)
}
pub fn m_mul(t: NT, a: &BigUint, b: &BigUint) -> Option<BigUint> {
    let r = a * b;
    t.fits(&r).then_some(r)
}
pub fn m_div(_t: NT, a: &BigUint, b: &BigUint) -> Option<BigUint> {
    (!is_zero(b)).then(|| a / b)
}
pub fn m_rem(_t: NT, a: &BigUint, b: &BigUint) -> Option<BigUint> {
    (!is_zero(b)).then(|| a % b)
}
pub fn m_pow(t: NT, a: &BigUint, e: u32) -> Option<BigUint> {
    if e == 0 {
        return Some(big(1));
    }
    if a.bits() <= 1 {
        return Some(a.clone()); // 0 or 1
    }
    // a >= 2: a^e >= 2^(e * floor(log2 a))
    if (e as u64) * (a.bits() - 1) >= t.bits() as u64 {
        return None;
    }
    let r = a.pow(e);
    t.fits(&r).then_some(r)
}
pub fn m_sqrt(a: &BigUint) -> BigUint {
    a.sqrt()
}
pub fn m_log2(a: &BigUint) -> Option<BigUint> {
    (!is_zero(a)).then(|| big(a.bits() - 1))
}
pub fn m_log(a: &BigUint, base: &BigUint) -> Option<BigUint> {
    if is_zero(a) || base.bits() <= 1 {
        return None;
    }
    let mut r = 0u64;
    let mut p = base.clone();
    while &p <= a {
        p *= base;
        r += 1;
    }
    Some(big(r))
}
pub fn m_shl(t: NT, a: &BigUint, n: u64) -> BigUint {
    if n >= t.bits() as u64 {
        big(0)
    } else {
        (a << (n as usize)) % t.modulus()
    }
}
pub fn m_shr(t: NT, a: &BigUint, n: u64) -> BigUint {
    if n >= t.bits() as u64 {
        big(0)
    } else {
        a >> (n as usize)
    }
}

// ---- item generators -----------------------------------------------------------------------

fn pick<'a, T>(rng: &mut StdRng, xs: &'a [T]) -> &'a T {
    &xs[rng.gen_range(0..xs.len())]
}

/// a second operand related to the first one (equal, neighbours, divisor, ...) or independent
fn second(rng: &mut StdRng, t: NT, a: &BigUint) -> (BigUint, &'static str) {
    match rng.gen_range(0..10) {
        0 => (a.clone(), "same"),
        1 if !is_zero(a) => (a - 1u8, "a-1"),
        2 if a < &t.max() => (a + 1u8, "a+1"),
        3 => (t.max() - a, "complement"),
        _ => gen_val(rng, t),
    }
}

fn gen_arith(rng: &mut StdRng, t: NT, id: usize, prefer_ok: bool, force: Option<&str>) -> Item {
    let prim = t != NT::U128;
    let fns: &[&str] = if prim {
        &["add", "sub", "mul", "div", "rem", "wrapping_add", "wrapping_sub", "wrapping_mul", "and", "or", "xor", "not", "lsh", "rsh", "cmp", "minmax", "pow", "sqrt", "log", "log2", "is_zero", "consts"]
    } else {
        &["add", "sub", "mul", "div", "rem", "and", "or", "not", "lsh", "rsh", "cmp", "minmax", "pow", "sqrt", "log", "log2", "is_zero", "consts"]
    };
    let f = match force {
        Some(f) => f,
        None => *pick(rng, fns),
    };
    let mut it = Item::new(t, f);
    let (an, bn) = (format!("a{id}"), format!("b{id}"));
    let (mut a, mut ca) = gen_val(rng, t);
    match f {
        "add" | "sub" | "mul" | "div" | "rem" | "wrapping_add" | "wrapping_sub" | "wrapping_mul" | "and" | "or" | "xor" | "cmp" | "minmax" => {
            let (mut b, mut cb) = second(rng, t, &a);
            if prefer_ok {
                // steer towards operands for which the operation is defined
                match f {
                    "sub" if a < b => {
                        std::mem::swap(&mut a, &mut b);
                        std::mem::swap(&mut ca, &mut cb);
                    }
                    "add" if !t.fits(&(&a + &b)) => {
                        b = t.max() - &a;
                        if rng.gen_bool(0.5) && !is_zero(&b) {
                            b -= 1u8;
                        }
                        cb = "to-max";
                    }
                    "mul" if !t.fits(&(&a * &b)) => {
                        if is_zero(&a) {
                            a = big(1);
                            ca = "one";
                        }
                        b = t.max() / &a;
                        cb = "max-quotient";
                    }
                    "div" | "rem" if is_zero(&b) => {
                        b = big(rng.gen_range(1..=7));
                        cb = "small";
                    }
                    _ => {}
                }
            }
            it.operand(t, &an, &a, ca);
            it.operand(t, &bn, &b, cb);
            match f {
                "add" => it.result(t, format!("{an} + {bn}"), m_add(t, &a, &b)),
                "sub" => it.result(t, format!("{an} - {bn}"), m_sub(t, &a, &b)),
                "mul" => it.result(t, format!("{an} * {bn}"), m_mul(t, &a, &b)),
                "div" => it.result(t, format!("{an} / {bn}"), m_div(t, &a, &b)),
                "rem" => it.result(t, format!("{an} % {bn}"), m_rem(t, &a, &b)),
                "wrapping_add" => it.result(t, format!("{an}.wrapping_add({bn})"), Some((&a + &b) % t.modulus())),
                "wrapping_sub" => it.result(t, format!("{an}.wrapping_sub({bn})"), Some((t.modulus() + &a - &b) % t.modulus())),
                "wrapping_mul" => it.result(t, format!("{an}.wrapping_mul({bn})"), Some((&a * &b) % t.modulus())),
                "and" => it.result(t, format!("{an} & {bn}"), Some(&a & &b)),
                "or" => it.result(t, format!("{an} | {bn}"), Some(&a | &b)),
                "xor" => it.result(t, format!("{an} ^ {bn}"), Some(&a ^ &b)),
                "cmp" => {
                    it.logs.push((format!("{an} < {bn}"), e_bool(a < b)));
                    it.logs.push((format!("{an} > {bn}"), e_bool(a > b)));
                    it.logs.push((format!("{an} == {bn}"), e_bool(a == b)));
                    it.logs.push((format!("{an} != {bn}"), e_bool(a != b)));
                    it.logs.push((format!("{an} <= {bn}"), e_bool(a <= b)));
                    it.logs.push((format!("{an} >= {bn}"), e_bool(a >= b)));
                }
                _ => {
                    it.result(t, format!("{an}.min({bn})"), Some(a.clone().min(b.clone())));
                    it.result(t, format!("{an}.max({bn})"), Some(a.clone().max(b.clone())));
                }
            }
        }
        "not" => {
            it.operand(t, &an, &a, ca);
            it.result(t, format!("!{an}"), Some(t.max() - &a));
        }
        "lsh" | "rsh" => {
            let bits = t.bits() as u64;
            let n: u64 = match rng.gen_range(0..10) {
                0 => 0,
                1 => 1,
                2 => bits - 1,
                3 => bits,
                4 => bits + 1,
                5 => *pick(rng, &[7u64, 8, 31, 32, 33, 63, 64, 65, 127, 128, 129, 255, 256, 257]),
                6 => rng.gen_range(bits..bits + 1000),
                _ => rng.gen_range(0..bits),
            };
            it.operand(t, &an, &a, ca);
            it.class.push_str(&format!("/shift{}", if n == 0 { "0" } else if n < bits { "<bits" } else if n == bits { "=bits" } else { ">bits" }));
            if f == "lsh" {
                it.result(t, format!("{an} << o64({n}u64)"), Some(m_shl(t, &a, n)));
            } else {
                it.result(t, format!("{an} >> o64({n}u64)"), Some(m_shr(t, &a, n)));
            }
        }
        "pow" => {
            if rng.gen_bool(0.5) {
                a = big(rng.gen_range(0..=17));
                ca = "small";
            }
            let mut e: u32 = match rng.gen_range(0..10) {
                0 => 0,
                1 => 1,
                2 => 2,
                3 => 3,
                4 => *pick(rng, &[7u32, 8, 15, 16, 31, 32, 63, 64, 127, 128, 255, 256]),
                5 => rng.gen_range(0..300),
                _ => rng.gen_range(0..12),
            };
            if prefer_ok && m_pow(t, &a, e).is_none() {
                // largest exponent that still fits
                while e > 0 && m_pow(t, &a, e).is_none() {
                    e -= 1;
                }
            }
            if !prefer_ok && a.bits() > 1 && rng.gen_bool(0.6) {
                // the smallest exponent that overflows the type (for the narrow types the power
                // then still fits the 64-bit register: the overflow is detected by std, not the VM)
                e = 1;
                while m_pow(t, &a, e).is_some() {
                    e += 1;
                }
                e += rng.gen_range(0..2);
            }
            it.operand(t, &an, &a, ca);
            it.class.push_str(&format!("/exp{}", if e <= 2 { e.to_string() } else { "n".into() }));
            it.result(t, format!("{an}.pow(o32({e}u32))"), m_pow(t, &a, e));
        }
        "sqrt" => {
            it.operand(t, &an, &a, ca);
            it.result(t, format!("{an}.sqrt()"), Some(m_sqrt(&a)));
        }
        "log2" => {
            if prefer_ok && is_zero(&a) {
                a = big(1);
                ca = "one";
            }
            it.operand(t, &an, &a, ca);
            it.result(t, format!("{an}.log2()"), m_log2(&a));
        }
        "log" => {
            if prefer_ok && is_zero(&a) {
                a = big(1);
                ca = "one";
            }
            let (b, cb): (BigUint, &'static str) = match rng.gen_range(0..10) {
                0 | 1 => (big(2), "two"),
                2 => (big(3), "small"),
                3 => (big(10), "small"),
                4 => (big(rng.gen_range(2..=17)), "small"),
                5 => second(rng, t, &a),
                6 if !prefer_ok => (big(rng.gen_range(0..=1)), "below-two"),
                7 => {
                    // a root of a: base^k == a or just off
                    let k = rng.gen_range(2..=5u32);
                    (a.nth_root(k), "root")
                }
                _ => gen_val(rng, t),
            };
            let (mut b, cb) = if prefer_ok && b.bits() <= 1 { (big(2), "two") } else { (b, cb) };
            let mut enumerated = false;
            if matches!(t, NT::U128 | NT::U256) && log_estimate_overflows(t, &a, &b) {
                let list = log_enum(t);
                let (ea, eb) = list[rng.gen_range(0..list.len())].clone();
                a = ea;
                b = eb;
                enumerated = true;
            }
            it.operand(t, &an, &a, ca);
            it.operand(t, &bn, &b, cb);
            if enumerated {
                it.class = log_enum_class(&a, &b);
                it.classes = vec!["enumerated-defect-region"];
            }
            it.result(t, format!("{an}.log({bn})"), m_log(&a, &b));
        }
        "is_zero" => {
            it.operand(t, &an, &a, ca);
            it.logs.push((format!("{an}.is_zero()"), e_bool(is_zero(&a))));
        }
        _ => {
            // constants
            let n = t.name();
            it.class = "const".into();
            it.result(t, format!("{n}::max()"), Some(t.max()));
            it.result(t, format!("{n}::min()"), Some(big(0)));
            it.result(t, format!("{n}::zero()"), Some(big(0)));
            if t == NT::U128 {
                it.result(t, "U128::new()".into(), Some(big(0)));
                it.logs.push(("U128::bits()".into(), (128u32).to_be_bytes().to_vec()));
            } else {
                it.logs.push((format!("{n}::bits()"), e_u64(t.bits() as u64)));
            }
        }
    }
    it
}

fn opt_enc(t: NT, v: &BigUint) -> Vec<u8> {
    if t.fits(v) {
        e_opt(Some(t.enc(v)))
    } else {
        e_opt(None)
    }
}

fn bytes_dump(b: &[u8]) -> Vec<Vec<u8>> {
    let mut o = vec![e_u64(b.len() as u64)];
    for x in b {
        o.push(vec![*x]);
    }
    o
}

/// conversions whose source type is `t`
fn gen_conv(rng: &mut StdRng, t: NT, id: usize) -> Item {
    let an = format!("a{id}");
    let (a, ca) = if t.bits() > 8 && rng.gen_bool(0.35) { narrow_boundary(rng, t) } else { gen_val(rng, t) };
    let wider: Vec<NT> = [NT::U16, NT::U32, NT::U64, NT::U256].into_iter().filter(|w| w.bits() > t.bits()).collect();
    let narrower = t.prims_narrower();
    let mut kinds: Vec<&str> = vec![];
    if t.bits() <= 64 {
        kinds.extend(["as_wider", "from_narrower", "into_u128"]);
    }
    if !narrower.is_empty() {
        kinds.push("try_from_wider");
        if t.bits() <= 64 {
            kinds.push("try_as_narrower");
        }
    }
    if matches!(t, NT::U16 | NT::U32 | NT::U64 | NT::U256) {
        kinds.extend(["to_bytes", "bytes_roundtrip"]);
    }
    if t == NT::U256 {
        kinds.extend(["b256", "from_parts"]);
    }
    if t == NT::U128 {
        kinds.extend(["parts", "try_as_u64", "to_u256", "overflowing"]);
    }
    let k = *pick(rng, &kinds);
    let mut it = Item::new(t, k);
    match k {
        "as_wider" => {
            it.operand(t, &an, &a, ca);
            for w in &wider {
                it.logs.push((format!("{an}.as_{}()", w.name()), w.enc(&a)));
            }
        }
        "from_narrower" => {
            it.operand(t, &an, &a, ca);
            for w in &wider {
                it.logs.push((format!("<{} as From<{}>>::from({an})", w.name(), t.name()), w.enc(&a)));
            }
        }
        "into_u128" => {
            it.operand(t, &an, &a, ca);
            it.logs.push((format!("<U128 as From<{}>>::from({an})", t.name()), NT::U128.enc(&a)));
        }
        "try_from_wider" => {
            it.operand(t, &an, &a, ca);
            for n in &narrower {
                it.logs.push((format!("<{} as TryFrom<{}>>::try_from({an})", n.name(), t.name()), opt_enc(*n, &a)));
            }
        }
        "try_as_narrower" => {
            it.operand(t, &an, &a, ca);
            for n in &narrower {
                it.logs.push((format!("{an}.try_as_{}()", n.name()), opt_enc(*n, &a)));
            }
        }
        "to_bytes" => {
            it.operand(t, &an, &a, ca);
            let be = t.enc(&a);
            let mut le = be.clone();
            le.reverse();
            it.dumps.push((format!("dump_bytes({an}.to_be_bytes())"), bytes_dump(&be)));
            it.dumps.push((format!("dump_bytes({an}.to_le_bytes())"), bytes_dump(&le)));
        }
        "bytes_roundtrip" => {
            it.operand(t, &an, &a, ca);
            let n = t.name();
            it.logs.push((format!("{n}::from_be_bytes({an}.to_be_bytes())"), t.enc(&a)));
            it.logs.push((format!("{n}::from_le_bytes({an}.to_le_bytes())"), t.enc(&a)));
        }
        "b256" => {
            it.operand(t, &an, &a, ca);
            let e = t.enc(&a);
            let lit = format!("ob256(0x{})", hex::encode(&e));
            it.logs.push((format!("{an}.as_b256()"), e.clone()));
            it.logs.push((format!("<b256 as From<u256>>::from({an})"), e.clone()));
            it.logs.push((format!("{lit}.as_u256()"), e.clone()));
            it.logs.push((format!("<u256 as From<b256>>::from({lit})"), e.clone()));
            it.logs.push((format!("{lit}.as_u256() == {an}"), e_bool(true)));
        }
        "from_parts" => {
            it.class = ca.to_string();
            it.classes.push(ca);
            let e = t.enc(&a);
            let parts: Vec<String> = e.chunks(8).map(|c| format!("o64({}u64)", u64::from_be_bytes(c.try_into().unwrap()))).collect();
            let tuple = format!("({})", parts.join(", "));
            it.logs.push((format!("<u256 as From<(u64, u64, u64, u64)>>::from({tuple})"), e.clone()));
            it.logs.push((format!("<b256 as From<(u64, u64, u64, u64)>>::from({tuple})"), e));
        }
        "parts" => {
            it.operand(t, &an, &a, ca);
            let hi = to_u64(&(&a >> 64usize));
            let lo = to_u64(&(&a & &(pow2(64) - 1u8)));
            it.logs.push((format!("{an}.upper()"), e_u64(hi)));
            it.logs.push((format!("{an}.lower()"), e_u64(lo)));
            it.pre.push(format!("let (h{id}, l{id}): (u64, u64) = {an}.into();"));
            it.logs.push((format!("h{id}"), e_u64(hi)));
            it.logs.push((format!("l{id}"), e_u64(lo)));
            it.logs.push((format!("{an}"), NT::U128.enc(&a)));
        }
        "try_as_u64" => {
            it.operand(t, &an, &a, ca);
            let f = if rng.gen_bool(0.7) { "try_as_u64" } else { "as_u64" };
            let fits = NT::U64.fits(&a);
            it.pre.push(format!("let r{id} = {an}.{f}();"));
            it.logs.push((format!("r{id}.is_ok()"), e_bool(fits)));
            if fits {
                it.logs.push((format!("r{id}.unwrap()"), e_u64(to_u64(&a))));
            }
        }
        "to_u256" => {
            it.operand(t, &an, &a, ca);
            let e = NT::U256.enc(&a);
            it.logs.push((format!("{an}.as_u256()"), e.clone()));
            it.logs.push((format!("<u256 as From<U128>>::from({an})"), e.clone()));
            it.logs.push((format!("<b256 as From<U128>>::from({an})"), e));
        }
        _ => {
            // u64::overflowing_add / overflowing_mul (defined in u128.sw)
            let (x, cx) = gen_val(rng, NT::U64);
            let (y, cy) = second(rng, NT::U64, &x);
            it.operand(NT::U64, &format!("x{id}"), &x, cx);
            it.operand(NT::U64, &format!("y{id}"), &y, cy);
            it.logs.push((format!("x{id}.overflowing_add(y{id})"), NT::U128.enc(&(&x + &y))));
            it.logs.push((format!("x{id}.overflowing_mul(y{id})"), NT::U128.enc(&(&x * &y))));
        }
    }
    it
}

fn family_item(rng: &mut StdRng, family: &str, id: usize, prefer_ok: bool) -> Item {
    match family {
        "u128" => {
            if rng.gen_range(0..100) < 22 {
                gen_conv(rng, NT::U128, id)
            } else {
                gen_arith(rng, NT::U128, id, prefer_ok, None)
            }
        }
        "u256" => gen_arith(rng, NT::U256, id, prefer_ok, None),
        "math" => {
            let t = *pick(rng, &[NT::U8, NT::U16, NT::U32, NT::U64]);
            gen_arith(rng, t, id, prefer_ok, None)
        }
        _ => {
            let t = *pick(rng, &[NT::U8, NT::U16, NT::U32, NT::U64, NT::U256, NT::U256]);
            gen_conv(rng, t, id)
        }
    }
}

fn append(tb: &mut TB, it: Item) {
    tb.op(&it.op, &it.class);
    for c in &it.classes {
        tb.classes.push((it.op.clone(), c.to_string()));
    }
    for l in it.pre {
        tb.line(l);
    }
    for (e, b) in it.logs {
        tb.log(&e, b);
    }
    for (call, obs) in it.dumps {
        tb.line(format!("{call};"));
        for o in obs {
            tb.expect(o);
        }
    }
    if let Some(s) = it.reverting {
        tb.reverting(s);
        *tb.stats.entry("numeric_revert_cases_generated".into()).or_insert(0) += 1;
    }
}

/// One numeric test of a family: several evaluations that the model says return, optionally
/// followed by one evaluation that the model says reverts.
pub fn gen_num_test(rng: &mut StdRng, family: &'static str, name: &str, want_revert: bool, sz: &Sizes) -> TestCase {
    let fam: &'static str = family;
    let mut tb = TB::new(fam);
    let n = rng.gen_range(3..=sz.max_items.max(3));
    let prefix = if want_revert { rng.gen_range(1..=3usize.min(n)) } else { n };
    let mut id = 0usize;
    while tb.ops.len() < prefix {
        // rejection-sample an evaluation that does not revert
        let mut chosen = None;
        for _ in 0..40 {
            let it = family_item(rng, fam, id, true);
            if it.reverting.is_none() {
                chosen = Some(it);
                break;
            }
        }
        let Some(it) = chosen else { break };
        let (t, f) = (it.t, it.f.clone());
        append(&mut tb, it);
        id += 1;
        if matches!(f.as_str(), "sqrt" | "log2" | "is_zero" | "not") {
            // unary functions are cheap: two more operands (edge values matter most here)
            for _ in 0..2 {
                for _ in 0..40 {
                    let it = gen_arith(rng, t, id, true, Some(f.as_str()));
                    if it.reverting.is_none() {
                        append(&mut tb, it);
                        id += 1;
                        break;
                    }
                }
            }
        }
    }
    if want_revert && fam != "conv" {
        // the function that reverts is drawn uniformly, then operands for which it does
        let t = match fam {
            "u128" => NT::U128,
            "u256" => NT::U256,
            _ => *pick(rng, &[NT::U8, NT::U16, NT::U32, NT::U64]),
        };
        let f = *pick(rng, &["add", "sub", "mul", "div", "rem", "pow", "pow", "log", "log2"]);
        for _ in 0..400 {
            let it = gen_arith(rng, t, id, false, Some(f));
            if it.reverting.is_some() {
                append(&mut tb, it);
                break;
            }
        }
    }
    let nontrivial = tb.ops.len() >= 3;
    tb.finish(name, nontrivial)
}

/// One test per input of the enumerated defect regions (log of U128 / u256, sqrt(0) of U128).
pub fn enum_tests() -> Vec<TestCase> {
    let mut out = vec![];
    let mut k = 0;
    for t in [NT::U128, NT::U256] {
        for (a, b) in log_enum(t) {
            let mut it = Item::new(t, "log");
            it.operand(t, "a0", &a, "x");
            it.operand(t, "b0", &b, "x");
            it.class = log_enum_class(&a, &b);
            it.classes = vec!["enumerated-defect-region"];
            it.result(t, "a0.log(b0)".to_string(), m_log(&a, &b));
            let mut tb = TB::new(if t == NT::U128 { "u128" } else { "u256" });
            append(&mut tb, it);
            out.push(tb.finish(&format!("e{k:03}_{}_log", t.tag()), false));
            k += 1;
        }
    }
    let mut it = Item::new(NT::U128, "sqrt");
    it.operand(NT::U128, "a0", &big(0), "zero");
    it.result(NT::U128, "a0.sqrt()".to_string(), Some(big(0)));
    let mut tb = TB::new("u128");
    append(&mut tb, it);
    out.push(tb.finish(&format!("e{k:03}_u128_sqrt"), false));
    out
}

/// Unit tests of the reference models against known values.
pub fn selftest() -> i32 {
    let mut fails = 0;
    let mut check = |name: &str, ok: bool| {
        if !ok {
            println!("selftest num: {name} failed");
            fails += 1;
        }
    };
    let t = NT::U128;
    check("add overflow", m_add(t, &t.max(), &big(1)).is_none());
    check("add", m_add(t, &pow2(64), &pow2(64)) == Some(pow2(65)));
    check("sub underflow", m_sub(t, &big(1), &big(2)).is_none());
    check("mul overflow", m_mul(t, &pow2(64), &pow2(64)).is_none());
    check("mul", m_mul(t, &pow2(63), &pow2(64)) == Some(pow2(127)));
    check("div zero", m_div(t, &big(1), &big(0)).is_none());
    check("pow 0^0", m_pow(t, &big(0), 0) == Some(big(1)));
    check("pow 2^127", m_pow(t, &big(2), 127) == Some(pow2(127)));
    check("pow 2^128", m_pow(t, &big(2), 128).is_none());
    check("pow u8 3^5", m_pow(NT::U8, &big(3), 5) == Some(big(243)));
    check("pow u8 3^6", m_pow(NT::U8, &big(3), 6).is_none());
    check("pow 1^big", m_pow(NT::U8, &big(1), 4000000000) == Some(big(1)));
    check("sqrt", m_sqrt(&big(99)) == big(9) && m_sqrt(&big(100)) == big(10) && m_sqrt(&big(0)) == big(0));
    check("log2", m_log2(&big(0)).is_none() && m_log2(&big(1)) == Some(big(0)) && m_log2(&big(255)) == Some(big(7)) && m_log2(&big(256)) == Some(big(8)));
    check("log", m_log(&big(1000), &big(10)) == Some(big(3)) && m_log(&big(999), &big(10)) == Some(big(2)) && m_log(&big(5), &big(1)).is_none() && m_log(&big(0), &big(2)).is_none() && m_log(&big(1), &big(7)) == Some(big(0)));
    check("log max base 3", m_log(&NT::U256.max(), &big(3)) == Some(big(161)));
    check("shl", m_shl(NT::U8, &big(200), 1) == big(144) && m_shl(NT::U8, &big(1), 8) == big(0) && m_shl(t, &big(1), 127) == pow2(127));
    check("shr", m_shr(t, &pow2(127), 127) == big(1) && m_shr(t, &pow2(127), 128) == big(0));
    check("enc", NT::U16.enc(&big(258)) == vec![1, 2] && NT::U128.enc(&big(0)) == vec![0u8; 16] && NT::U256.enc(&pow2(255))[0] == 0x80);
    check("expr u128", NT::U128.expr(&(pow2(64) + 5u8)) == "U128::from((o64(1u64), o64(5u64)))");
    check("expr u256", NT::U256.expr(&big(255)) == format!("o256(0x{}ffu256)", "0".repeat(62)));
    let sz = Sizes { coll_tests: 4, num_tests: 4, max_ops: 16, max_len: 24, max_items: 6 };
    for k in 0..300u64 {
        for fam in ["u128", "u256", "math", "conv"] {
            let want = k % 4 == 0;
            let a = gen_num_test(&mut crate::common::rng_for(7, 1, k), fam, "t", want, &sz);
            let b = gen_num_test(&mut crate::common::rng_for(7, 1, k), fam, "t", want, &sz);
            check("deterministic", a.body == b.body);
            check("revert only when wanted", want || a.revert_op.is_none());
            for (i, l) in a.body.lines().enumerate() {
                // a reverting statement must be the last line
                if a.revert_op.is_some() && i + 1 == a.body.lines().count() {
                    check("revert is last", l.trim_start().starts_with("log("));
                }
            }
        }
    }
    fails
}
