//! Shared by the C11 and C12 monitors: a small ABI type universe with values, the canonical
//! (encoding v1) encoder written from the ABI specification, Sway printers for types / literals,
//! random generators, 256-bit key arithmetic and a diagnostics helper for rejected packages.
//! Nothing in here calls the code under test except `diagnose_pkg`.
#![allow(dead_code)]

use rand::{rngs::StdRng, Rng};
use std::fmt::Write;

#[derive(Clone, Debug, PartialEq, Eq, Hash)]
pub enum Ty {
    U8,
    U16,
    U32,
    U64,
    U256,
    Bool,
    B256,
    /// str[N]
    Str(usize),
    Tuple(Vec<Ty>),
    Array(Box<Ty>, usize),
    Struct(usize),
    Enum(usize),
    /// Vec<u64>
    VecU64,
    /// std::bytes::Bytes
    Bytes,
    /// std::string::String
    StdString,
}

#[derive(Clone, Debug, PartialEq, Eq)]
pub enum Val {
    /// u8..u64
    U(u64),
    /// u256 / b256, big endian
    W([u8; 32]),
    Bool(bool),
    /// str[N] / String (ASCII bytes)
    Str(Vec<u8>),
    Tuple(Vec<Val>),
    Array(Vec<Val>),
    Struct(Vec<Val>),
    Enum(usize, Option<Box<Val>>),
    VecU64(Vec<u64>),
    Bytes(Vec<u8>),
}

#[derive(Clone, Debug, Default)]
pub struct Types {
    /// struct S<i> { f0: .., f1: .. }
    pub structs: Vec<Vec<Ty>>,
    /// enum E<i> { V0: .., V1: .. } (None = unit variant)
    pub enums: Vec<Vec<Option<Ty>>>,
}

impl Ty {
    pub fn ctor(&self) -> &'static str {
        match self {
            Ty::U8 => "u8",
            Ty::U16 => "u16",
            Ty::U32 => "u32",
            Ty::U64 => "u64",
            Ty::U256 => "u256",
            Ty::Bool => "bool",
            Ty::B256 => "b256",
            Ty::Str(_) => "str_array",
            Ty::Tuple(_) => "tuple",
            Ty::Array(..) => "array",
            Ty::Struct(_) => "struct",
            Ty::Enum(_) => "enum",
            Ty::VecU64 => "vec_u64",
            Ty::Bytes => "bytes",
            Ty::StdString => "string",
        }
    }
    pub fn is_dynamic(&self) -> bool {
        matches!(self, Ty::VecU64 | Ty::Bytes | Ty::StdString)
    }
}

impl Types {
    pub fn name(&self, t: &Ty) -> String {
        match t {
            Ty::U8 => "u8".into(),
            Ty::U16 => "u16".into(),
            Ty::U32 => "u32".into(),
            Ty::U64 => "u64".into(),
            Ty::U256 => "u256".into(),
            Ty::Bool => "bool".into(),
            Ty::B256 => "b256".into(),
            Ty::Str(n) => format!("str[{n}]"),
            Ty::Tuple(ts) => {
                if ts.len() == 1 {
                    format!("({},)", self.name(&ts[0]))
                } else {
                    format!("({})", ts.iter().map(|t| self.name(t)).collect::<Vec<_>>().join(", "))
                }
            }
            Ty::Array(t, n) => format!("[{}; {}]", self.name(t), n),
            Ty::Struct(i) => format!("S{i}"),
            Ty::Enum(i) => format!("E{i}"),
            Ty::VecU64 => "Vec<u64>".into(),
            Ty::Bytes => "Bytes".into(),
            Ty::StdString => "String".into(),
        }
    }

    pub fn decls(&self) -> String {
        let mut s = String::new();
        for (i, fs) in self.structs.iter().enumerate() {
            let _ = writeln!(s, "struct S{i} {{");
            for (j, f) in fs.iter().enumerate() {
                let _ = writeln!(s, "    f{j}: {},", self.name(f));
            }
            let _ = writeln!(s, "}}");
        }
        for (i, vs) in self.enums.iter().enumerate() {
            let _ = writeln!(s, "enum E{i} {{");
            for (j, v) in vs.iter().enumerate() {
                match v {
                    None => {
                        let _ = writeln!(s, "    V{j}: (),");
                    }
                    Some(t) => {
                        let _ = writeln!(s, "    V{j}: {},", self.name(t));
                    }
                }
            }
            let _ = writeln!(s, "}}");
        }
        s
    }

    /// all type constructors occurring in `t` (for the evidence counters)
    pub fn ctors(&self, t: &Ty, out: &mut std::collections::BTreeSet<&'static str>) {
        out.insert(t.ctor());
        match t {
            Ty::Tuple(ts) => ts.iter().for_each(|t| self.ctors(t, out)),
            Ty::Array(t, _) => self.ctors(t, out),
            Ty::Struct(i) => self.structs[*i].iter().for_each(|t| self.ctors(t, out)),
            Ty::Enum(i) => self.enums[*i].iter().flatten().for_each(|t| self.ctors(t, out)),
            _ => {}
        }
    }

    /// Canonical encoding v1 of `v : t` (Fuel ABI specification: big endian, u8/bool one byte,
    /// u16 two, u32 four, u64 eight, u256/b256 thirty-two, str[N] N bytes, aggregates are the
    /// concatenation of their members, enums a u64 discriminant followed by the payload,
    /// Vec/Bytes/String a u64 length followed by the elements).
    pub fn encode(&self, t: &Ty, v: &Val, out: &mut Vec<u8>) {
        match (t, v) {
            (Ty::Bool, Val::Bool(b)) => out.push(*b as u8),
            (Ty::U8, Val::U(x)) => out.push(*x as u8),
            (Ty::U16, Val::U(x)) => out.extend((*x as u16).to_be_bytes()),
            (Ty::U32, Val::U(x)) => out.extend((*x as u32).to_be_bytes()),
            (Ty::U64, Val::U(x)) => out.extend(x.to_be_bytes()),
            (Ty::U256 | Ty::B256, Val::W(w)) => out.extend(w),
            (Ty::Str(n), Val::Str(s)) => {
                assert_eq!(*n, s.len());
                out.extend(s);
            }
            (Ty::Tuple(ts), Val::Tuple(vs)) => {
                assert_eq!(ts.len(), vs.len());
                for (t, v) in ts.iter().zip(vs) {
                    self.encode(t, v, out);
                }
            }
            (Ty::Array(t, n), Val::Array(vs)) => {
                assert_eq!(*n, vs.len());
                for v in vs {
                    self.encode(t, v, out);
                }
            }
            (Ty::Struct(i), Val::Struct(vs)) => {
                assert_eq!(self.structs[*i].len(), vs.len());
                for (t, v) in self.structs[*i].iter().zip(vs) {
                    self.encode(t, v, out);
                }
            }
            (Ty::Enum(i), Val::Enum(k, p)) => {
                out.extend((*k as u64).to_be_bytes());
                match (&self.enums[*i][*k], p) {
                    (Some(pt), Some(pv)) => self.encode(pt, pv, out),
                    (None, None) => {}
                    _ => panic!("abi: enum payload mismatch"),
                }
            }
            (Ty::VecU64, Val::VecU64(xs)) => {
                out.extend((xs.len() as u64).to_be_bytes());
                for x in xs {
                    out.extend(x.to_be_bytes());
                }
            }
            (Ty::Bytes, Val::Bytes(b)) => {
                out.extend((b.len() as u64).to_be_bytes());
                out.extend(b);
            }
            (Ty::StdString, Val::Str(s)) => {
                out.extend((s.len() as u64).to_be_bytes());
                out.extend(s);
            }
            _ => panic!("abi: encode type/value mismatch {t:?} {v:?}"),
        }
    }

    pub fn encoded(&self, t: &Ty, v: &Val) -> Vec<u8> {
        let mut o = vec![];
        self.encode(t, v, &mut o);
        o
    }

    /// a Sway expression denoting `v : t` (all integer literals suffixed)
    pub fn lit(&self, t: &Ty, v: &Val) -> String {
        match (t, v) {
            (Ty::Bool, Val::Bool(b)) => b.to_string(),
            (Ty::U8, Val::U(x)) => format!("{x}u8"),
            (Ty::U16, Val::U(x)) => format!("{x}u16"),
            (Ty::U32, Val::U(x)) => format!("{x}u32"),
            (Ty::U64, Val::U(x)) => format!("{x}u64"),
            (Ty::U256, Val::W(w)) => format!("0x{}u256", hex::encode(w)),
            (Ty::B256, Val::W(w)) => format!("0x{}", hex::encode(w)),
            (Ty::Str(_), Val::Str(s)) => format!("__to_str_array(\"{}\")", String::from_utf8_lossy(s)),
            (Ty::Tuple(ts), Val::Tuple(vs)) => {
                let inner: Vec<String> = ts.iter().zip(vs).map(|(t, v)| self.lit(t, v)).collect();
                if inner.len() == 1 {
                    format!("({},)", inner[0])
                } else {
                    format!("({})", inner.join(", "))
                }
            }
            (Ty::Array(t, _), Val::Array(vs)) => format!("[{}]", vs.iter().map(|v| self.lit(t, v)).collect::<Vec<_>>().join(", ")),
            (Ty::Struct(i), Val::Struct(vs)) => {
                let fs: Vec<String> = self.structs[*i].iter().zip(vs).enumerate().map(|(j, (t, v))| format!("f{j}: {}", self.lit(t, v))).collect();
                format!("S{i} {{ {} }}", fs.join(", "))
            }
            (Ty::Enum(i), Val::Enum(k, p)) => match (&self.enums[*i][*k], p) {
                (Some(pt), Some(pv)) => format!("E{i}::V{k}({})", self.lit(pt, pv)),
                _ => format!("E{i}::V{k}"),
            },
            (Ty::VecU64, Val::VecU64(xs)) => {
                let mut s = String::from("{ let mut v: Vec<u64> = Vec::new(); ");
                for x in xs {
                    let _ = write!(s, "v.push({x}u64); ");
                }
                s.push_str("v }");
                s
            }
            (Ty::Bytes, Val::Bytes(b)) => {
                let mut s = String::from("{ let mut b: Bytes = Bytes::new(); ");
                for x in b {
                    let _ = write!(s, "b.push({x}u8); ");
                }
                s.push_str("b }");
                s
            }
            (Ty::StdString, Val::Str(s)) => format!("String::from_ascii_str(\"{}\")", String::from_utf8_lossy(s)),
            _ => panic!("abi: lit type/value mismatch {t:?} {v:?}"),
        }
    }

    /// Size in bytes of the run-time (memory) representation as documented for the FuelVM
    /// back end: u8/bool one byte, other integers a word, u256/b256 four words, str[N] rounded
    /// up to a word, struct/tuple members each rounded up to a word, enum = tag word + largest
    /// variant rounded up to a word, array = n * element size. Only used to pick explicit keys
    /// that do not overlap; the value actually used by the program is logged by it.
    pub fn mem_size(&self, t: &Ty) -> u64 {
        let al = |x: u64| (x + 7) / 8 * 8;
        match t {
            Ty::U8 | Ty::Bool => 1,
            Ty::U16 | Ty::U32 | Ty::U64 => 8,
            Ty::U256 | Ty::B256 => 32,
            Ty::Str(n) => al(*n as u64),
            Ty::Tuple(ts) => ts.iter().map(|t| al(self.mem_size(t))).sum(),
            Ty::Struct(i) => self.structs[*i].iter().map(|t| al(self.mem_size(t))).sum(),
            Ty::Array(t, n) => self.mem_size(t) * *n as u64,
            Ty::Enum(i) => 8 + self.enums[*i].iter().map(|v| v.as_ref().map(|t| al(self.mem_size(t))).unwrap_or(0)).max().unwrap_or(0),
            Ty::VecU64 => 24,
            Ty::Bytes => 24,
            Ty::StdString => 24,
        }
    }

    pub fn enc_size_bound(&self, t: &Ty) -> u64 {
        match t {
            Ty::U8 | Ty::Bool => 1,
            Ty::U16 => 2,
            Ty::U32 => 4,
            Ty::U64 => 8,
            Ty::U256 | Ty::B256 => 32,
            Ty::Str(n) => *n as u64,
            Ty::Tuple(ts) => ts.iter().map(|t| self.enc_size_bound(t)).sum(),
            Ty::Struct(i) => self.structs[*i].iter().map(|t| self.enc_size_bound(t)).sum(),
            Ty::Array(t, n) => self.enc_size_bound(t) * *n as u64,
            Ty::Enum(i) => 8 + self.enums[*i].iter().map(|v| v.as_ref().map(|t| self.enc_size_bound(t)).unwrap_or(0)).max().unwrap_or(0),
            Ty::VecU64 | Ty::Bytes | Ty::StdString => 64,
        }
    }
}

// ------------------------------------------------------------------------------------------
// generators

#[derive(Clone, Copy, Debug)]
pub struct TyOpts {
    pub arrays: bool,
    pub strs: bool,
    /// upper bound of the encoded size of one generated type
    pub max_bytes: u64,
}

fn gen_ty_raw(rng: &mut StdRng, types: &Types, depth: u32, o: &TyOpts) -> Ty {
    let leaf = depth == 0 || rng.gen_bool(0.45);
    if leaf {
        return match rng.gen_range(0..9) {
            0 => Ty::U8,
            1 => Ty::U16,
            2 => Ty::U32,
            3 | 4 => Ty::U64,
            5 => Ty::U256,
            6 => Ty::Bool,
            7 => Ty::B256,
            _ => {
                if o.strs {
                    Ty::Str(*crate::common::choose(rng, &[1usize, 2, 3, 5, 7, 8, 9, 12, 16, 17, 33]))
                } else {
                    Ty::U8
                }
            }
        };
    }
    match rng.gen_range(0..8) {
        0 | 1 => {
            let n = rng.gen_range(1..=4);
            Ty::Tuple((0..n).map(|_| gen_ty_raw(rng, types, depth - 1, o)).collect())
        }
        2 if o.arrays => {
            let n = rng.gen_range(1..=4);
            Ty::Array(Box::new(gen_ty_raw(rng, types, depth - 1, o)), n)
        }
        3 | 4 if !types.structs.is_empty() => Ty::Struct(rng.gen_range(0..types.structs.len())),
        5 | 6 if !types.enums.is_empty() => Ty::Enum(rng.gen_range(0..types.enums.len())),
        _ => gen_ty_raw(rng, types, 0, o),
    }
}

pub fn gen_ty(rng: &mut StdRng, types: &Types, depth: u32, o: &TyOpts) -> Ty {
    for _ in 0..20 {
        let t = gen_ty_raw(rng, types, depth, o);
        if types.enc_size_bound(&t) <= o.max_bytes {
            return t;
        }
    }
    Ty::U64
}

/// 0..=3 structs and 0..=3 enums; later declarations may use earlier ones (acyclic).
pub fn gen_types(rng: &mut StdRng, o: &TyOpts) -> Types {
    let mut types = Types::default();
    let n = rng.gen_range(0..=5);
    let inner = TyOpts { max_bytes: o.max_bytes / 2, ..*o };
    for _ in 0..n {
        if rng.gen_bool(0.5) {
            let k = rng.gen_range(1..=5);
            let fs = (0..k).map(|_| gen_ty(rng, &types, 1, &inner)).collect();
            types.structs.push(fs);
        } else {
            let k = rng.gen_range(1..=4);
            let all_unit = rng.gen_bool(0.2);
            let vs = (0..k).map(|_| if all_unit || rng.gen_bool(0.3) { None } else { Some(gen_ty(rng, &types, 1, &inner)) }).collect();
            types.enums.push(vs);
        }
    }
    types
}

fn gen_u64(rng: &mut StdRng, max: u64) -> u64 {
    match rng.gen_range(0..6) {
        0 => 0,
        1 => 1,
        2 => max,
        3 => max - rng.gen_range(0..=max.min(3)),
        _ => {
            if max == u64::MAX {
                rng.gen()
            } else {
                rng.gen_range(0..=max)
            }
        }
    }
}

pub fn gen_word(rng: &mut StdRng) -> [u8; 32] {
    let mut w = [0u8; 32];
    match rng.gen_range(0..6) {
        0 => {}
        1 => w = [0xff; 32],
        2 => w[31] = rng.gen(),
        3 => w[0] = rng.gen(),
        _ => rng.fill(&mut w),
    }
    w
}

fn gen_ascii(rng: &mut StdRng, n: usize) -> Vec<u8> {
    const A: &[u8] = b"abcdefghijklmnopqrstuvwxyzABCDEFGHIJKLMNOPQRSTUVWXYZ0123456789_ -+.";
    (0..n).map(|_| A[rng.gen_range(0..A.len())]).collect()
}

pub fn gen_val(rng: &mut StdRng, t: &Ty, types: &Types) -> Val {
    match t {
        Ty::U8 => Val::U(gen_u64(rng, u8::MAX as u64)),
        Ty::U16 => Val::U(gen_u64(rng, u16::MAX as u64)),
        Ty::U32 => Val::U(gen_u64(rng, u32::MAX as u64)),
        Ty::U64 => Val::U(gen_u64(rng, u64::MAX)),
        Ty::U256 | Ty::B256 => Val::W(gen_word(rng)),
        Ty::Bool => Val::Bool(rng.gen()),
        Ty::Str(n) => Val::Str(gen_ascii(rng, *n)),
        Ty::Tuple(ts) => Val::Tuple(ts.iter().map(|t| gen_val(rng, t, types)).collect()),
        Ty::Array(t, n) => Val::Array((0..*n).map(|_| gen_val(rng, t, types)).collect()),
        Ty::Struct(i) => Val::Struct(types.structs[*i].iter().map(|t| gen_val(rng, t, types)).collect()),
        Ty::Enum(i) => {
            let k = rng.gen_range(0..types.enums[*i].len());
            Val::Enum(k, types.enums[*i][k].as_ref().map(|t| Box::new(gen_val(rng, t, types))))
        }
        Ty::VecU64 => {
            let n = rng.gen_range(0..=5);
            Val::VecU64((0..n).map(|_| gen_u64(rng, u64::MAX)).collect())
        }
        Ty::Bytes => {
            let n = rng.gen_range(0..=9);
            Val::Bytes((0..n).map(|_| rng.gen::<u8>()).collect())
        }
        Ty::StdString => {
            let n = rng.gen_range(0..=11);
            Val::Str(gen_ascii(rng, n))
        }
    }
}

// ------------------------------------------------------------------------------------------
// 256-bit keys

pub fn key_add(k: &[u8; 32], n: u64) -> Option<[u8; 32]> {
    let mut out = *k;
    let mut carry = n as u128;
    for i in (0..4).rev() {
        let w = u64::from_be_bytes(out[i * 8..i * 8 + 8].try_into().unwrap()) as u128 + carry;
        out[i * 8..i * 8 + 8].copy_from_slice(&(w as u64).to_be_bytes());
        carry = w >> 64;
        if carry == 0 {
            break;
        }
    }
    if carry != 0 {
        None
    } else {
        Some(out)
    }
}

// ------------------------------------------------------------------------------------------
// diagnostics of a rejected package (std is compiled for this; only used for rejected packages)

pub fn diagnose_pkg(dir: &std::path::Path, profile: crate::engine::Profile) -> Vec<String> {
    match crate::common::catch(std::panic::AssertUnwindSafe(|| diagnose_inner(dir, profile))) {
        Ok(Ok(v)) => v,
        Ok(Err(e)) => vec![format!("diagnose failed: {e}")],
        Err((loc, msg)) => vec![format!("compiler panicked at {loc}: {msg}")],
    }
}

fn diagnose_inner(dir: &std::path::Path, profile: crate::engine::Profile) -> anyhow::Result<Vec<String>> {
    use anyhow::anyhow;
    use forc_pkg::manifest::GenericManifestFile;
    use forc_pkg::{BuildPlan, BuildProfile, PackageDescriptor, PkgOpts};
    use std::collections::HashMap;
    use sway_core::{BuildTarget, DbgGeneration, Engines};
    use sway_features::ExperimentalFeatures;
    let plan = BuildPlan::from_pkg_opts(&PkgOpts { path: Some(dir.to_string_lossy().to_string()), offline: true, terse: true, ..Default::default() })?;
    let engines = Engines::default();
    let graph = plan.graph();
    let std_node = graph.node_indices().find(|n| graph[*n].name == "std").ok_or_else(|| anyhow!("no std node"))?;
    let bp = profile.build_profile();
    let dbg = if bp.is_release() { DbgGeneration::None } else { DbgGeneration::Full };
    // std
    let std_ns = {
        let pkg = &graph[std_node];
        let manifest = &plan.manifest_map()[&pkg.id()];
        let experimental = ExperimentalFeatures::new(&manifest.project.experimental, &[], &[]).map_err(|e| anyhow!("{e}"))?;
        let descriptor = PackageDescriptor { name: pkg.name.clone(), target: BuildTarget::Fuel, pinned: pkg.clone(), manifest_file: manifest.clone() };
        let program_id = engines.se().get_or_create_program_id_from_manifest_path(&manifest.entry_path());
        let ns = forc_pkg::dependency_namespace(&HashMap::default(), &HashMap::new(), graph, std_node, &engines, None, program_id, experimental, dbg).map_err(|e| anyhow!("std namespace: {:?}", e.first()))?;
        let mut sm = sway_core::source_map::SourceMap::new();
        let bp_lib = BuildProfile { include_tests: false, ..bp.clone() };
        forc_pkg::compile(&descriptor, &bp_lib, &engines, ns, &mut sm, experimental, dbg)?.namespace
    };
    let node = plan.member_nodes().next().ok_or_else(|| anyhow!("no member"))?;
    let pkg = &graph[node];
    let manifest = &plan.manifest_map()[&pkg.id()];
    let experimental = ExperimentalFeatures::new(&manifest.project.experimental, &[], &[]).map_err(|e| anyhow!("{e}"))?;
    let program_id = engines.se().get_or_create_program_id_from_manifest_path(&manifest.entry_path());
    let mut libs = HashMap::default();
    libs.insert(std_node, std_ns);
    let ns = forc_pkg::dependency_namespace(&libs, &HashMap::new(), graph, node, &engines, None, program_id, experimental, dbg).map_err(|e| anyhow!("namespace: {:?}", e.first()))?;
    let bp_t = BuildProfile { include_tests: true, ..bp };
    let cfg = forc_pkg::sway_build_config(manifest.dir(), &manifest.entry_path(), BuildTarget::Fuel, &bp_t, dbg)?;
    let handler = sway_error::handler::Handler::default();
    let source = manifest.entry_string()?;
    if let Ok(programs) = sway_core::compile_to_ast(&handler, &engines, source, ns, Some(&cfg), &pkg.name, None, experimental) {
        if programs.typed.is_ok() && !handler.has_errors() {
            if let Ok(mut asm) = sway_core::ast_to_asm(&handler, &engines, &programs, &cfg, experimental) {
                let mut sm = sway_core::source_map::SourceMap::new();
                let _ = sway_core::asm_to_bytecode(&handler, &mut asm, &mut sm, engines.se(), &cfg);
            }
        }
    }
    let (errors, _, _) = handler.consume();
    Ok(errors
        .iter()
        // forc test injects CONTRACT_ID; this stand-alone compilation does not
        .filter(|e| !e.to_string().contains("CONTRACT_ID"))
        .take(5)
        .map(|e| {
            use sway_types::Spanned;
            let sp = e.span();
            let lc = sp.start_line_col_one_index();
            format!("{e} @{}:{} `{}`", lc.line, lc.col, sp.as_str().chars().take(60).collect::<String>())
        })
        .collect())
}

/// Abstract a compiler message into a bucket name (digits and punctuation removed).
pub fn bucket(msg: &str) -> String {
    let mut out = String::new();
    for c in msg.chars().take(60) {
        if c.is_ascii_alphabetic() || c == ' ' {
            out.push(c);
        } else if !out.ends_with('#') {
            out.push('#');
        }
    }
    out
}

/// One observed log entry of a forc-test run, normalised.
#[derive(Clone, Debug, PartialEq, Eq)]
pub struct Entry {
    /// true = emitted inside the called contract, false = by the test script
    pub callee: bool,
    pub data: Vec<u8>,
}

pub fn short_hex(b: &[u8]) -> String {
    let h = hex::encode(b);
    if h.len() > 96 {
        format!("{}..({} bytes)", &h[..96], b.len())
    } else {
        h
    }
}
