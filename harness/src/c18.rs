//! C18: formatting is idempotent.
//!
//! Oracle: for every text x the formatter accepts under configuration c,
//! `fmt_c(fmt_c(x)) == fmt_c(x)` byte for byte (a second pass that errors or panics is a
//! violation too: it does not "return exactly the same text").
//!
//! Explored set: the FIXED enumeration  corpus x (configs, identity variant)  +
//! corpus x (variants, default config)  defined in c18_fmt.rs. The unchanged tree fails on a
//! number of these cases (genuine formatter defects); each one is listed individually in
//! /verif/known_findings.d/C18.json with the signature
//!   `<repo-relative path>|<config>|<variant>|<kind>|<8 hex of sha256(first differing line pair)>`
//! so a different file / config / variant / kind / place of failure is still a VIOLATION.
//! VERIF_SEED permutes the order, the sharding, and which extra sub-cases quick runs.
use crate::common::*;
use crate::{Plan, Prop};
use serde_json::{json, Value};

#[path = "c18_fmt.rs"]
pub mod fmt;
use fmt::*;

pub static META: PropertyMeta = PropertyMeta {
    id: "C18",
    level: "exploration",
    rule: "fixed enumeration: every .sw file under /repo x (12 formatter configs with the file as is + 9 text variants [CRLF, one-line re-flow, one-token-per-line re-flow, doubled / stripped blank lines, tabs + trailing blanks, inserted line / trailing / block comments] with the default config); quick = every file with the default config plus 6 seed-chosen other sub-cases per file, thorough = all; an evaluation = a case whose first pass formatted and whose second pass was compared; non-trivial = first pass succeeded and the input has >= 20 tokens; distinct = hash of (path, config, variant)",
    assumptions: &[
        "the formatter is deterministic for a given (text, config): a fresh Formatter is built per call, as forc-fmt does per invocation",
        "the lexer of sway-parse is trusted to delimit tokens and comments when the text variants are built",
    ],
    floor_evaluations: 1500,
    floor_nontrivial: 1000,
    required_counters: &["first_pass_ok", "second_pass_identical", "rejected_by_formatter_parser", "configs_nondefault_cases", "variant_cases"],
};

pub static PROP: Prop = Prop {
    meta: &META,
    plan: |t| Plan { nshards: t.pick(12, 16), budget_s: t.pick(75.0, 1200.0), mem_gib: 6 },
    shard,
    replay,
    extra,
    subcommand,
};

pub fn signature(case: &CaseId, kind: &str, detail: &str) -> String {
    format!("{}|{}|{}|{}|{}", case.file, case.config, case.variant, kind, &sha_hex(detail.as_bytes())[..8])
}

/// One case: x is the (variant) text. Returns true if the oracle was evaluated.
pub fn check(case: &CaseId, x: &str, ntokens: usize, res: &mut ShardResult) {
    let Some(cfg) = config_by_name(case.config) else {
        res.inconclusive(format!("unknown config {}", case.config));
        return;
    };
    res.count("cases");
    if case.config != CONFIGS[0] {
        res.count("configs_nondefault_cases");
    }
    if case.variant != VARIANTS[0] {
        res.count("variant_cases");
    }
    let replay = || json!({"file": case.file, "config": case.config, "variant": case.variant, "input": x});
    let f1 = match run_fmt(x, &cfg) {
        FmtOut::Ok(s) => s,
        FmtOut::ParseRejected(_) => {
            res.count("rejected_by_formatter_parser");
            return;
        }
        FmtOut::OtherError(e) => {
            // accepted by the parser but no output: nothing to be idempotent about
            res.count("first_pass_formatter_error");
            res.count(&format!("first_pass_error[{}]", short(&e, 40)));
            return;
        }
        FmtOut::Panic(loc, msg) => {
            res.count("first_pass_panic");
            res.inconclusive(format!("{}: formatter panicked on the first pass at {loc}: {}", case.key(), short(&msg, 100)));
            return;
        }
    };
    res.count("first_pass_ok");
    res.count(&format!("ok_config[{}]", case.config));
    res.count(&format!("ok_variant[{}]", case.variant));
    res.evaluations += 1;
    if ntokens >= 20 {
        res.note_nontrivial(hash64(case.key().as_bytes()));
    }
    res.max("max_input_bytes", x.len() as u64);
    res.add("bytes_formatted", x.len() as u64);
    if f1 != x {
        res.count("first_pass_changed_text");
    } else {
        res.count("input_already_formatted");
    }
    match run_fmt(&f1, &cfg) {
        FmtOut::Ok(f2) => {
            if f2 == f1 {
                res.count("second_pass_identical");
                if res.samples.is_empty() && ntokens >= 20 && !case.file.starts_with("builtin:") {
                    res.sample(json!({"case": case.json(), "input_bytes": x.len(), "formatted_bytes": f1.len(), "tokens": ntokens, "second_pass": "identical"}));
                }
            } else if case.config == "newline_windows" && only_blank_lines_dropped_after_crlf(&f1, &f2) {
                // ONE systematic defect, reported under one class signature (not per file): with
                // newline_style = Windows the output has CRLF line ends, and on a CRLF input
                // swayfmt/src/utils/map/newline.rs::newline_map_from_src (which only recognises
                // "\n" directly after `;` / `}`) finds no blank lines, so the second pass removes
                // every blank line the first pass kept. The predicate is exact: fmt(x) uses CRLF,
                // and fmt(fmt(x)) equals fmt(x) with some blank lines removed and nothing else
                // changed. Any other difference under this config is reported per file as usual.
                res.count("second_pass_differs");
                res.count("windows_crlf_blank_lines_dropped");
                res.violation(WINDOWS_CLASS_SIGNATURE, "swayfmt is not idempotent under newline_style = Windows: the second pass over its own CRLF output drops the blank lines (newline_map_from_src only recognises LF after `;` / `}`); seen on every corpus file that has a blank line", replay());
            } else {
                let (line, a, b) = first_line_diff(&f1, &f2);
                res.count("second_pass_differs");
                res.violation(
                    signature(case, "non-idempotent", &format!("{}\n{}", a.trim(), b.trim())),
                    format!("swayfmt not idempotent on {} [config {}, variant {}]: line {line} of fmt(x) is `{}` but fmt(fmt(x)) has `{}`", case.file, case.config, case.variant, short(a.trim(), 90), short(b.trim(), 90)),
                    replay(),
                );
            }
        }
        FmtOut::ParseRejected(e) => {
            res.count("second_pass_rejected");
            res.violation(signature(case, "second-pass-rejected", ""), format!("swayfmt output for {} [config {}, variant {}] is rejected by swayfmt's own parser on the second pass: {}", case.file, case.config, case.variant, short(&e, 120)), replay());
        }
        FmtOut::OtherError(e) => {
            res.count("second_pass_error");
            res.violation(signature(case, "second-pass-error", &e), format!("swayfmt fails on its own output for {} [config {}, variant {}]: {e}", case.file, case.config, case.variant), replay());
        }
        FmtOut::Panic(loc, msg) => {
            res.count("second_pass_panic");
            res.violation(signature(case, "second-pass-panic", &panic_signature(&loc, &msg)), format!("swayfmt panics on its own output for {} [config {}, variant {}]: {} at {loc}", case.file, case.config, case.variant, short(&msg, 100)), replay());
        }
    }
}

pub const WINDOWS_CLASS_SIGNATURE: &str = "*|newline_windows|*|non-idempotent|crlf-input-loses-blank-lines";

/// f1 has CRLF line ends and f2 is f1 with one or more blank lines removed (nothing else).
pub fn only_blank_lines_dropped_after_crlf(f1: &str, f2: &str) -> bool {
    if !f1.contains("\r\n") {
        return false;
    }
    let l1: Vec<&str> = f1.split('\n').collect();
    let l2: Vec<&str> = f2.split('\n').collect();
    if l2.len() >= l1.len() {
        return false;
    }
    let is_blank = |l: &str| l == "\r" || l.is_empty();
    // f2 must be a subsequence of f1 whose skipped lines are all blank
    let mut j = 0;
    for l in &l1 {
        if j < l2.len() && l2[j] == *l {
            j += 1;
        } else if !is_blank(l) {
            return false;
        }
    }
    j == l2.len()
}

/// Drive the cases of one file through `check_fn` (shared with C19).
pub fn run_file(file: &str, subs: &[(&'static str, &'static str)], res: &mut ShardResult, check_fn: &mut dyn FnMut(&CaseId, &str, usize, &mut ShardResult)) {
    let Some(text) = read_corpus_file(file) else {
        res.count("corpus_file_unreadable_or_not_utf8");
        return;
    };
    res.count("corpus_files");
    let lx = lex(&text);
    let ntokens = lx.as_ref().map(|l| count_leaves(&l.tree)).unwrap_or(0);
    if lx.is_err() {
        res.count("corpus_files_not_lexable");
    }
    let annotated_fields = lx.as_ref().map(|l| field_lists_have_annotations(&l.tree)).unwrap_or(false);
    for &(config, variant) in subs {
        if config == "align_fields40" && annotated_fields && !file.starts_with("builtin:") {
            // see c18_fmt.rs::field_lists_have_annotations
            res.count("config_not_applicable[align_fields40: annotated fields]");
            continue;
        }
        let case = CaseId { file: file.to_string(), config, variant };
        let x = if variant == VARIANTS[0] {
            Some(text.clone())
        } else {
            match &lx {
                Ok(lx) => make_variant(variant, &text, lx),
                Err(_) => None,
            }
        };
        match x {
            Some(x) => check_fn(&case, &x, ntokens, res),
            None => res.count("variant_not_applicable"),
        }
    }
}

pub fn run_builtins(res: &mut ShardResult, check_fn: &mut dyn FnMut(&CaseId, &str, usize, &mut ShardResult)) {
    for (name, config, _) in BUILTINS {
        res.count("builtin_witnesses");
        let cfg = intern_config(config).expect("builtin config");
        run_file(name, &[(cfg, VARIANTS[0])], res, check_fn);
    }
}

pub fn shard_with(ctx: &ShardCtx, extra_quick: usize, check_fn: fn(&CaseId, &str, usize, &mut ShardResult)) -> ShardResult {
    let ctx = ctx.clone();
    on_big_stack(move || {
        let mut res = ShardResult::default();
        let files = corpus();
        res.max("max_corpus_size", files.len() as u64);
        let mine = shard_files(&files, ctx.seed, ctx.shard, ctx.nshards);
        let mut f = check_fn;
        if ctx.shard == 0 {
            run_builtins(&mut res, &mut f);
        }
        for (n, file) in mine.iter().enumerate() {
            if !ctx.time_left() {
                res.add("files_skipped_time_budget", (mine.len() - n) as u64);
                break;
            }
            journal_current(&ctx, file);
            let subs = tier_subcases(ctx.tier, ctx.seed, file, extra_quick);
            run_file(file, &subs, &mut res, &mut f);
            if n % 50 == 49 {
                write_partial(&ctx, &res);
            }
        }
        res
    })
}

fn shard(ctx: &ShardCtx) -> ShardResult {
    shard_with(ctx, 6, check)
}

pub fn replay_with(case: &Value, check_fn: fn(&CaseId, &str, usize, &mut ShardResult)) -> ShardResult {
    let case = case.clone();
    on_big_stack(move || {
        let mut res = ShardResult::default();
        let file = case["file"].as_str().unwrap_or("").to_string();
        let (Some(config), Some(variant)) = (case["config"].as_str().and_then(intern_config), case["variant"].as_str().and_then(intern_variant)) else {
            res.harness_fault = Some("replay case names an unknown config or variant".into());
            return res;
        };
        let id = CaseId { file, config, variant };
        match case["input"].as_str() {
            Some(x) => {
                let ntokens = lex(x).map(|l| count_leaves(&l.tree)).unwrap_or(0);
                check_fn(&id, x, ntokens, &mut res);
            }
            None => {
                let mut f = check_fn;
                run_file(&id.file.clone(), &[(config, variant)], &mut res, &mut f);
            }
        }
        res
    })
}

fn replay(case: &Value) -> ShardResult {
    replay_with(case, check)
}

pub fn extra(res: &ShardResult) -> Value {
    let c = |k: &str| res.counters.get(k).copied().unwrap_or(0);
    json!({
        "configs": CONFIGS,
        "variants": VARIANTS,
        "enumeration_complete": c("files_skipped_time_budget") == 0 && c("shards_crashed") == 0,
        "corpus_files_seen": c("corpus_files"),
    })
}

// ------------------------------------------------------------------------------------------
// helper subcommands (triage; not used by the checks themselves)
//   swverif c18-enumerate <C18|C19> <out.json>     run the whole enumeration, write the findings
//   swverif c18-show <C18|C19> <file> <config> <variant> [dir]   dump x, fmt(x), fmt(fmt(x))

pub fn enumerate_all(prop: &str, check_fn: fn(&CaseId, &str, usize, &mut ShardResult), out: &str) -> i32 {
    use rayon::prelude::*;
    let files = corpus();
    let pool = rayon::ThreadPoolBuilder::new().num_threads(14).stack_size(512 << 20).build().expect("pool");
    let subs = subcases();
    let results: Vec<ShardResult> = pool.install(|| {
        files
            .par_iter()
            .map(|f| {
                let mut r = ShardResult::default();
                let mut cf = check_fn;
                run_file(f, &subs, &mut r, &mut cf);
                r
            })
            .collect()
    });
    let mut list = vec![];
    let mut total = ShardResult::default();
    let mut results = results;
    {
        let mut r = ShardResult::default();
        let mut cf = check_fn;
        run_builtins(&mut r, &mut cf);
        results.push(r);
    }
    let mut seen = std::collections::BTreeSet::new();
    for r in results {
        for v in &r.violations {
            if seen.insert(v.signature.clone()) {
                list.push(json!({"property": prop, "signature": v.signature, "description": v.description, "status": "open"}));
            }
        }
        let mut r2 = r;
        r2.violations.clear();
        total.merge(r2);
    }
    std::fs::write(out, serde_json::to_string_pretty(&Value::Array(list.clone())).unwrap()).expect("write");
    println!("{prop}: {} failing cases written to {out}; evaluations={} counters={:?} inconclusive={:?}", list.len(), total.evaluations, total.counters, total.inconclusive_notes);
    0
}

fn subcommand(args: &[String]) -> Option<i32> {
    match args.first().map(|s| s.as_str()) {
        Some("c18-enumerate") if args.len() >= 3 => {
            let code = match args[1].as_str() {
                "C18" => enumerate_all("C18", check, &args[2]),
                "C19" => enumerate_all("C19", crate::c19::check, &args[2]),
                _ => 2,
            };
            Some(code)
        }
        Some("c18-calib2") if args.len() >= 2 => {
            use rayon::prelude::*;
            let kind = args[1].clone();
            let files = corpus();
            let pool = rayon::ThreadPoolBuilder::new().num_threads(14).stack_size(512 << 20).build().expect("pool");
            let rs: Vec<Vec<((String, String), bool)>> = pool.install(|| {
                files
                    .par_iter()
                    .map(|f| {
                        let mut out = vec![];
                        let Some(text) = read_corpus_file(f) else { return out };
                        let Ok(lx) = lex(&text) else { return out };
                        let (x, classes) = calib_insert_all(&kind, &text, &lx);
                        let FmtOut::Ok(y) = run_fmt(&x, &config_by_name("default").unwrap()) else { return out };
                        for (id, c) in classes.into_iter().enumerate() {
                            let lost = !y.contains(&format!("vq{}q", id));
                            out.push((c, lost));
                        }
                        out
                    })
                    .collect()
            });
            let mut tally: std::collections::BTreeMap<(String, String), (u64, u64)> = Default::default();
            let mut by_prev: std::collections::BTreeMap<String, (u64, u64)> = Default::default();
            for r in rs {
                for (c, lost) in r {
                    let e = tally.entry(c.clone()).or_default();
                    e.0 += 1;
                    e.1 += lost as u64;
                    let e = by_prev.entry(c.0).or_default();
                    e.0 += 1;
                    e.1 += lost as u64;
                }
            }
            println!("== by previous token class: inserted lost");
            for (k, v) in &by_prev {
                println!("{:>16} {:>8} {:>8}", k, v.0, v.1);
            }
            println!("== by (prev,next) with >= 20 insertions");
            for (k, v) in &tally {
                if v.0 >= 20 {
                    println!("{:>16} {:>16} {:>8} {:>8}", k.0, k.1, v.0, v.1);
                }
            }
            Some(0)
        }
        Some("c18-show") if args.len() >= 5 => {
            let a = args.to_vec();
            Some(on_big_stack(move || show(&a)))
        }
        _ => None,
    }
}

fn show(args: &[String]) -> i32 {
    let (Some(config), Some(variant)) = (intern_config(&args[3]), intern_variant(&args[4])) else {
        eprintln!("unknown config/variant");
        return 2;
    };
    let file = args[2].clone();
    let check_fn: fn(&CaseId, &str, usize, &mut ShardResult) = if args[1] == "C19" { crate::c19::check } else { check };
    let mut res = ShardResult::default();
    let mut f = check_fn;
    run_file(&file, &[(config, variant)], &mut res, &mut f);
    for v in &res.violations {
        println!("VIOLATION {} :: {}", v.signature, v.description);
    }
    println!("counters: {:?}", res.counters);
    if let Some(dir) = args.get(5) {
        std::fs::create_dir_all(dir).ok();
        let text = read_corpus_file(&file).unwrap_or_default();
        let x = match lex(&text) {
            Ok(lx) => make_variant(variant, &text, &lx).unwrap_or(text.clone()),
            Err(_) => text.clone(),
        };
        let cfg = config_by_name(config).unwrap();
        std::fs::write(format!("{dir}/x.sw"), &x).ok();
        let first = run_fmt(&x, &cfg);
        if !matches!(first, FmtOut::Ok(_)) {
            println!("first pass: {first:?}");
        }
        let _ = std::fs::remove_file(format!("{dir}/f1.sw"));
        let _ = std::fs::remove_file(format!("{dir}/f2.sw"));
        if let FmtOut::Ok(f1) = first {
            std::fs::write(format!("{dir}/f1.sw"), &f1).ok();
            match run_fmt(&f1, &cfg) {
                FmtOut::Ok(f2) => {
                    std::fs::write(format!("{dir}/f2.sw"), &f2).ok();
                }
                other => println!("second pass: {other:?}"),
            }
        }
    }
    0
}
