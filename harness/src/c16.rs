//! C16: lexer and parser never crash and report in-bounds spans.
//!
//! Monitor: the real `sway_parse::lex_commented` / `sway_parse::parse_file` are run on mutants of
//! every `.sw` file of the repository and on token soups. Each shard is a supervisor that runs a
//! disposable worker process (`swverif c16-worker ...`); inside the worker a 256 MiB-stack thread
//! calls the parser under `catch_unwind`. Observed:
//!   * a panic inside lex/parse_file (or inside sway-error while turning an emitted error into a
//!     `Diagnostic`)                                              -> violation (call-site signature)
//!   * the worker process dying on a signal (stack overflow, abort) on an input that kills a
//!     fresh process again                                        -> violation
//!   * every span of every emitted error / warning / info (main span, nested lex positions,
//!     nested parse-error spans, `to_diagnostic` labels), every token span of the lexed stream and
//!     every item / attribute span of the returned module: start <= end <= len, both offsets on
//!     UTF-8 character boundaries of the input                    -> violation otherwise
//!   * `Err(ErrorEmitted)` with no error in the handler (neither a tree nor a diagnostic)
//! A worker that stops making progress is killed and recorded as inconclusive (never a verdict).
//!
//! Only the calls into sway-parse / sway-error / sway-ast are wrapped in `catch`; the mutation
//! code runs outside of it, so a bug of the harness can never be reported as a parser panic (it
//! would take the worker down with exit code 3 -> harness fault).
use crate::common::*;
use crate::{Plan, Prop};
use rand::rngs::StdRng;
use rand::Rng;
use serde_json::{json, Value};
use std::collections::HashMap;
use std::panic::AssertUnwindSafe;
use std::path::{Path, PathBuf};
use std::time::{Duration, Instant};
use sway_ast::token::{CommentedTokenStream, CommentedTokenTree, CommentedTree};
use sway_ast::ItemKind;
use sway_error::diagnostic::ToDiagnostic;
use sway_error::error::CompileError;
use sway_error::handler::Handler;
use sway_error::lex_error::LexErrorKind;
use sway_error::parser_error::ParseErrorKind;
use sway_features::ExperimentalFeatures;
use sway_types::span::Source;
use sway_types::{SourceEngine, SourceId, Span, Spanned};

pub static META: PropertyMeta = PropertyMeta {
    id: "C16",
    level: "exploration",
    rule: "inputs = 1-4 stacked mutations (byte/char/token/line insert-delete-swap-duplicate, cross-file token splicing, delimiter unbalancing, unicode injection, comment/whitespace perturbation, literal mangling, truncation) of .sw files sampled uniformly from all .sw files under /repo (excluding target, .git), plus token soups over the lexer alphabet; naive delimiter depth capped at 64. Non-trivial = the mutant's token stream (real lexer, comments stripped) differs from its seed file's; when either does not lex: the bytes differ; soups: at least 2 tokens. distinct = hash of the input text",
    assumptions: &[
        "stack exhaustion by deeper than 64-level delimiter nesting is a resource limit and is not explored",
        "inputs with more than 14 simultaneously open '[' are not generated: type parsing is exponential in '[' nesting (slow, but it terminates)",
        "a worker that makes no progress for 60 s is killed and counted inconclusive (termination is only observed, not bounded)",
    ],
    floor_evaluations: 2000,
    floor_nontrivial: 1000,
    required_counters: &["lexed_ok", "lex_rejected", "parsed_ok", "parse_rejected", "diagnostic_spans_checked", "token_spans_checked", "item_spans_checked", "inputs_non_ascii", "kind_mutant", "kind_soup", "seed_files_used"],
};

pub static PROP: Prop = Prop {
    meta: &META,
    plan: |t| Plan { nshards: 16, budget_s: t.pick(20.0, 600.0), mem_gib: 4 },
    shard,
    replay,
    extra: crate::no_extra,
    subcommand,
};

const STACK: usize = 256 << 20;
const MAX_DEPTH: usize = 64;
/// `[` nesting is capped much lower: `Ty::parse` tries `[T; n]` and then re-parses the same tokens
/// as `[T]`, so a type (or anything parsed as a type) nested k levels deep in `[` costs 2^k
/// (measured: k=18 0.16 s, k=22 1.9 s, k=30 minutes). That is slowness, not a crash; such inputs
/// would only burn the budget as watchdog expiries.
const MAX_BRACKET_DEPTH: usize = 14;
const MAX_LEN: usize = 400_000;
const HANG_SECS: u64 = 60;

// ------------------------------------------------------------------------------------------
// Corpus

fn corpus_files() -> Vec<PathBuf> {
    let mut v = vec![];
    let root = Path::new(REPO);
    let it = walkdir::WalkDir::new(root).follow_links(false).into_iter().filter_entry(|e| {
        if e.depth() == 1 {
            let n = e.file_name().to_string_lossy();
            if n == "target" || n == ".git" {
                return false;
            }
        }
        true
    });
    for e in it.flatten() {
        if e.file_type().is_file() && e.path().extension().map(|x| x == "sw").unwrap_or(false) {
            v.push(e.path().to_path_buf());
        }
    }
    v.sort();
    v
}

struct Corpus {
    files: Vec<PathBuf>,
    text: HashMap<usize, Option<String>>,
    fp: HashMap<usize, Option<u64>>,
}

impl Corpus {
    fn load() -> Corpus {
        Corpus { files: corpus_files(), text: HashMap::new(), fp: HashMap::new() }
    }
    fn text(&mut self, i: usize) -> Option<String> {
        let files = &self.files;
        self.text.entry(i).or_insert_with(|| std::fs::read(&files[i]).ok().and_then(|b| String::from_utf8(b).ok())).clone()
    }
}

// ------------------------------------------------------------------------------------------
// The harness's own rough tokenizer (only used to find mutation points; independent of sway-parse)

#[derive(Clone, Copy, PartialEq, Eq, Debug)]
enum K {
    Ws,
    Comment,
    Word,
    Str,
    Open,
    Close,
    Punct,
}

#[derive(Clone, Copy, Debug)]
struct Tok {
    s: usize,
    e: usize,
    k: K,
}

fn rough_tokens(text: &str) -> Vec<Tok> {
    let b = text.as_bytes();
    let n = b.len();
    let mut out = vec![];
    let mut i = 0;
    while i < n {
        let c = b[i];
        let s = i;
        let k;
        if c == b' ' || c == b'\t' || c == b'\n' || c == b'\r' {
            while i < n && (b[i] == b' ' || b[i] == b'\t' || b[i] == b'\n' || b[i] == b'\r') {
                i += 1;
            }
            k = K::Ws;
        } else if c == b'/' && i + 1 < n && b[i + 1] == b'/' {
            while i < n && b[i] != b'\n' {
                i += 1;
            }
            k = K::Comment;
        } else if c == b'/' && i + 1 < n && b[i + 1] == b'*' {
            let mut depth = 0usize;
            while i < n {
                if b[i] == b'/' && i + 1 < n && b[i + 1] == b'*' {
                    depth += 1;
                    i += 2;
                } else if b[i] == b'*' && i + 1 < n && b[i + 1] == b'/' {
                    depth -= 1;
                    i += 2;
                    if depth == 0 {
                        break;
                    }
                } else {
                    i += 1;
                }
            }
            k = K::Comment;
        } else if c == b'"' {
            i += 1;
            while i < n && b[i] != b'"' {
                if b[i] == b'\\' && i + 1 < n {
                    i += 1;
                }
                i += 1;
            }
            if i < n {
                i += 1;
            }
            k = K::Str;
        } else if c.is_ascii_alphanumeric() || c == b'_' || c >= 0x80 {
            while i < n && (b[i].is_ascii_alphanumeric() || b[i] == b'_' || b[i] >= 0x80) {
                i += 1;
            }
            k = K::Word;
        } else if c == b'(' || c == b'[' || c == b'{' {
            i += 1;
            k = K::Open;
        } else if c == b')' || c == b']' || c == b'}' {
            i += 1;
            k = K::Close;
        } else {
            i += 1;
            k = K::Punct;
        }
        // never split inside a UTF-8 sequence
        while i < n && !text.is_char_boundary(i) {
            i += 1;
        }
        out.push(Tok { s, e: i.min(n), k });
    }
    out
}

/// Conservative nesting depth: counts every delimiter character, also those in strings/comments.
fn naive_depth(text: &str) -> usize {
    let mut d = 0usize;
    let mut m = 0usize;
    for &c in text.as_bytes() {
        match c {
            b'(' | b'[' | b'{' => {
                d += 1;
                m = m.max(d);
            }
            b')' | b']' | b'}' => d = d.saturating_sub(1),
            _ => {}
        }
    }
    m
}

/// Conservative count of simultaneously open `[` (any closing delimiter closes one).
fn naive_bracket_depth(text: &str) -> usize {
    let mut d = 0usize;
    let mut m = 0usize;
    for &c in text.as_bytes() {
        match c {
            b'[' => {
                d += 1;
                m = m.max(d);
            }
            b']' => d = d.saturating_sub(1),
            _ => {}
        }
    }
    m
}

fn over_cap(text: &str) -> Option<&'static str> {
    if naive_depth(text) > MAX_DEPTH {
        Some("depth_cap")
    } else if naive_bracket_depth(text) > MAX_BRACKET_DEPTH {
        Some("bracket_depth_cap")
    } else if text.len() > MAX_LEN {
        Some("size_cap")
    } else {
        None
    }
}

// ------------------------------------------------------------------------------------------
// Alphabet

const KEYWORDS: &[&str] = &[
    "script", "contract", "predicate", "library", "mod", "pub", "use", "as", "struct", "enum", "self", "Self", "fn", "trait", "impl", "for", "abi", "const", "storage", "str", "asm", "return", "if", "else", "match", "mut", "let", "while", "where", "ref", "true", "false", "break", "continue", "configurable", "type", "panic", "in", "class", "dep", "deref", "dyn",
];
const PUNCT: &[&str] = &[
    ";", ":", "::", "/", ",", "*", "+", "-", "<", ">", "=", ".", "..", "...", "!", "%", "&", "^", "|", "_", "#", "#!", "->", "=>", "==", "!=", "<=", ">=", "&&", "||", "+=", "-=", "*=", "/=", "<<", ">>", "<<=", ">>=", "**", "~", "?", "@", "$", "\\", "`", "#[", "#![", "::<", "&mut", "..=",
];
const OPEN: &[&str] = &["(", "[", "{"];
const CLOSE: &[&str] = &[")", "]", "}"];
const LITERALS: &[&str] = &[
    "0", "1", "42", "0x", "0b", "0o", "0xff", "0xFF", "0b1010", "0o17", "1u8", "255u8", "256u8", "1u16", "1u32", "1u64", "1u256", "1i8", "1i64", "1u128", "1u7", "1usize", "0x1u8", "0b1u64", "1_000", "1__0", "1_", "_1", "0x_", "0x_1", "0b2", "0o9", "0xg", "1e5", "1.0", "1.", "0.", ".0", "1.a", "1.0.0", "0.0.0", "1..2", "00", "007", "0X1", "0B1",
    "0x0000000000000000000000000000000000000000000000000000000000000001",
    "0xfffffffffffffffffffffffffffffffffffffffffffffffffffffffffffffffff",
    "0xfffffffffffffffffffffffffffffffffffffffffffffffffffffffffffffff",
    "0xFFFFFFFFFFFFFFFFFFFFFFFFFFFFFFFFFFFFFFFFFFFFFFFFFFFFFFFFFFFFFFFFu256",
    "0b1111111111111111111111111111111111111111111111111111111111111111",
    "0b11111111111111111111111111111111111111111111111111111111111111111",
    "18446744073709551615", "18446744073709551616", "340282366920938463463374607431768211456",
    "115792089237316195423570985008687907853269984665640564039457584007913129639936",
    "99999999999999999999999999999999999999999999999999999999999999999999999999999999999999999999999999",
    "\"\"", "\"abc\"", "\"a\\nb\"", "\"\\t\\r\\0\\\\\\'\\\"\"", "\"\\x41\"", "\"\\x4\"", "\"\\xzz\"", "\"\\xff\"", "\"\\x80\"", "\"\\u{1F600}\"", "\"\\u{110000}\"", "\"\\u{D800}\"", "\"\\u{}\"", "\"\\u{\"", "\"\\u{1F600\"", "\"\\u{1234567}\"", "\"\\u1234\"", "\"\\u\"", "\"\\q\"", "\"unclosed", "\"\\\"", "\"\\\n  x\"", "\"\\", "\"\n\"", "\"é😀\u{0301}\"", "\"\u{202E}\"", "\"\\u{202E}\"",
    "'a'", "'\\n'", "'ab'", "''", "'", "'a", "'\\'", "'\\''", "'\\u{1F600}'", "'\\u{110000}'", "'\\x41'", "'\\x4'", "'é'", "'😀'", "'\u{202E}'", "'static", "'a 'b", "'\\", "'\n'",
    "__", "r#fn", "r#", "r#\"x\"#", "b\"x\"", "b'x'",
];
const COMMENTS: &[&str] = &[
    "// c\n", "/// doc\n", "//! inner\n", "/* c */", "/* /* nested */ */", "/* unclosed", "/* /* half */", "*/", "/**/", "/***/", "/** doc */", "/*! inner */", "//", "///", "//!", "/*/", "/*", "/* \u{1F600} */", "// \u{0301}\n", "//\r\n", "/// é\n", "//! 😀", "////\n", "/* \n */",
];
const UNICODE: &[char] = &[
    'é', 'ß', 'ñ', 'Ω', '\u{7eb}', '\u{7ff}', '\u{800}', '中', '€', '\u{2028}', '\u{2029}', '\u{FEFF}', '\u{200B}', '\u{200D}', '😀', '𝔘', '\u{10000}', '\u{10FFFF}', '\u{0301}', '\u{20DD}', '\u{202E}', '\u{2066}', '\u{00A0}', '\u{3000}', '\u{85}', '\u{80}', '\u{FFFD}', '\u{FFFF}', 'ǅ', 'ﬁ', '٣', '²',
];
const IDENTS: &[&str] = &[
    "x", "y", "foo", "main", "Foo", "Bar", "T", "u64", "u8", "u256", "b256", "bool", "Vec", "Option", "Some", "None", "std", "core", "__intrinsic", "__add", "_x", "é", "naïve", "x\u{0304}", "中文", "storage", "ecal", "add", "lw", "noop", "r1", "zero", "i0", "i16", "inline", "test", "cfg", "doc", "read", "write", "payable", "abi_name", "a1b2", "A_B",
];
const SKELETONS: &[&str] = &[
    "script;", "library;", "contract;", "predicate;", "fn f() {", "fn f(x: u64) -> u64 {", "pub fn g<T>(a: T) where T: Eq {", "struct S {", "struct S<T> { x: T,", "enum E {", "E: (),", "impl T for S {", "impl S {", "impl<T> S<T> {", "abi A {", "storage {", "configurable {", "trait T {", "trait T: A + B {", "} {", "const C: u64 =", "use a::{", "use std::*;", "mod m;", "type A =", "asm(r1: x, r2) {", "add r1 r2 r3;", "r1: u64", "match x {", "A::B(y) =>", "_ =>", "if x {", "} else if y {", "} else {", "while x {", "for i in v.iter() {", "let x =", "let mut x: u64 =", "let (a, b) =", "let S { x, .. } =", "#[attr(", "#[storage(read, write)]", "#[cfg(experimental_new_encoding = true)]", "#![allow(dead_code)]", "where T:", "<T>", "::<u64>", "x.0.1", "x[0]", "[0; 3]", "[u8; 3]", "(a, b)", "&mut x", "*x", "!x", "-x", "x as u64", "abi(A, addr)", "storage.x.read()", "storage::ns.x", "in 0x01", "__ptr[u8]", "__slice[u8]", "str[3]", "return;", "break;", "continue;", "panic \"x\";", "x += 1;", "S { x: 1, y }", "|x|", "a..b", "x?", "fn(u64) -> u64", "self.x", "Self::A", "~S::new()", "..",
];
const WS: &[&str] = &[" ", "", "\n", "\t", "\r\n", "  ", "\n\n", "\r", "\u{A0}", "\u{2028}", "\u{FEFF}", "\u{3000}", "\u{85}", "\u{b}", "\u{c}"];

fn pick<'a>(rng: &mut StdRng, xs: &[&'a str]) -> &'a str {
    xs[rng.gen_range(0..xs.len())]
}

fn alphabet_token(rng: &mut StdRng) -> String {
    match rng.gen_range(0..100) {
        0..=17 => pick(rng, KEYWORDS).to_string(),
        18..=37 => pick(rng, PUNCT).to_string(),
        38..=45 => pick(rng, OPEN).to_string(),
        46..=53 => pick(rng, CLOSE).to_string(),
        54..=71 => pick(rng, LITERALS).to_string(),
        72..=77 => pick(rng, COMMENTS).to_string(),
        78..=81 => UNICODE[rng.gen_range(0..UNICODE.len())].to_string(),
        82..=93 => pick(rng, IDENTS).to_string(),
        _ => pick(rng, SKELETONS).to_string(),
    }
}

fn separator(rng: &mut StdRng) -> &'static str {
    match rng.gen_range(0..100) {
        0..=59 => " ",
        60..=74 => "",
        75..=86 => "\n",
        _ => WS[rng.gen_range(0..WS.len())],
    }
}

fn soup(rng: &mut StdRng) -> String {
    let mut s = String::new();
    let style = rng.gen_range(0..4);
    if style != 0 {
        s.push_str(pick(rng, &["script;", "library;", "contract;", "predicate;", "script ;", "library"]));
        s.push('\n');
    }
    let n = match rng.gen_range(0..10) {
        0..=2 => rng.gen_range(1..=8),
        3..=7 => rng.gen_range(5..=60),
        _ => rng.gen_range(40..=300),
    };
    let mut depth = 0usize;
    for _ in 0..n {
        let t = if style >= 2 && rng.gen_bool(0.45) { pick(rng, SKELETONS).to_string() } else { alphabet_token(rng) };
        // keep the (naive) nesting depth below the cap while generating
        let opens = t.bytes().filter(|c| matches!(c, b'(' | b'[' | b'{')).count();
        let closes = t.bytes().filter(|c| matches!(c, b')' | b']' | b'}')).count();
        let bopens = t.bytes().filter(|c| *c == b'[').count();
        if bopens > 0 && naive_bracket_depth(&s) + bopens > MAX_BRACKET_DEPTH / 2 && rng.gen_bool(0.9) {
            s.push_str("]");
            depth = depth.saturating_sub(1);
            continue;
        }
        if depth + opens >= MAX_DEPTH {
            s.push_str(pick(rng, CLOSE));
            depth = depth.saturating_sub(1);
            continue;
        }
        depth = (depth + opens).saturating_sub(closes);
        s.push_str(&t);
        s.push_str(separator(rng));
        // sometimes close what is open so that recovery and later items are reached
        if style == 3 && depth > 0 && rng.gen_bool(0.15) {
            s.push_str(pick(rng, CLOSE));
            depth -= 1;
        }
    }
    s
}

// ------------------------------------------------------------------------------------------
// Mutation operators (all produce valid UTF-8: byte-level damage goes through from_utf8_lossy)

fn char_boundary_at_or_before(s: &str, mut i: usize) -> usize {
    i = i.min(s.len());
    while !s.is_char_boundary(i) {
        i -= 1;
    }
    i
}

fn rand_boundary(rng: &mut StdRng, s: &str) -> usize {
    if s.is_empty() {
        return 0;
    }
    let i = rng.gen_range(0..=s.len());
    char_boundary_at_or_before(s, i)
}

fn lossy(b: Vec<u8>) -> String {
    match String::from_utf8(b) {
        Ok(s) => s,
        Err(e) => String::from_utf8_lossy(e.as_bytes()).into_owned(),
    }
}

fn rand_char(rng: &mut StdRng) -> char {
    match rng.gen_range(0..10) {
        0..=5 => (rng.gen_range(0x20u8..0x7f)) as char,
        6 => *choose(rng, &['\n', '\t', '\r', '\0', '\u{7f}', '\u{1}', '\u{1b}']),
        7 => *choose(rng, &['"', '\'', '\\', '/', '*', '#', '{', '}', '(', ')', '[', ']', ';', ':', '<', '>', '_', '.', '0', 'x', 'u', 'e']),
        _ => UNICODE[rng.gen_range(0..UNICODE.len())],
    }
}

const OPS: &[&str] = &[
    "byte_insert", "byte_delete", "byte_replace", "char_insert", "char_delete", "char_swap", "range_delete", "range_dup", "truncate", "tok_delete", "tok_dup", "tok_swap_adjacent", "tok_swap_random", "tok_replace", "tok_insert", "tok_range_delete", "tok_shuffle", "splice_file", "delim_delete", "delim_insert", "delim_change", "delim_burst", "unicode_inject", "ws_perturb", "comment_insert", "comment_damage", "literal_mangle", "string_escape", "line_delete", "line_dup", "line_swap", "keyword_swap", "skeleton_insert", "unicode_word_start",
];

/// Applies one mutation; `other` is a second corpus file for splicing. Returns the operator name.
fn mutate_once(rng: &mut StdRng, s: &mut String, other: &str) -> &'static str {
    let op = OPS[rng.gen_range(0..OPS.len())];
    let toks = rough_tokens(s);
    let solid: Vec<usize> = toks.iter().enumerate().filter(|(_, t)| t.k != K::Ws).map(|(i, _)| i).collect();
    let tok_boundary = |rng: &mut StdRng| -> usize {
        if toks.is_empty() {
            0
        } else {
            let t = toks[rng.gen_range(0..toks.len())];
            if rng.gen_bool(0.5) {
                t.s
            } else {
                t.e
            }
        }
    };
    match op {
        "byte_insert" => {
            let mut b = std::mem::take(s).into_bytes();
            let i = rng.gen_range(0..=b.len());
            let n = rng.gen_range(1..=3);
            for _ in 0..n {
                b.insert(i, rng.gen());
            }
            *s = lossy(b);
        }
        "byte_delete" => {
            let mut b = std::mem::take(s).into_bytes();
            if !b.is_empty() {
                let i = rng.gen_range(0..b.len());
                let n = rng.gen_range(1..=4).min(b.len() - i);
                b.drain(i..i + n);
            }
            *s = lossy(b);
        }
        "byte_replace" => {
            let mut b = std::mem::take(s).into_bytes();
            if !b.is_empty() {
                let i = rng.gen_range(0..b.len());
                if rng.gen_bool(0.5) {
                    b[i] ^= 1 << rng.gen_range(0..8);
                } else {
                    b[i] = rng.gen();
                }
            }
            *s = lossy(b);
        }
        "char_insert" => {
            let i = rand_boundary(rng, s);
            s.insert(i, rand_char(rng));
        }
        "char_delete" => {
            let i = rand_boundary(rng, s);
            if i < s.len() {
                s.remove(i);
            }
        }
        "char_swap" => {
            let i = rand_boundary(rng, s);
            let mut it = s[i..].chars();
            if let (Some(a), Some(b)) = (it.next(), it.next()) {
                let len = a.len_utf8() + b.len_utf8();
                let mut r = String::new();
                r.push(b);
                r.push(a);
                s.replace_range(i..i + len, &r);
            }
        }
        "range_delete" => {
            let i = rand_boundary(rng, s);
            let max = if rng.gen_bool(0.8) { 40 } else { 2000 };
            let j = char_boundary_at_or_before(s, i + rng.gen_range(0..=max));
            s.replace_range(i..j.max(i), "");
        }
        "range_dup" => {
            let i = rand_boundary(rng, s);
            let j = char_boundary_at_or_before(s, i + rng.gen_range(0..=200)).max(i);
            let piece = s[i..j].to_string();
            let at = rand_boundary(rng, s);
            s.insert_str(at, &piece);
        }
        "truncate" => {
            if rng.gen_bool(0.7) {
                let i = rand_boundary(rng, s);
                s.truncate(i);
            } else {
                let mut b = std::mem::take(s).into_bytes();
                let i = rng.gen_range(0..=b.len());
                b.truncate(i);
                *s = lossy(b);
            }
        }
        "tok_delete" => {
            if !solid.is_empty() {
                let t = toks[solid[rng.gen_range(0..solid.len())]];
                s.replace_range(t.s..t.e, "");
            }
        }
        "tok_dup" => {
            if !solid.is_empty() {
                let t = toks[solid[rng.gen_range(0..solid.len())]];
                let piece = s[t.s..t.e].to_string();
                let n = if rng.gen_bool(0.9) { 1 } else { rng.gen_range(2..=20) };
                let sep = separator(rng);
                let mut ins = String::new();
                for _ in 0..n {
                    ins.push_str(sep);
                    ins.push_str(&piece);
                }
                if naive_depth(&ins) < 20 {
                    s.insert_str(t.e, &ins);
                }
            }
        }
        "tok_swap_adjacent" | "tok_swap_random" => {
            if solid.len() >= 2 {
                let a = rng.gen_range(0..solid.len() - 1);
                let b = if op == "tok_swap_adjacent" { a + 1 } else { rng.gen_range(a + 1..solid.len()) };
                let (ta, tb) = (toks[solid[a]], toks[solid[b]]);
                let (sa, sb) = (s[ta.s..ta.e].to_string(), s[tb.s..tb.e].to_string());
                s.replace_range(tb.s..tb.e, &sa);
                s.replace_range(ta.s..ta.e, &sb);
            }
        }
        "tok_replace" => {
            if !solid.is_empty() {
                let t = toks[solid[rng.gen_range(0..solid.len())]];
                let r = alphabet_token(rng);
                s.replace_range(t.s..t.e, &r);
            }
        }
        "tok_insert" => {
            let at = tok_boundary(rng);
            let n = rng.gen_range(1..=3);
            let mut ins = String::new();
            for _ in 0..n {
                ins.push_str(separator(rng));
                ins.push_str(&alphabet_token(rng));
            }
            ins.push_str(separator(rng));
            s.insert_str(at, &ins);
        }
        "tok_range_delete" => {
            if !toks.is_empty() {
                let a = rng.gen_range(0..toks.len());
                let b = (a + rng.gen_range(1..=12)).min(toks.len());
                s.replace_range(toks[a].s..toks[b - 1].e, "");
            }
        }
        "tok_shuffle" => {
            if solid.len() >= 3 {
                let a = rng.gen_range(0..solid.len() - 2);
                let b = (a + rng.gen_range(3..=8)).min(solid.len());
                let mut pieces: Vec<String> = solid[a..b].iter().map(|&i| s[toks[i].s..toks[i].e].to_string()).collect();
                for i in (1..pieces.len()).rev() {
                    let j = rng.gen_range(0..=i);
                    pieces.swap(i, j);
                }
                // replace back to front so earlier offsets stay valid
                for (k, &i) in solid[a..b].iter().enumerate().rev() {
                    s.replace_range(toks[i].s..toks[i].e, &pieces[k]);
                }
            }
        }
        "splice_file" => {
            let ot = rough_tokens(other);
            if !ot.is_empty() {
                let a = rng.gen_range(0..ot.len());
                let b = (a + rng.gen_range(1..=40)).min(ot.len());
                let piece = &other[ot[a].s..ot[b - 1].e];
                if rng.gen_bool(0.5) || toks.is_empty() {
                    let at = tok_boundary(rng);
                    s.insert_str(at, piece);
                } else {
                    let x = rng.gen_range(0..toks.len());
                    let y = (x + rng.gen_range(1..=20)).min(toks.len());
                    s.replace_range(toks[x].s..toks[y - 1].e, piece);
                }
            }
        }
        "delim_delete" | "delim_change" => {
            let ds: Vec<usize> = toks.iter().enumerate().filter(|(_, t)| t.k == K::Open || t.k == K::Close).map(|(i, _)| i).collect();
            if !ds.is_empty() {
                let t = toks[ds[rng.gen_range(0..ds.len())]];
                let r = if op == "delim_delete" {
                    ""
                } else if rng.gen_bool(0.5) {
                    pick(rng, OPEN)
                } else {
                    pick(rng, CLOSE)
                };
                s.replace_range(t.s..t.e, r);
            }
        }
        "delim_insert" => {
            let at = tok_boundary(rng);
            let r = if rng.gen_bool(0.5) { pick(rng, OPEN) } else { pick(rng, CLOSE) };
            s.insert_str(at, r);
        }
        "delim_burst" => {
            let at = tok_boundary(rng);
            let mut n = rng.gen_range(2..=40);
            let mut ins = String::new();
            let same = rng.gen_bool(0.5);
            let d = if rng.gen_bool(0.6) { pick(rng, OPEN) } else { pick(rng, CLOSE) };
            if d == "[" || !same {
                n = n.min(10);
            }
            for _ in 0..n {
                ins.push_str(if same {
                    d
                } else if rng.gen_bool(0.7) {
                    pick(rng, OPEN)
                } else {
                    pick(rng, CLOSE)
                });
            }
            s.insert_str(at, &ins);
        }
        "unicode_inject" => {
            let c = UNICODE[rng.gen_range(0..UNICODE.len())];
            // anywhere, or inside a word / string / comment
            let want = match rng.gen_range(0..4) {
                0 => None,
                1 => Some(K::Word),
                2 => Some(K::Str),
                _ => Some(K::Comment),
            };
            let cands: Vec<&Tok> = toks.iter().filter(|t| Some(t.k) == want).collect();
            let at = if cands.is_empty() {
                rand_boundary(rng, s)
            } else {
                let t = cands[rng.gen_range(0..cands.len())];
                char_boundary_at_or_before(s, rng.gen_range(t.s..=t.e))
            };
            let n = if rng.gen_bool(0.85) { 1 } else { rng.gen_range(2..=5) };
            for _ in 0..n {
                s.insert(at, c);
            }
        }
        "unicode_word_start" => {
            // the FIRST character of a word becomes / is preceded by a multi-byte letter that may
            // start an identifier; words inside asm blocks (register names, immediates such as
            // `i16`, opcodes) and number-like words are preferred - code that inspects the first
            // byte(s) of a token's text meets a character boundary there
            const LETTERS: &[char] = &['é', 'ß', 'λ', 'Ω', '中', 'ǅ', '𝔘', 'ﬁ'];
            let words: Vec<(usize, &Tok)> = toks.iter().enumerate().filter(|(_, t)| t.k == K::Word).collect();
            if !words.is_empty() {
                let mut in_asm: Vec<&Tok> = vec![];
                for (i, t) in &words {
                    if &s[t.s..t.e] == "asm" {
                        in_asm.extend(toks[*i + 1..(*i + 160).min(toks.len())].iter().filter(|x| x.k == K::Word));
                    }
                }
                let immediates: Vec<&Tok> = in_asm.iter().copied().filter(|t| s[t.s..t.e].starts_with('i') && s[t.s + 1..t.e].chars().all(|c| c.is_ascii_digit()) && t.e - t.s >= 2).collect();
                let t: &Tok = if !immediates.is_empty() && rng.gen_bool(0.5) {
                    immediates[rng.gen_range(0..immediates.len())]
                } else if !in_asm.is_empty() && rng.gen_bool(0.6) {
                    in_asm[rng.gen_range(0..in_asm.len())]
                } else {
                    words[rng.gen_range(0..words.len())].1
                };
                let c = LETTERS[rng.gen_range(0..LETTERS.len())];
                let (a, b) = (t.s, t.e);
                if rng.gen_bool(0.5) || b - a < 2 {
                    s.insert(a, c);
                } else {
                    // replace the first character
                    let first_len = s[a..b].chars().next().map(|ch| ch.len_utf8()).unwrap_or(1);
                    s.replace_range(a..a + first_len, &c.to_string());
                }
            }
        }
        "ws_perturb" => {
            let wss: Vec<&Tok> = toks.iter().filter(|t| t.k == K::Ws).collect();
            if !wss.is_empty() && rng.gen_bool(0.7) {
                let t = wss[rng.gen_range(0..wss.len())];
                let r = WS[rng.gen_range(0..WS.len())];
                s.replace_range(t.s..t.e, r);
            } else {
                let at = tok_boundary(rng);
                s.insert_str(at, WS[rng.gen_range(0..WS.len())]);
            }
        }
        "comment_insert" => {
            let at = if rng.gen_bool(0.8) { tok_boundary(rng) } else { rand_boundary(rng, s) };
            s.insert_str(at, pick(rng, COMMENTS));
        }
        "comment_damage" => {
            let cs: Vec<&Tok> = toks.iter().filter(|t| t.k == K::Comment).collect();
            if !cs.is_empty() {
                let t = *cs[rng.gen_range(0..cs.len())];
                match rng.gen_range(0..4) {
                    0 => {
                        // drop the closing two bytes / the last char
                        let cut = char_boundary_at_or_before(s, t.e.saturating_sub(2)).max(t.s);
                        s.replace_range(cut..t.e, "");
                    }
                    1 => {
                        // drop the newline that ends a line comment
                        if t.e < s.len() && s.as_bytes()[t.e] == b'\n' {
                            s.replace_range(t.e..t.e + 1, "");
                        }
                    }
                    2 => s.insert_str(t.s + 2.min(t.e - t.s), pick(rng, &["/", "!", "*", "/*", "*/", "\u{1F600}", "\r"])),
                    _ => {
                        let piece = s[t.s..t.e].to_string();
                        s.insert_str(t.s, &piece);
                    }
                }
            }
        }
        "literal_mangle" => {
            let ls: Vec<&Tok> = toks.iter().filter(|t| t.k == K::Word && s.as_bytes()[t.s].is_ascii_digit()).collect();
            if !ls.is_empty() {
                let t = *ls[rng.gen_range(0..ls.len())];
                match rng.gen_range(0..6) {
                    0 => s.insert_str(t.e, pick(rng, &["u8", "u16", "u32", "u64", "u256", "i8", "u7", "_", "x", "e9", "usize", "é", "u", "u6\u{0301}4"])),
                    1 => s.insert_str(t.s, pick(rng, &["0x", "0b", "0o", "0", "-", "0x0x", "_"])),
                    2 => {
                        let at = char_boundary_at_or_before(s, rng.gen_range(t.s..=t.e));
                        s.insert_str(at, pick(rng, &[".", "_", "__", "..", "e", "x"]));
                    }
                    3 => {
                        let n = rng.gen_range(20..=100);
                        let d: String = (0..n).map(|_| (b'0' + rng.gen_range(0..10u8)) as char).collect();
                        s.insert_str(t.e, &d);
                    }
                    4 => s.replace_range(t.s..t.e, pick(rng, LITERALS)),
                    _ => s.replace_range(t.s..t.e, ""),
                }
            } else {
                let at = tok_boundary(rng);
                s.insert_str(at, pick(rng, LITERALS));
            }
        }
        "string_escape" => {
            let ss: Vec<&Tok> = toks.iter().filter(|t| t.k == K::Str).collect();
            let esc = pick(rng, &["\\n", "\\x41", "\\x4", "\\xzz", "\\xff", "\\u{1F600}", "\\u{110000}", "\\u{D800}", "\\u{", "\\u{}", "\\u", "\\q", "\\", "\\\"", "\"", "\n", "\\\n", "\u{202E}", "😀", "\\0", "\\u{00000041}", "\\u{4_1}"]);
            if !ss.is_empty() {
                let t = *ss[rng.gen_range(0..ss.len())];
                let at = char_boundary_at_or_before(s, rng.gen_range(t.s + 1..=t.e.max(t.s + 1)));
                s.insert_str(at, esc);
            } else {
                let at = tok_boundary(rng);
                s.insert_str(at, &format!("\"{esc}\""));
            }
        }
        "line_delete" | "line_dup" | "line_swap" => {
            let mut lines: Vec<String> = s.split_inclusive('\n').map(|l| l.to_string()).collect();
            if !lines.is_empty() {
                let i = rng.gen_range(0..lines.len());
                match op {
                    "line_delete" => {
                        lines.remove(i);
                    }
                    "line_dup" => {
                        let l = lines[i].clone();
                        lines.insert(i, l);
                    }
                    _ => {
                        let j = rng.gen_range(0..lines.len());
                        lines.swap(i, j);
                    }
                }
                *s = lines.concat();
            }
        }
        "keyword_swap" => {
            let ks: Vec<&Tok> = toks.iter().filter(|t| t.k == K::Word && KEYWORDS.contains(&&s[t.s..t.e])).collect();
            if !ks.is_empty() {
                let t = *ks[rng.gen_range(0..ks.len())];
                s.replace_range(t.s..t.e, pick(rng, KEYWORDS));
            } else {
                let at = tok_boundary(rng);
                s.insert_str(at, &format!(" {} ", pick(rng, KEYWORDS)));
            }
        }
        "skeleton_insert" => {
            let at = tok_boundary(rng);
            s.insert_str(at, &format!(" {} ", pick(rng, SKELETONS)));
        }
        _ => unreachable!("unknown operator"),
    }
    op
}

#[derive(Clone, Debug)]
struct Case {
    text: String,
    kind: &'static str,
    ops: Vec<&'static str>,
    seed_file: Option<usize>,
    /// dropped by the generator (depth cap / size cap); not evaluated
    skipped: Option<&'static str>,
}

/// Pure function of (seed, shard, index) and the corpus.
fn gen_case(seed: u64, shard: u64, index: u64, corpus: &mut Corpus) -> Case {
    let mut rng = rng_for(seed, shard, index);
    let soup_case = corpus.files.is_empty() || rng.gen_range(0..100) < 22;
    if soup_case {
        let text = soup(&mut rng);
        let skipped = over_cap(&text);
        return Case { text, kind: "soup", ops: vec!["soup"], seed_file: None, skipped };
    }
    let nfiles = corpus.files.len();
    let fi = rng.gen_range(0..nfiles);
    let oi = rng.gen_range(0..nfiles);
    let Some(mut text) = corpus.text(fi) else {
        return Case { text: String::new(), kind: "mutant", ops: vec![], seed_file: Some(fi), skipped: Some("seed_unreadable") };
    };
    let other = corpus.text(oi).unwrap_or_default();
    // rarely the unmodified seed itself (every file must parse or be diagnosed without a crash)
    let n = match rng.gen_range(0..100) {
        0..=1 => 0,
        2..=56 => 1,
        57..=81 => 2,
        82..=93 => 3,
        _ => 4,
    };
    let mut ops = vec![];
    for _ in 0..n {
        ops.push(mutate_once(&mut rng, &mut text, &other));
    }
    if n == 0 {
        ops.push("identity");
    }
    let skipped = over_cap(&text);
    Case { text, kind: "mutant", ops, seed_file: Some(fi), skipped }
}

// ------------------------------------------------------------------------------------------
// The oracle

struct Checker {
    source_engine: SourceEngine,
    source_id: SourceId,
}

struct SpanIssue {
    what: &'static str,
    start: usize,
    end: usize,
}

fn span_issue(text: &str, start: usize, end: usize) -> Option<SpanIssue> {
    let what = if end > text.len() {
        "end>len"
    } else if start > end {
        "start>end"
    } else if !text.is_char_boundary(start) {
        "start-not-on-char-boundary"
    } else if !text.is_char_boundary(end) {
        "end-not-on-char-boundary"
    } else {
        return None;
    };
    Some(SpanIssue { what, start, end })
}

/// digits stripped, first words only: a stable label for an error kind
fn kind_label(msg: &str) -> String {
    let mut out = String::new();
    for c in msg.chars().take(60) {
        if c.is_ascii_digit() {
            continue;
        }
        if c == '\n' {
            break;
        }
        out.push(c);
    }
    out.trim().to_string()
}

struct Eval<'a> {
    text: &'a str,
    res: &'a mut ShardResult,
    replay: Value,
    input_arc: Option<std::sync::Arc<str>>,
    failed: bool,
}

impl Eval<'_> {
    fn violation(&mut self, sig: String, desc: String) {
        self.failed = true;
        // failures of a confirmed known mechanism are dense on the unchanged tree: only the first
        // few per worker are recorded in full so that the per-shard cap stays free for anything new
        if sig.starts_with("lexer-span-byte-arithmetic[") {
            self.res.count("failures_explained_by_known_defect");
            let key = format!("recorded_{sig}");
            if self.res.counters.get(&key).copied().unwrap_or(0) >= 4 {
                return;
            }
            self.res.count(&key);
        }
        let r = self.replay.clone();
        self.res.violation(sig, desc, r);
    }
    fn check_offsets(&mut self, origin: &str, counter: &str, start: usize, end: usize) {
        self.res.count(counter);
        if let Some(i) = span_issue(self.text, start, end) {
            self.violation(
                format!("bad-span:{origin}:{}", i.what),
                format!("span {}..{} reported by {origin} is not inside the {}-byte input on character boundaries ({})", i.start, i.end, self.text.len(), i.what),
            );
        }
    }
    fn check_span(&mut self, origin: &str, counter: &str, sp: &Span) {
        if let Some(arc) = &self.input_arc {
            if !std::sync::Arc::ptr_eq(arc, &sp.src().text) {
                self.res.count("spans_of_foreign_source");
            }
        }
        self.check_offsets(origin, counter, sp.start(), sp.end());
    }
    fn check_pos(&mut self, origin: &str, pos: usize) {
        self.check_offsets(origin, "diagnostic_spans_checked", pos, pos);
    }
}

/// For every `'` of `text`, replays what `lex_char` does when a char literal holds more than one
/// character (first and second character with escapes decoded, the rest raw up to the next `'`)
/// including its span end `position(second char) + byte length of the decoded string`. Quoted
/// texts for which that end is outside the input or not on a character boundary are replaced by
/// `'xx'`. None if there is no such quoted text.
fn neutralise_overshooting_char_literals(text: &str) -> Option<String> {
    fn escape(it: &mut std::iter::Peekable<std::str::CharIndices>) -> Option<char> {
        let (_, c) = it.next()?;
        Some(match c {
            '"' => '"',
            '\'' => '\'',
            'n' => '\n',
            'r' => '\r',
            't' => '\t',
            '\\' => '\\',
            '0' => '\0',
            'x' => {
                let (h, l) = (it.next()?.1.to_digit(16)?, it.next()?.1.to_digit(16)?);
                char::from_u32((h << 4) | l)?
            }
            'u' => {
                if it.next()?.1 != '{' {
                    return None;
                }
                let mut v: u64 = 0;
                loop {
                    let (_, d) = it.next()?;
                    if d == '}' {
                        break;
                    }
                    v = v.checked_mul(16)?.checked_add(d.to_digit(16)? as u64)?;
                }
                char::from_u32(u32::try_from(v).ok()?)?
            }
            _ => return None,
        })
    }
    let mut bad: Vec<(usize, usize)> = vec![];
    for (i, q) in text.char_indices() {
        if q != '\'' {
            continue;
        }
        let simulate = || -> Option<(usize, usize)> {
            let mut it = text[i + 1..].char_indices().peekable();
            let (_, c1) = it.next()?;
            let first = if c1 == '\\' { escape(&mut it)? } else { c1 };
            let (second_rel, c2) = it.next()?;
            if c2 == '\'' {
                return None;
            }
            let second = if c2 == '\\' { escape(&mut it)? } else { c2 };
            let mut len = first.len_utf8() + second.len_utf8();
            let close_rel = loop {
                let (rel, c) = it.next()?;
                if c == '\'' {
                    break rel;
                }
                len += c.len_utf8();
            };
            let end = i + 1 + second_rel + len;
            if end > text.len() || !text.is_char_boundary(end) {
                Some((i, i + 1 + close_rel + 1))
            } else {
                None
            }
        };
        if let Some(r) = simulate() {
            if bad.last().map(|b| b.1 <= r.0).unwrap_or(true) {
                bad.push(r);
            }
        }
    }
    if bad.is_empty() {
        return None;
    }
    let mut out = String::new();
    let mut at = 0;
    for (s, e) in bad {
        out.push_str(&text[at..s]);
        out.push_str("'xx'");
        at = e;
    }
    out.push_str(&text[at..]);
    Some(out)
}

impl Checker {
    fn new() -> Checker {
        let source_engine = SourceEngine::default();
        let source_id = source_engine.get_source_id(&PathBuf::from("/verif/work/C16/input.sw"));
        Checker { source_engine, source_id }
    }

    /// All diagnostics of a handler: every span they carry must be inside the input.
    fn check_handler(&self, stage: &str, handler: Handler, ev: &mut Eval) -> (usize, usize) {
        let (errors, warnings, infos) = handler.consume();
        let (ne, nw) = (errors.len(), warnings.len() + infos.len());
        for e in &errors {
            // label of the error kind (Display may touch spans: under catch)
            let label = catch(AssertUnwindSafe(|| kind_label(&e.to_string()))).unwrap_or_else(|_| "unprintable".into());
            let origin = format!("{stage}-error[{label}]");
            match catch(AssertUnwindSafe(|| e.span())) {
                Ok(sp) => ev.check_span(&origin, "diagnostic_spans_checked", &sp),
                Err((loc, msg)) => ev.violation(panic_signature(&loc, &msg), format!("CompileError::span() panicked: {msg} at {loc}")),
            }
            match e {
                CompileError::Lex { error } => {
                    ev.res.count("lex_errors_seen");
                    use LexErrorKind::*;
                    let o = format!("{origin}.position");
                    match &error.kind {
                        UnclosedMultilineComment { unclosed_indices } => {
                            for &p in unclosed_indices {
                                ev.check_pos(&o, p);
                            }
                        }
                        UnexpectedCloseDelimiter { position, .. }
                        | UnclosedDelimiter { open_position: position, .. }
                        | UnclosedStringLiteral { position }
                        | UnclosedCharLiteral { position }
                        | ExpectedCloseQuote { position }
                        | IncompleteHexIntLiteral { position }
                        | IncompleteBinaryIntLiteral { position }
                        | IncompleteOctalIntLiteral { position }
                        | InvalidCharacter { position, .. }
                        | UnicodeEscapeMissingBrace { position }
                        | InvalidUnicodeEscapeDigit { position }
                        | UnicodeEscapeOutOfRange { position }
                        | UnicodeTextDirInLiteral { position, .. }
                        | InvalidEscapeCode { position } => ev.check_pos(&o, *position),
                        MismatchedDelimiters { open_position, close_position, .. } => {
                            ev.check_pos(&o, *open_position);
                            ev.check_pos(&o, *close_position);
                        }
                        InvalidIntSuffix { suffix } => ev.check_span(&o, "diagnostic_spans_checked", &suffix.span()),
                        UnicodeEscapeInvalidCharValue { span } => ev.check_span(&o, "diagnostic_spans_checked", span),
                        InvalidHexEscape => {}
                    }
                }
                CompileError::Parse { error } => {
                    ev.res.count("parse_errors_seen");
                    let o = format!("{origin}.nested");
                    match &error.kind {
                        ParseErrorKind::UnassignableExpression { erroneous_expression_span, .. } => ev.check_span(&o, "diagnostic_spans_checked", erroneous_expression_span),
                        ParseErrorKind::MissingColonInEnumTypeField { variant_name, tuple_contents } => {
                            ev.check_span(&o, "diagnostic_spans_checked", &variant_name.span());
                            if let Some(sp) = tuple_contents {
                                ev.check_span(&o, "diagnostic_spans_checked", sp);
                            }
                        }
                        ParseErrorKind::UnnecessaryVisibilityQualifier { visibility } => ev.check_span(&o, "diagnostic_spans_checked", &visibility.span()),
                        _ => {}
                    }
                }
                _ => ev.res.count("other_errors_seen"),
            }
            // the rendered form: issue + hints
            match catch(AssertUnwindSafe(|| e.to_diagnostic(&self.source_engine))) {
                Ok(d) => {
                    let o = format!("{origin}.diagnostic-label");
                    ev.check_span(&o, "diagnostic_spans_checked", d.issue.span());
                    for h in &d.hints {
                        ev.check_span(&o, "diagnostic_spans_checked", h.span());
                    }
                }
                Err((loc, msg)) => ev.violation(panic_signature(&loc, &msg), format!("to_diagnostic of a {stage} error panicked: {msg} at {loc}")),
            }
        }
        for w in &warnings {
            ev.check_span(&format!("{stage}-warning"), "diagnostic_spans_checked", &w.span);
            match catch(AssertUnwindSafe(|| w.to_diagnostic(&self.source_engine))) {
                Ok(d) => {
                    ev.check_span(&format!("{stage}-warning.diagnostic-label"), "diagnostic_spans_checked", d.issue.span());
                    for h in &d.hints {
                        ev.check_span(&format!("{stage}-warning.diagnostic-label"), "diagnostic_spans_checked", h.span());
                    }
                }
                Err((loc, msg)) => ev.violation(panic_signature(&loc, &msg), format!("to_diagnostic of a {stage} warning panicked: {msg} at {loc}")),
            }
        }
        for i in &infos {
            ev.check_span(&format!("{stage}-info"), "diagnostic_spans_checked", &i.span);
        }
        (ne, nw)
    }

    /// Walk the lexed stream: check every span; returns the token fingerprint (comments skipped)
    /// if every span was fine.
    fn walk_tokens(&self, stream: &CommentedTokenStream, ev: &mut Eval) -> Option<u64> {
        use sha2::{Digest, Sha256};
        let before = ev.failed;
        ev.failed = false;
        let mut h = Sha256::new();
        let mut ntok = 0u64;
        // explicit stack: (slice, next index, closing char)
        ev.check_span("token-stream.full_span", "token_spans_checked", &stream.full_span);
        let mut stack: Vec<(&[CommentedTokenTree], usize, u8)> = vec![(stream.token_trees(), 0, 0)];
        let mut maxdepth = 0;
        while let Some((trees, i, close)) = stack.last_mut() {
            if *i >= trees.len() {
                if *close != 0 {
                    h.update([*close, 0]);
                }
                stack.pop();
                continue;
            }
            let t = &trees[*i];
            *i += 1;
            match t {
                CommentedTokenTree::Comment(c) => {
                    ev.check_span("token:comment", "token_spans_checked", &c.span);
                }
                CommentedTokenTree::Tree(tt) => {
                    ntok += 1;
                    match tt {
                        CommentedTree::Punct(p) => {
                            ev.check_span("token:punct", "token_spans_checked", &p.span);
                            h.update([b'p', p.kind.as_char() as u8, matches!(p.spacing, sway_ast::token::Spacing::Joint) as u8, 0]);
                        }
                        CommentedTree::Ident(id) => {
                            let sp = id.span();
                            ev.check_span("token:ident", "token_spans_checked", &sp);
                            h.update(b"i");
                            h.update(id.as_str().as_bytes());
                            h.update([0]);
                        }
                        CommentedTree::Literal(l) => {
                            let sp = l.span();
                            ev.check_span("token:literal", "token_spans_checked", &sp);
                            if let sway_ast::Literal::Int(li) = l {
                                if let Some((_, tsp)) = &li.ty_opt {
                                    ev.check_span("token:literal.suffix", "token_spans_checked", tsp);
                                }
                            }
                            if !ev.failed {
                                h.update(b"l");
                                h.update(sp.as_str().as_bytes());
                                h.update([0]);
                            }
                        }
                        CommentedTree::DocComment(d) => {
                            ev.check_span("token:doc-comment", "token_spans_checked", &d.span);
                            ev.check_span("token:doc-comment.content", "token_spans_checked", &d.content_span);
                            if !ev.failed {
                                h.update(b"d");
                                h.update(d.span.as_str().as_bytes());
                                h.update([0]);
                            }
                        }
                        CommentedTree::Group(g) => {
                            ev.check_span("token:group", "token_spans_checked", &g.span);
                            let (o, c) = match g.delimiter {
                                sway_types::ast::Delimiter::Parenthesis => (b'(', b')'),
                                sway_types::ast::Delimiter::Brace => (b'{', b'}'),
                                sway_types::ast::Delimiter::Bracket => (b'[', b']'),
                            };
                            h.update([o, 0]);
                            ev.check_span("token-stream.full_span", "token_spans_checked", &g.token_stream.full_span);
                            stack.push((g.token_stream.token_trees(), 0, c));
                            maxdepth = maxdepth.max(stack.len());
                        }
                    }
                }
            }
        }
        ev.res.max("max_group_depth_lexed", maxdepth as u64);
        ev.res.add("tokens_lexed", ntok);
        let ok = !ev.failed;
        ev.failed |= before;
        if ok {
            let d = h.finalize();
            Some(u64::from_le_bytes(d[..8].try_into().unwrap()) ^ ntok)
        } else {
            None
        }
    }

    /// Fingerprint of a seed file (None if it does not lex or panics: no reporting here, the
    /// identity mutant reports).
    fn seed_fingerprint(&self, text: &str) -> Option<u64> {
        let mut scratch = ShardResult::default();
        let h = Handler::default();
        let r = catch(AssertUnwindSafe(|| sway_parse::lex_commented(&h, Source::new(text), 0, text.len(), &None)));
        match r {
            Ok(Ok(stream)) => {
                let mut ev = Eval { text, res: &mut scratch, replay: Value::Null, input_arc: None, failed: false };
                let fp = catch(AssertUnwindSafe(|| self.walk_tokens(&stream, &mut ev))).ok().flatten();
                fp
            }
            _ => None,
        }
    }

    /// Signature of a panic inside lex / parse_file. All lexer spans are built by one helper
    /// (`token.rs: fn span`, `Span::new(..).unwrap()`), so its panic location alone would lump every
    /// bad span computation of the lexer together. The three mechanisms known on the unchanged tree
    /// get their own signature, and only when they are confirmed on the input at hand by a probe
    /// that neutralises exactly the suspected sites and must then observe (i) no panic and (ii) the
    /// lexer error whose span computation is at fault:
    ///  A `lex_block_comment`: the span of an unclosed block comment ends at `len - 1`, inside the
    ///    last character when that is multi-byte. Probe: last character replaced by `x`; expects
    ///    UnclosedMultilineComment.
    ///  B `parse_escape_code`: `\u` followed by a non-`{` character c: span = position of `u` plus
    ///    len(c), which ends inside c when c is multi-byte. Probe: every non-ASCII character that
    ///    follows `\u` replaced by `x`; expects UnicodeEscapeMissingBrace.
    ///  C `lex_char` recovery of 'ab': the span end is position(second char) + byte length of the
    ///    *parsed* string, which differs from the length of the source text when the literal holds
    ///    multi-byte characters or escapes. Probe: `neutralise_overshooting_char_literals` replays
    ///    that computation for every `'` of the input and replaces the quoted texts for which it
    ///    leaves the input or a character boundary by `'xx'`; expects ExpectedCloseQuote.
    /// Several mechanisms may be needed at once; the smallest confirming subset names the signature.
    /// Anything else keeps the generic call-site signature (and is therefore reported).
    fn classify_panic(&self, text: &str, loc: &str, msg: &str) -> String {
        let generic = panic_signature(loc, msg);
        if !(loc.contains("sway-parse/src/token.rs") && msg.contains("Option::unwrap()")) {
            return generic;
        }
        static RE_B: std::sync::OnceLock<regex::Regex> = std::sync::OnceLock::new();
        let re_b = RE_B.get_or_init(|| regex::Regex::new(r"\\u[^\x00-\x7f]").unwrap());
        let apply = |mask: u32| -> Option<String> {
            let mut t = text.to_string();
            // C first (it works on `'` + following char), then B, then A (last character)
            if mask & 4 != 0 {
                t = neutralise_overshooting_char_literals(&t)?;
            }
            if mask & 2 != 0 {
                if !re_b.is_match(&t) {
                    return None;
                }
                t = re_b.replace_all(&t, "\\ux").into_owned();
            }
            if mask & 1 != 0 {
                let last = t.chars().next_back()?;
                if last.len_utf8() < 2 {
                    return None;
                }
                t.truncate(t.len() - last.len_utf8());
                t.push('x');
            }
            Some(t)
        };
        // subsets ordered by size
        for mask in [1u32, 2, 4, 3, 5, 6, 7] {
            let Some(probe) = apply(mask) else { continue };
            let h = Handler::default();
            let r = catch(AssertUnwindSafe(|| {
                let _ = sway_parse::lex_commented(&h, Source::new(&probe), 0, probe.len(), &None);
            }));
            if r.is_err() {
                continue;
            }
            let (errors, _, _) = h.consume();
            let has = |f: &dyn Fn(&LexErrorKind) -> bool| errors.iter().any(|e| matches!(e, CompileError::Lex { error } if f(&error.kind)));
            let a_ok = mask & 1 == 0 || has(&|k| matches!(k, LexErrorKind::UnclosedMultilineComment { .. }));
            let b_ok = mask & 2 == 0 || has(&|k| matches!(k, LexErrorKind::UnicodeEscapeMissingBrace { .. }));
            let c_ok = mask & 4 == 0 || has(&|k| matches!(k, LexErrorKind::ExpectedCloseQuote { .. }));
            if a_ok && b_ok && c_ok {
                let mut names = vec![];
                if mask & 1 != 0 {
                    names.push("unclosed-block-comment-before-multibyte-last-char");
                }
                if mask & 2 != 0 {
                    names.push("unicode-escape-missing-brace-before-multibyte-char");
                }
                if mask & 4 != 0 {
                    names.push("multi-char-literal-span-from-decoded-length");
                }
                return format!("lexer-span-byte-arithmetic[{}]:panic@sway-parse/src/token.rs", names.join("+"));
            }
        }
        generic
    }

    /// Run the real lexer and parser on `text`. Returns the token fingerprint if it lexed.
    fn check_text(&self, text: &str, variant: u64, replay: Value, res: &mut ShardResult) -> Option<u64> {
        res.evaluations += 1;
        if !text.is_ascii() {
            res.count("inputs_non_ascii");
        }
        if text.chars().any(|c| c.len_utf8() == 4) {
            res.count("inputs_with_4byte_chars");
        }
        res.max("max_input_bytes", text.len() as u64);
        let source_id = if variant & 1 == 0 { None } else { Some(self.source_id) };
        let experimental = if variant & 2 == 0 {
            ExperimentalFeatures::default()
        } else {
            let mut e = ExperimentalFeatures::default();
            for f in ["new_encoding", "references", "new_hashing", "str_array_no_padding", "dynamic_storage"] {
                let _ = e.set_enabled_by_name(f, true);
            }
            e
        };
        let mut ev = Eval { text, res, replay, input_arc: None, failed: false };

        // ---- lexer
        let handler = Handler::default();
        let lexed = catch(AssertUnwindSafe(|| {
            let src = Source::new(text);
            let arc = src.text.clone();
            (sway_parse::lex_commented(&handler, src, 0, text.len(), &source_id), arc)
        }));
        let mut fp = None;
        match lexed {
            Err((loc, msg)) => {
                ev.res.count("panics_lex");
                let sig = self.classify_panic(text, &loc, &msg);
                ev.violation(sig, format!("lexer panicked: {msg} at {loc}"));
            }
            Ok((r, arc)) => {
                ev.input_arc = Some(arc);
                let (nerr, _) = self.check_handler("lex", handler, &mut ev);
                match r {
                    Ok(stream) => {
                        ev.res.count("lexed_ok");
                        if nerr > 0 {
                            ev.res.count("lexed_ok_with_errors");
                        }
                        match catch(AssertUnwindSafe(|| self.walk_tokens(&stream, &mut ev))) {
                            Ok(f) => fp = f,
                            Err((loc, msg)) => ev.violation(panic_signature(&loc, &msg), format!("walking the lexed token stream panicked (span accessor): {msg} at {loc}")),
                        }
                    }
                    Err(_) => {
                        ev.res.count("lex_rejected");
                        if nerr == 0 {
                            ev.violation("no-tree-no-diagnostic:lex".into(), "lex returned Err(ErrorEmitted) but the handler holds no error".into());
                        }
                    }
                }
            }
        }

        // ---- parser (lexes again internally, exactly as every caller does)
        let handler = Handler::default();
        let parsed = catch(AssertUnwindSafe(|| {
            let src = Source::new(text);
            let arc = src.text.clone();
            (sway_parse::parse_file(&handler, src, source_id, experimental), arc)
        }));
        match parsed {
            Err((loc, msg)) => {
                ev.res.count("panics_parse");
                let sig = self.classify_panic(text, &loc, &msg);
                ev.violation(sig, format!("parse_file panicked: {msg} at {loc}"));
            }
            Ok((r, arc)) => {
                ev.input_arc = Some(arc);
                let (nerr, nwarn) = self.check_handler("parse", handler, &mut ev);
                ev.res.add("diagnostics_errors", nerr as u64);
                ev.res.add("diagnostics_warnings", nwarn as u64);
                if nerr + nwarn > 0 {
                    ev.res.count("inputs_with_diagnostics");
                }
                match r {
                    Ok(module) => {
                        ev.res.count("parsed_ok");
                        if nerr > 0 {
                            ev.res.count("parsed_ok_with_recovered_errors");
                        }
                        let walked = catch(AssertUnwindSafe(|| {
                            let mut spans: Vec<(&'static str, Span)> = vec![];
                            spans.push(("module-kind", module.value.kind.span()));
                            spans.push(("module-semicolon", module.value.semicolon_token.span()));
                            for a in &module.attributes {
                                spans.push(("module-attribute", a.span()));
                            }
                            let mut nerr_items = 0;
                            for item in &module.value.items {
                                for a in &item.attributes {
                                    spans.push(("item-attribute", a.span()));
                                }
                                match &item.value {
                                    ItemKind::Error(sps, _) => {
                                        nerr_items += 1;
                                        for sp in sps.iter() {
                                            spans.push(("item-error-span", sp.clone()));
                                        }
                                    }
                                    other => spans.push(("item", other.span())),
                                }
                            }
                            (spans, module.value.items.len(), nerr_items)
                        }));
                        match walked {
                            Ok((spans, nitems, nerr_items)) => {
                                ev.res.add("items_parsed", nitems as u64);
                                ev.res.add("error_items_recovered", nerr_items as u64);
                                for (o, sp) in spans {
                                    ev.check_span(&format!("tree:{o}"), "item_spans_checked", &sp);
                                }
                            }
                            Err((loc, msg)) => ev.violation(panic_signature(&loc, &msg), format!("computing the spans of the returned module's items panicked: {msg} at {loc}")),
                        }
                    }
                    Err(_) => {
                        ev.res.count("parse_rejected");
                        if nerr == 0 {
                            ev.violation("no-tree-no-diagnostic:parse".into(), "parse_file returned Err(ErrorEmitted) but the handler holds no error".into());
                        }
                    }
                }
            }
        }
        fp
    }
}

// ------------------------------------------------------------------------------------------
// Worker process

fn case_json(c: &Case, corpus: &Corpus, shard: u64, index: u64, variant: u64) -> Value {
    json!({
        "text": c.text,
        "kind": c.kind,
        "ops": c.ops,
        "seed_file": c.seed_file.map(|i| corpus.files[i].display().to_string()),
        "shard": shard,
        "index": index,
        "variant": variant,
    })
}

fn run_case(chk: &Checker, corpus: &mut Corpus, c: &Case, shard: u64, index: u64, res: &mut ShardResult) {
    let variant = hash64(&index.to_le_bytes()) & 3;
    res.count(&format!("kind_{}", c.kind));
    for op in &c.ops {
        res.count(&format!("op_{op}"));
    }
    let replay = case_json(c, corpus, shard, index, variant);
    let fp = chk.check_text(&c.text, variant, replay, res);
    // non-triviality
    let nontrivial = match c.seed_file {
        None => rough_tokens(&c.text).iter().filter(|t| t.k != K::Ws).count() >= 2,
        Some(fi) => {
            if !corpus.fp.contains_key(&fi) {
                let t = corpus.text(fi).unwrap_or_default();
                let f = chk.seed_fingerprint(&t);
                corpus.fp.insert(fi, f);
                res.count("seed_files_used");
                if f.is_none() {
                    res.count("seed_files_not_lexing");
                }
            }
            match (fp, corpus.fp[&fi]) {
                (Some(a), Some(b)) => {
                    res.count("nontriviality_by_token_stream");
                    a != b
                }
                _ => {
                    res.count("nontriviality_by_bytes");
                    Some(&c.text) != corpus.text(fi).as_ref()
                }
            }
        }
    };
    if nontrivial {
        res.note_nontrivial(hash64(c.text.as_bytes()));
    } else {
        res.count("trivial_mutants");
    }
    if res.samples.len() < 2 && nontrivial && c.text.len() < 400 {
        res.sample(json!({"kind": c.kind, "ops": c.ops, "text": c.text}));
    }
}

fn on_big_stack<T: Send + 'static>(f: impl FnOnce() -> T + Send + 'static) -> Result<T, String> {
    std::thread::Builder::new()
        .stack_size(STACK)
        .spawn(f)
        .map_err(|e| format!("cannot spawn big-stack thread: {e}"))?
        .join()
        .map_err(|p| {
            let msg = p.downcast_ref::<&str>().map(|s| s.to_string()).or_else(|| p.downcast_ref::<String>().cloned()).unwrap_or_default();
            format!("harness thread panicked outside of the monitored calls: {msg}")
        })
}

/// c16-worker <seed> <shard> <start_index> <budget_ms> <out> <journal>
fn worker_main(a: &[String]) -> i32 {
    let seed: u64 = a[0].parse().unwrap();
    let shard: u64 = a[1].parse().unwrap();
    let start_index: u64 = a[2].parse().unwrap();
    let budget = Duration::from_millis(a[3].parse().unwrap());
    let out = PathBuf::from(&a[4]);
    let journal_path = PathBuf::from(&a[5]);
    let out2 = out.clone();
    let r = on_big_stack(move || {
        use std::os::unix::fs::FileExt;
        let start = Instant::now();
        let journal = std::fs::OpenOptions::new().create(true).write(true).truncate(false).open(&journal_path).expect("journal");
        let mut corpus = Corpus::load();
        let chk = Checker::new();
        let mut res = ShardResult::default();
        res.max("max_corpus_files", corpus.files.len() as u64);
        let mut index = start_index;
        let mut last_partial = Instant::now();
        let partial = out2.with_extension("partial");
        while start.elapsed() < budget {
            let _ = journal.write_at(&index.to_le_bytes(), 0);
            // a panic of the generator is a harness bug: the case is dropped and made visible, it
            // is never attributed to the parser (the parser is not even called)
            match std::panic::catch_unwind(AssertUnwindSafe(|| gen_case(seed, shard, index, &mut corpus))) {
                Ok(c) => match c.skipped {
                    Some(why) => res.count(&format!("skipped_{why}")),
                    None => run_case(&chk, &mut corpus, &c, shard, index, &mut res),
                },
                Err(_) => {
                    res.count("harness_generator_faults");
                    res.inconclusive(format!("the mutation code of the harness panicked for case index {index} of shard {shard} (seed {seed}); case dropped"));
                }
            }
            index += 1;
            if last_partial.elapsed() > Duration::from_secs(5) {
                let _ = std::fs::write(&partial, serde_json::to_string(&res).unwrap());
                last_partial = Instant::now();
            }
        }
        let _ = journal.write_at(&u64::MAX.to_le_bytes(), 0);
        res
    });
    match r {
        Ok(res) => {
            std::fs::write(&out, serde_json::to_string(&res).unwrap()).expect("write worker result");
            0
        }
        Err(e) => {
            eprintln!("c16-worker: {e}");
            3
        }
    }
}

/// c16-one <input file> <out> [variant]: evaluate one text in a fresh process
fn one_main(a: &[String]) -> i32 {
    let text = match std::fs::read_to_string(&a[0]) {
        Ok(t) => t,
        Err(e) => {
            eprintln!("c16-one: {e}");
            return 3;
        }
    };
    let out = PathBuf::from(&a[1]);
    let variant: u64 = a.get(2).and_then(|s| s.parse().ok()).unwrap_or(0);
    let r = on_big_stack(move || {
        let chk = Checker::new();
        let mut res = ShardResult::default();
        let replay = json!({"text": text, "variant": variant});
        chk.check_text(&text, variant, replay, &mut res);
        res
    });
    match r {
        Ok(res) => {
            std::fs::write(&out, serde_json::to_string(&res).unwrap()).expect("write result");
            0
        }
        Err(e) => {
            eprintln!("c16-one: {e}");
            3
        }
    }
}

fn subcommand(args: &[String]) -> Option<i32> {
    match args.first().map(|s| s.as_str()) {
        Some("c16-worker") if args.len() >= 7 => Some(worker_main(&args[1..])),
        Some("c16-one") if args.len() >= 3 => Some(one_main(&args[1..])),
        _ => None,
    }
}

// ------------------------------------------------------------------------------------------
// Supervisor (the shard)

#[derive(Debug)]
enum ChildEnd {
    Ok(ShardResult),
    Signal(i32),
    Code(i32),
    Hung,
}

fn read_result(p: &Path) -> Option<ShardResult> {
    std::fs::read_to_string(p).ok().and_then(|s| serde_json::from_str(&s).ok())
}

/// Run `text` in a fresh process. (result, how it ended)
fn run_one_process(dir: &Path, tag: &str, text: &str, variant: u64) -> ChildEnd {
    use std::os::unix::process::ExitStatusExt;
    let input = dir.join(format!("{tag}.input.sw"));
    let out = dir.join(format!("{tag}.result.json"));
    let _ = std::fs::remove_file(&out);
    if std::fs::write(&input, text).is_err() {
        return ChildEnd::Code(-1);
    }
    let exe = std::env::current_exe().expect("current_exe");
    let log = std::fs::File::create(dir.join(format!("{tag}.log"))).ok();
    let mut cmd = std::process::Command::new(exe);
    cmd.arg("c16-one").arg(&input).arg(&out).arg(variant.to_string()).stdin(std::process::Stdio::null());
    if let Some(l) = log {
        if let Ok(l2) = l.try_clone() {
            cmd.stdout(l).stderr(l2);
        }
    }
    let Ok(mut child) = cmd.spawn() else { return ChildEnd::Code(-1) };
    let start = Instant::now();
    loop {
        match child.try_wait() {
            Ok(Some(st)) => {
                if let Some(sig) = st.signal() {
                    return ChildEnd::Signal(sig);
                }
                if st.success() {
                    if let Some(r) = read_result(&out) {
                        return ChildEnd::Ok(r);
                    }
                }
                return ChildEnd::Code(st.code().unwrap_or(-1));
            }
            Ok(None) => {
                if start.elapsed() > Duration::from_secs(HANG_SECS) {
                    let _ = child.kill();
                    let _ = child.wait();
                    return ChildEnd::Hung;
                }
                std::thread::sleep(Duration::from_millis(10));
            }
            Err(_) => return ChildEnd::Code(-1),
        }
    }
}

fn log_tail(p: &Path) -> String {
    let s = std::fs::read_to_string(p).unwrap_or_default();
    let t: String = s.chars().rev().take(300).collect::<String>().chars().rev().collect();
    t.replace('\n', " | ")
}

fn shard(ctx: &ShardCtx) -> ShardResult {
    use std::os::unix::process::ExitStatusExt;
    let mut total = ShardResult::default();
    let dir = ctx.work();
    let exe = std::env::current_exe().expect("current_exe");
    let journal = dir.join("journal");
    let mut next: u64 = 0;
    let mut respawns = 0u32;
    let mut corpus: Option<Corpus> = None;
    while ctx.time_left() {
        if respawns > 50 {
            total.inconclusive("worker was restarted more than 50 times; giving up on this shard");
            break;
        }
        let left = ctx.budget.saturating_sub(ctx.start.elapsed());
        let out = dir.join(format!("worker{respawns}.result.json"));
        let logp = dir.join(format!("worker{respawns}.log"));
        let _ = std::fs::write(&journal, next.to_le_bytes());
        let mut cmd = std::process::Command::new(&exe);
        cmd.arg("c16-worker").arg(ctx.seed.to_string()).arg(ctx.shard.to_string()).arg(next.to_string()).arg(left.as_millis().to_string()).arg(&out).arg(&journal).stdin(std::process::Stdio::null());
        if let Ok(l) = std::fs::File::create(&logp) {
            if let Ok(l2) = l.try_clone() {
                cmd.stdout(l).stderr(l2);
            }
        }
        let mut child = match cmd.spawn() {
            Ok(c) => c,
            Err(e) => {
                total.harness_fault = Some(format!("cannot spawn c16-worker: {e}"));
                return total;
            }
        };
        respawns += 1;
        let read_journal = || -> u64 { std::fs::read(&journal).ok().and_then(|b| b.get(..8).map(|x| u64::from_le_bytes(x.try_into().unwrap()))).unwrap_or(u64::MAX) };
        let mut last_idx = read_journal();
        let mut last_change = Instant::now();
        let end = loop {
            match child.try_wait() {
                Ok(Some(st)) => {
                    if let Some(sig) = st.signal() {
                        break ChildEnd::Signal(sig);
                    }
                    if st.success() {
                        if let Some(r) = read_result(&out) {
                            break ChildEnd::Ok(r);
                        }
                    }
                    break ChildEnd::Code(st.code().unwrap_or(-1));
                }
                Ok(None) => {
                    let idx = read_journal();
                    if idx != last_idx {
                        last_idx = idx;
                        last_change = Instant::now();
                    } else if last_change.elapsed() > Duration::from_secs(HANG_SECS) {
                        let _ = child.kill();
                        let _ = child.wait();
                        break ChildEnd::Hung;
                    }
                    std::thread::sleep(Duration::from_millis(25));
                }
                Err(_) => break ChildEnd::Code(-1),
            }
        };
        match end {
            ChildEnd::Ok(r) => {
                total.merge(r);
                break; // the worker used up the budget
            }
            ChildEnd::Code(code) => {
                // the harness's own code failed (exit 3) or the worker could not start
                total.harness_fault = Some(format!("c16-worker exited with code {code}: {}", log_tail(&logp)));
                if let Some(r) = read_result(&out.with_extension("partial")) {
                    total.merge(r);
                }
                return total;
            }
            ChildEnd::Hung | ChildEnd::Signal(_) => {
                if let Some(r) = read_result(&out.with_extension("partial")) {
                    total.merge(r);
                }
                let idx = read_journal();
                if idx == u64::MAX {
                    total.inconclusive(format!("worker ended abnormally ({end:?}) outside of a case"));
                    break;
                }
                let corpus = corpus.get_or_insert_with(Corpus::load);
                let c = gen_case(ctx.seed, ctx.shard, idx, corpus);
                let variant = hash64(&idx.to_le_bytes()) & 3;
                let replay = case_json(&c, corpus, ctx.shard, idx, variant);
                next = idx + 1;
                if let ChildEnd::Hung = end {
                    total.inconclusive(format!("no progress for {HANG_SECS} s on case index {idx} of shard {} (seed {}); worker killed, case skipped", ctx.shard, ctx.seed));
                    total.count("cases_hung");
                    let _ = std::fs::write(dir.join(format!("hung_case_{idx}.json")), replay.to_string());
                    continue;
                }
                let ChildEnd::Signal(sig) = end else { unreachable!() };
                total.count("worker_deaths_by_signal");
                // does the same input kill a fresh process again?
                match run_one_process(&dir, &format!("confirm{idx}"), &c.text, variant) {
                    ChildEnd::Signal(sig2) => {
                        total.evaluations += 1;
                        let tail = log_tail(&dir.join(format!("confirm{idx}.log")));
                        total.violation(
                            format!("process-death:signal={sig2}:input={}", &sha_hex(c.text.as_bytes())[..16]),
                            format!("parsing this input kills the process (signal {sig} in the worker, signal {sig2} in a fresh process; not a panic): {tail}"),
                            replay,
                        );
                    }
                    ChildEnd::Ok(r) => {
                        // not reproducible in isolation: keep whatever the fresh run found
                        total.merge(r);
                        total.inconclusive(format!("worker died on signal {sig} at case index {idx} but the same input is handled by a fresh process"));
                    }
                    other => total.inconclusive(format!("worker died on signal {sig} at case index {idx}; confirmation run ended with {other:?}")),
                }
            }
        }
    }
    total.max("max_worker_processes_per_shard", respawns as u64);
    total
}

fn replay(case: &Value) -> ShardResult {
    let mut res = ShardResult::default();
    let Some(text) = case["text"].as_str() else {
        res.harness_fault = Some("replay case has no text".into());
        return res;
    };
    let variant = case["variant"].as_u64().unwrap_or(0);
    let dir = work_dir("C16").join("replay");
    std::fs::create_dir_all(&dir).ok();
    match run_one_process(&dir, "replay", text, variant) {
        ChildEnd::Ok(mut r) => {
            // re-attach the full case to whatever was found
            for v in &mut r.violations {
                v.replay = case.clone();
            }
            res.merge(r);
        }
        ChildEnd::Signal(sig) => {
            res.evaluations += 1;
            res.violation(
                format!("process-death:signal={sig}:input={}", &sha_hex(text.as_bytes())[..16]),
                format!("parsing this input kills the process (signal {sig}): {}", log_tail(&dir.join("replay.log"))),
                case.clone(),
            );
        }
        ChildEnd::Hung => res.inconclusive("replay did not finish within the watchdog"),
        ChildEnd::Code(c) => res.harness_fault = Some(format!("c16-one exited with code {c}: {}", log_tail(&dir.join("replay.log")))),
    }
    res
}
